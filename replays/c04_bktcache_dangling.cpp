// Classification replay for the C04 finding BKTCACHE-STALE: PS5SmallsortJob::sort_sample_sort() caches
// bktcache_.data() once; a nested sort_mkqs_cache() on a bucket with more than n/4 strings destroys and
// re-allocates bktcache_, and the next sample-sort step of the same job classifies into the freed block.
//   clang++ -std=c++17 -g -fsanitize=address -I/repo c04_bktcache_dangling.cpp /repo/tlx/thread_pool.cpp /repo/tlx/die/core.cpp ... -lpthread
// (link all tlx .cpp files).  Before the fix: heap-use-after-free in SeqSampleSortStep; afterwards PASS.
#include <tlx/sort/strings/parallel_sample_sort.hpp>
#include <tlx/sort/strings/string_ptr.hpp>
#include <tlx/sort/strings/string_set.hpp>
#include <cstdio>
#include <cstring>
#include <string>
#include <vector>
using namespace tlx::sort_strings_detail;
struct SmallParams : public PS5ParametersDefault {
    static const size_t smallsort_threshold = 64;
    static const size_t inssort_threshold = 4;
    static const unsigned TreeBits = 3;
    // one sequential job for the whole input (the same happens for any job of smallsort_threshold..sequential_threshold strings)
    static const bool enable_parallel_sample_sort = false;
    // keep the job sequential (same as: no idle worker at the moment the job looks for one)
    static const bool enable_work_sharing = false;
};
int main() {
    std::vector<std::string> pool;
    for (int i = 0; i < 55; ++i) pool.push_back("aaaaaaaa" + std::string(1, char('b' + i % 20)) + std::to_string(i));
    for (int i = 0; i < 100; ++i) pool.push_back("cccccccc" + std::string(1, char('b' + i % 20)) + std::to_string(i));
    for (int i = 0; i < 45; ++i) pool.push_back(std::string(1, char('d' + i % 20)) + "x" + std::to_string(i));
    std::vector<const unsigned char*> u;
    for (auto& s : pool) u.push_back(reinterpret_cast<const unsigned char*>(s.c_str()));
    using Set = CUCharStringSet;
    Set ss(u.data(), u.data() + u.size());
    std::vector<const unsigned char*> shadow(u.size());
    Set ssh(shadow.data(), shadow.data() + shadow.size());
    StringShadowPtr<Set> sp(ss, ssh);
    parallel_sample_sort_params<SmallParams>(sp, 0, 0);
    bool ok = true;
    for (size_t i = 1; i < u.size(); ++i)
        if (std::strcmp(reinterpret_cast<const char*>(u[i - 1]), reinterpret_cast<const char*>(u[i])) > 0) ok = false;
    std::puts(ok ? "PASS" : "FAIL");
    return ok ? 0 : 1;
}
