// F-C06-1: parallel_mergesort never destroys its temporary element copies. (classification replay)
#include <tlx/sort/parallel_mergesort.hpp>
#include <atomic>
#include <cstdio>
#include <vector>
static std::atomic<long> live{0};
struct Counted {
    int v;
    Counted(int x = 0) : v(x) { ++live; }
    Counted(const Counted& o) : v(o.v) { ++live; }
    Counted& operator=(const Counted& o) { v = o.v; return *this; }
    ~Counted() { --live; }
    bool operator<(const Counted& o) const { return v < o.v; }
};
int main() {
    {
        std::vector<Counted> v;
        for (int i = 0; i < 1000; ++i) v.emplace_back((i * 7919) % 1000);
        tlx::parallel_mergesort(v.begin(), v.end(), std::less<Counted>(), 4);
        std::printf("live objects after sort: %ld (vector holds 1000)\n", live.load());
        if (live != 1000) { std::puts("FAIL"); return 1; }
    }
    std::puts(live == 0 ? "PASS" : "FAIL");
    return live == 0 ? 0 : 1;
}
