// F-C16-1: RingBuffer::pop_back destroys the FRONT slot. (classification replay, not a check)
#include <tlx/container/ring_buffer.hpp>
#include <string>
#include <cstdio>
int main() {
    tlx::RingBuffer<std::string> rb(4);
    rb.push_back(std::string(100, 'a'));
    rb.push_back(std::string(100, 'b'));
    rb.pop_back();
    bool ok = rb.size() == 1 && rb.front() == std::string(100, 'a');   // ASan: heap-use-after-free
    std::puts(ok ? "PASS" : "FAIL");
    return ok ? 0 : 1;
}
