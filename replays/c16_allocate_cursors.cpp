// F-C16-2: deallocate() + allocate(smaller) keeps cursors from the old capacity. (classification replay)
#include <tlx/container/ring_buffer.hpp>
#include <cstdio>
int main() {
    tlx::RingBuffer<int> rb(20);
    for (int i = 0; i < 10; ++i) { rb.push_back(i); rb.pop_front(); }   // begin_ == end_ == 10
    rb.deallocate();
    rb.allocate(3);                  // capacity 4, cursors still 10
    rb.push_back(42);                // ASan: heap-buffer-overflow write to data_[10]
    bool ok = rb.size() == 1 && rb.front() == 42 && rb[0] == 42;
    std::puts(ok ? "PASS" : "FAIL");
    return ok ? 0 : 1;
}
