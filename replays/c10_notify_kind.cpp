// F-C10-1: cv_finished_ has two different waiter predicates (loop_until_empty / loop_until_terminate) but is
// signalled with notify_one: the wake-up can go to the waiter whose predicate is still false. (classification replay)
#include <tlx/thread_pool.hpp>
#include <atomic>
#include <chrono>
#include <cstdio>
#include <cstdlib>
#include <thread>
int main() {
    using namespace std::chrono_literals;
    tlx::ThreadPool pool(1);
    std::atomic<bool> empty_returned{false}, term_returned{false};
    std::thread a([&] { pool.loop_until_terminate(); term_returned = true; });
    std::this_thread::sleep_for(100ms);                 // a waits first
    std::thread b([&] { pool.loop_until_empty(); empty_returned = true; });
    std::this_thread::sleep_for(100ms);
    // b's predicate was true at once (no jobs) -> it returned; start it again after a job is queued
    b.join();
    empty_returned = false;
    std::atomic<bool> go{false};
    pool.enqueue([&] { while (!go) std::this_thread::sleep_for(1ms); });
    std::thread c([&] { pool.loop_until_empty(); empty_returned = true; });
    std::this_thread::sleep_for(100ms);                 // a and c both wait on cv_finished_, a first
    go = true;                                          // job finishes -> one notify_one
    std::this_thread::sleep_for(500ms);
    bool ok = empty_returned;                           // the pool is empty and idle: loop_until_empty must have returned
    std::printf("loop_until_empty returned: %d (done=%zu idle=%zu)\n", int(empty_returned), pool.done(), pool.idle());
    std::puts(ok ? "PASS" : "FAIL");
    std::fflush(stdout);
    std::_Exit(ok ? 0 : 1);
}
