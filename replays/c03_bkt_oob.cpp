// Replay for the C03 finding BKT-INDEX-BOUND (fixed): sort_strings_lcp on >= 32 identical strings reaches a
// radix step in which every string ends at the current depth; the LCP boundary loop then read bkt_size[256].
//   clang++ -std=c++17 -g -fsanitize=address,undefined -I/repo c03_bkt_oob.cpp && ./a.out
// before the fix: "index 256 out of bounds for type 'size_t[256]'" + heap-buffer-overflow READ of size 8.
#include <tlx/sort/strings.hpp>
#include <cstdio>
#include <string>
#include <vector>
int main() {
    std::vector<std::string> s(100, "abc");
    std::vector<std::uint32_t> lcp(100);
    tlx::sort_strings_lcp(s, lcp.data(), 0);
    for (size_t i = 1; i < 100; ++i)
        if (lcp[i] != 3) { printf("lcp[%zu]=%u\n", i, lcp[i]); return 1; }
    puts("ok");
}
