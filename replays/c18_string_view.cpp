// F-C18-1/2/3 classification replays: StringView vs std::string_view
#include <tlx/container/string_view.hpp>
#include <cstdio>
#include <string>
#include <string_view>
int main() {
    int fails = 0;
    auto chk = [&](bool ok, const char* what) { std::printf("%s: %s\n", ok ? "ok  " : "FAIL", what); if (!ok) ++fails; };
    const std::string a("ab\0c", 4), b("ab\0d", 4);
    auto sgn = [](int x) { return (x > 0) - (x < 0); };
    chk(sgn(tlx::StringView(a).compare(tlx::StringView(b))) == sgn(std::string_view(a).compare(std::string_view(b))), "compare with embedded NUL");
    const std::string h("a\0c", 3), nd("a\0b", 3);
    chk(tlx::StringView(h).rfind(tlx::StringView(nd)) == std::string_view(h).rfind(std::string_view(nd)), "rfind with embedded NUL");
    const std::string hi("a\x80"), lo("aa");
    chk((tlx::StringView(hi) < tlx::StringView(lo)) == (std::string_view(hi) < std::string_view(lo)), "operator< with a byte >= 0x80");
    chk((tlx::StringView(hi) < lo) == (std::string_view(hi) < std::string_view(lo)), "operator<(StringView, std::string) with a byte >= 0x80");
    chk((hi < tlx::StringView(lo)) == (std::string_view(hi) < std::string_view(lo)), "operator<(std::string, StringView) with a byte >= 0x80");
    char b1[8] = {0}, b2[8] = {0};
    std::string s("abcdef");
    size_t r1 = tlx::StringView(s).copy(b1, 2, 3), r2 = std::string_view(s).copy(b2, 2, 3);
    chk(r1 == r2 && std::string(b1, r1) == std::string(b2, r2), "copy(buf, 2, 3)");
    std::puts(fails ? "FAIL" : "PASS");
    return fails ? 1 : 0;
}
