#include <tlx/define/likely.hpp>
#include <tlx/sort/strings/sample_sort_tools.hpp>
#include <cstdio>
#include <vector>
int main() {
    using namespace tlx::sort_strings_detail;
    SSClassifyEqualUnroll<std::uint64_t, 4> c;
    std::vector<std::uint64_t> s; for (int i = 0; i < 30; ++i) s.push_back(16 * (i + 1) + 3);
    unsigned char lcp[17];
    c.build(s.data(), s.size(), lcp);
    int bad = 0;
    for (auto k : s) {
        unsigned b = c.find_bkt(k);
        if (b % 2 == 1) { auto sp = c.get_splitter(b / 2); if (sp != k) { ++bad; std::printf("key %lu -> equal bucket %u, get_splitter(%u) = %lu\n", (unsigned long)k, b, b/2, (unsigned long)sp); } }
    }
    std::printf("bad=%d\n", bad);
    SSClassifyTreeCalcUnrollInterleave<std::uint64_t, 4> d; d.build(s.data(), s.size(), lcp); bad = 0;
    for (auto k : s) { unsigned b = d.find_bkt(k); if (b % 2 == 1 && d.get_splitter(b/2) != k) ++bad; }
    std::printf("treecalc bad=%d\n", bad);
}
