// F-C20-*: classification replays against the real headers
#include <tlx/math/aggregate.hpp>
#include <tlx/math/div_ceil.hpp>
#include <tlx/math/round_to_power_of_two.hpp>
#include <tlx/math/round_up.hpp>
#include <cmath>
#include <cstdio>
#include <climits>
int main() {
    int fails = 0;
    auto chk = [&](bool ok, const char* what) { std::printf("%s: %s\n", ok ? "ok  " : "FAIL", what); if (!ok) ++fails; };
    chk(tlx::round_down_to_power_of_two(0x80000000u) == 0x80000000u, "round_down_to_power_of_two(0x80000000u) == 0x80000000");
    chk(tlx::round_down_to_power_of_two(0xFFFFFFFFu) == 0x80000000u, "round_down_to_power_of_two(0xFFFFFFFFu) == 0x80000000");
    chk(tlx::round_down_to_power_of_two(~0ull) == (1ull << 63), "round_down_to_power_of_two(~0ull) == 2^63");
    chk(tlx::round_down_to_power_of_two(5u) == 4u && tlx::round_down_to_power_of_two(0u) == 0u && tlx::round_down_to_power_of_two(1u) == 1u, "round_down small values");
    chk(tlx::div_ceil(0xFFFFFFFFu, 2u) == 0x80000000u, "div_ceil(0xFFFFFFFF, 2) == 0x80000000");
    chk(tlx::div_ceil(7u, 2u) == 4u && tlx::div_ceil(8u, 2u) == 4u && tlx::div_ceil(0u, 3u) == 0u, "div_ceil small values");
    chk(tlx::round_up(0xFFFFFFF0u, 16u) == 0xFFFFFFF0u, "round_up(0xFFFFFFF0, 16) == 0xFFFFFFF0");
    chk(tlx::round_up(0xFFFFFFE1u, 16u) == 0xFFFFFFF0u, "round_up(0xFFFFFFE1, 16) == 0xFFFFFFF0");
    chk(tlx::round_up(0xFFFFFFFEu, 3u) == 0xFFFFFFFFu, "round_up(0xFFFFFFFE, 3) == 0xFFFFFFFF");
    tlx::Aggregate<double> a, b, all;
    for (double v : {1.0, 2.0}) { a.add(v); all.add(v); }
    for (double v : {10.0, 20.0, 30.0}) { b.add(v); all.add(v); }
    tlx::Aggregate<double> c = a; c += b;
    chk(std::fabs(c.variance() - all.variance()) < 1e-9, "Aggregate += variance equals single-pass variance");
    chk(std::fabs((a + b).variance() - all.variance()) < 1e-9, "Aggregate + variance equals single-pass variance");
    tlx::Aggregate<double> e1, e2; e1 += e2; e1.add(1.0); e1.add(3.0);
    chk(std::fabs(e1.variance() - 2.0) < 1e-9, "empty += empty, then add(1), add(3): variance == 2");
    std::puts(fails ? "FAIL" : "PASS");
    return fails ? 1 : 0;
}
