// Classification replay for the C13 finding CLZ-WIDTH: RadixHeap with 8/16-bit keys.  In BucketComputation
// `x ^ insertion_limit` is promoted to int, clz counts 32-bit leading zeros while the width constant is 8*sizeof(Int)-1.
//   clang++ -std=c++17 -g -fsanitize=address,undefined -I/repo c13_radix_small_keys.cpp /repo/tlx/die/core.cpp ...
#include <tlx/container/radix_heap.hpp>
#include <algorithm>
#include <cstdint>
#include <cstdio>
#include <vector>
template <typename K>
static int run(const char* name) {
    auto rh = tlx::make_radix_heap<int>([](int v) { return static_cast<K>(v); });
    std::vector<int> in;
    for (int i = 0; i < 300; ++i) in.push_back((i * 37) % 120);
    for (int v : in) rh.push(v);
    std::sort(in.begin(), in.end());
    for (size_t i = 0; i < in.size(); ++i) {
        if (rh.empty() || rh.top() != in[i]) { std::printf("%s: wrong element at %zu\n", name, i); return 1; }
        rh.pop();
    }
    return 0;
}
int main() {
    int rc = run<std::uint32_t>("uint32") + run<std::uint16_t>("uint16") + run<std::uint8_t>("uint8") + run<std::int8_t>("int8") + run<std::int16_t>("int16");
    std::puts(rc ? "FAIL" : "PASS");
    return rc;
}
