// F-C11-1: Semaphore::signal() uses notify_one although waiters have different (delta, slack). (classification replay)
#include <tlx/semaphore.hpp>
#include <atomic>
#include <chrono>
#include <cstdio>
#include <cstdlib>
#include <thread>
int main() {
    using namespace std::chrono_literals;
    tlx::Semaphore s(0);
    std::atomic<bool> got1{false}, got2{false};
    std::thread a([&] { s.wait(2); got2 = true; });
    std::this_thread::sleep_for(100ms);                // the wait(2) thread blocks first
    std::thread b([&] { s.wait(1); got1 = true; });
    std::this_thread::sleep_for(100ms);
    s.signal();                                        // value 1: covers wait(1) only
    std::this_thread::sleep_for(500ms);
    bool ok = got1;                                    // the waiter whose request is covered must not stay blocked
    std::printf("wait(1) returned: %d, value=%zu\n", int(got1), s.value());
    std::puts(ok ? "PASS" : "FAIL");
    std::fflush(stdout);
    std::_Exit(ok ? 0 : 1);
}
