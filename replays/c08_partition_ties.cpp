// F-C08-1: multisequence_partition ignores the sequence index on ties. (classification replay: exhaustive small inputs)
#include <tlx/algorithm/multisequence_partition.hpp>
#include <cstdio>
#include <vector>
#include <utility>
#include <functional>
using It = std::vector<int>::iterator;
int main() {
    long checked = 0, bad_rank = 0, bad_order = 0, bad_tie = 0; int shown = 0;
    for (int m = 1; m <= 3; ++m) {
        // all length vectors 1..4 and all sorted contents over {0,1,2}
        std::vector<int> len(m, 1);
        while (true) {
            int total = 0; for (int l : len) total += l;
            // enumerate contents: each sequence non-decreasing over {0,1,2}: encode by counts
            std::vector<std::vector<std::vector<int>>> opts(m);
            for (int i = 0; i < m; ++i)
                for (int c0 = 0; c0 <= len[i]; ++c0) for (int c1 = 0; c0 + c1 <= len[i]; ++c1) {
                    std::vector<int> s; s.insert(s.end(), c0, 0); s.insert(s.end(), c1, 1); s.insert(s.end(), len[i] - c0 - c1, 2); opts[i].push_back(s); }
            std::vector<size_t> pick(m, 0);
            while (true) {
                std::vector<std::vector<int>> seqs(m);
                for (int i = 0; i < m; ++i) seqs[i] = opts[i][pick[i]];
                for (int rank = 0; rank <= total; ++rank) {
                    std::vector<std::pair<It, It>> sp; for (auto& s : seqs) sp.emplace_back(s.begin(), s.end());
                    std::vector<It> off(m);
                    tlx::multisequence_partition(sp.begin(), sp.end(), rank, off.begin(), std::less<int>());
                    ++checked;
                    int left = 0; for (int i = 0; i < m; ++i) left += off[i] - seqs[i].begin();
                    bool r_ok = left == rank, o_ok = true, t_ok = true;
                    for (int i = 0; i < m; ++i) for (int j = 0; j < m; ++j) {
                        if (off[i] != seqs[i].begin() && off[j] != seqs[j].end()) {
                            int lv = *(off[i] - 1), rv = *off[j];
                            if (rv < lv) o_ok = false;
                            if (rv == lv && j < i) t_ok = false;   // an equal element of a LOWER sequence is on the right while a higher one is on the left
                        } }
                    if (!r_ok) ++bad_rank; if (!o_ok) ++bad_order; if (!t_ok) { ++bad_tie;
                        if (shown++ < 3) { std::printf("tie violation: rank %d:", rank); for (int i = 0; i < m; ++i) { std::printf(" {"); for (int v : seqs[i]) std::printf("%d", v); std::printf("}->%ld", long(off[i] - seqs[i].begin())); } std::printf("\n"); } }
                }
                int k = 0; while (k < m && ++pick[k] == opts[k].size()) pick[k++] = 0; if (k == m) break;
            }
            int k = 0; while (k < m && ++len[k] == 5) len[k++] = 1; if (k == m) break;
        }
    }
    std::printf("checked %ld: wrong rank %ld, order violations %ld, tie-order violations %ld\n", checked, bad_rank, bad_order, bad_tie);
    bool ok = !bad_rank && !bad_order && !bad_tie;
    std::puts(ok ? "PASS" : "FAIL");
    return ok ? 0 : 1;
}
