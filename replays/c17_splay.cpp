// F-C17-1/2/3 classification replays against the real SplayTree
#include <tlx/container/splay_tree.hpp>
#include <cstdio>
#include <vector>
#include <cstdlib>
#include <cstring>
int main(int argc, char** argv) {
    int which = argc > 1 ? std::atoi(argv[1]) : 0;
    if (which == 1) {          // clear() leaves root_ dangling: reuse / destructor double free
        tlx::splay_set<int> t; t.insert(1); t.insert(2); t.clear();
        bool ok = t.size() == 0 && t.insert(3) && t.exists(3) && t.size() == 1;
        std::puts(ok ? "PASS" : "FAIL"); return ok ? 0 : 1;
    }
    if (which == 2) {          // exists() on an empty tree dereferences null
        tlx::splay_set<int> t; bool e = t.exists(1);
        std::puts(!e ? "PASS" : "FAIL"); return e;
    }
    if (which == 3) {          // multiset erase loses nodes
        tlx::splay_multiset<int> t;
        t.insert(1); t.insert(1); t.insert(1); t.insert(0); t.insert(2);
        t.erase(1);
        std::vector<int> v; t.traverse_preorder([&v](const int& x) { v.push_back(x); });
        bool ok = t.size() == 4 && v == std::vector<int>({0, 1, 1, 2});
        std::printf("size=%zu traversed=%zu\n", t.size(), v.size());
        std::puts(ok ? "PASS" : "FAIL"); return ok ? 0 : 1;
    }
    return 0;
}
