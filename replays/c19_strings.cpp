// F-C19-1..4 classification replays
#include <tlx/string/compare_icase.hpp>
#include <tlx/string/equal_icase.hpp>
#include <tlx/string/join_quoted.hpp>
#include <tlx/string/split.hpp>
#include <tlx/string/split_quoted.hpp>
#include <tlx/string/split_view.hpp>
#include <cstdio>
#include <string>
#include <vector>
int main() {
    int fails = 0;
    auto chk = [&](bool ok, const char* what) { std::printf("%s: %s\n", ok ? "ok  " : "FAIL", what); if (!ok) ++fails; };
    using V = std::vector<std::string>;
    chk(tlx::split(tlx::string_view(","), "a,b,") == V({"a", "b", ""}), "split(\",\", \"a,b,\") == [a][b][]");
    bool ov = false;
    try { ov = tlx::split(tlx::string_view("aa"), "xaaaay") == V({"x", "", "y"}); } catch (...) { ov = false; }
    chk(ov, "split(\"aa\", \"xaaaay\") == [x][][y] (overlapping match)");
    chk(tlx::split_view(tlx::string_view(","), "a,b,").size() == 3, "split_view(\",\", \"a,b,\") has 3 parts");
    V f = {"a", "", "b"};
    chk(tlx::split_quoted(tlx::join_quoted(f)) == f, "join_quoted/split_quoted round trip with an empty field");
    V q = {"\"x", "y"};
    bool ok = false;
    try { ok = tlx::split_quoted(tlx::join_quoted(q)) == q; } catch (...) { ok = false; }
    chk(ok, "round trip of a field starting with the quote character");
    chk(tlx::compare_icase("abc", "abcd") < 0 && tlx::compare_icase("abcd", "abc") > 0, "compare_icase(\"abc\",\"abcd\") < 0");
    chk(tlx::compare_icase(tlx::string_view("abc"), tlx::string_view("abcd")) < 0, "compare_icase(view abc, view abcd) < 0");
    chk(tlx::equal_icase(tlx::string_view("abc"), "ABC"), "equal_icase(view \"abc\", \"ABC\")");
    chk(!tlx::equal_icase(tlx::string_view("abc"), "abcd"), "!equal_icase(view \"abc\", \"abcd\")");
    std::puts(fails ? "FAIL" : "PASS");
    return fails ? 1 : 0;
}
