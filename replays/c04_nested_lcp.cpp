// Classification replay for the C04 finding RESULT-ARRAY: ps5_sample_sort_lcp() computes the LCPs at the bucket boundaries
// of a sample sort step after the sub-sorts have copied their buckets home, but read the boundary keys through
// strptr.active(); a step that sorts a bucket living in the shadow array holds a flipped pointer, whose active() array is
// the stale shadow copy (the function only asserted !strptr.flipped()).  Nested sample sort levels (reached with small
// thresholds / small splitter trees) stored wrong LCP values; the order was never affected.
//   g++ -std=c++17 -O1 -g -DNDEBUG -I/repo c04_nested_lcp.cpp <libtlx or all tlx .cpp files> -lpthread
// Before the fix: "130 of 480 cases failed" (and with asserts enabled `!strptr.flipped()' fires); afterwards 0 of 480.
#include <tlx/sort/strings/parallel_sample_sort.hpp>
#include <tlx/sort/strings/string_ptr.hpp>
#include <tlx/sort/strings/string_set.hpp>
#include <cstdio>
#include <cstring>
#include <random>
#include <string>
#include <vector>
using namespace tlx::sort_strings_detail;
template <unsigned TB, size_t SS, size_t IS, bool PAR, bool SHARE>
struct P : public PS5ParametersDefault {
    static const size_t smallsort_threshold = SS;
    static const size_t inssort_threshold = IS;
    static const unsigned TreeBits = TB;
    using Classify = SSClassifyTreeCalcUnrollInterleave<typename PS5ParametersDefault::key_type, TB>;
    static const bool enable_parallel_sample_sort = PAR;
    static const bool enable_work_sharing = SHARE;
};
static size_t lcpof(const unsigned char* a, const unsigned char* b) { size_t i = 0; while (a[i] && a[i] == b[i]) ++i; return i; }
template <typename Params>
int run(const char* name, size_t n, unsigned alpha, unsigned len, unsigned seed) {
    std::mt19937 rng(seed);
    std::vector<std::string> pool(n);
    for (auto& s : pool) { unsigned l = rng() % (len + 1); for (unsigned i = 0; i < l; ++i) s.push_back(char('a' + rng() % alpha)); }
    std::vector<const unsigned char*> u;
    for (auto& s : pool) u.push_back(reinterpret_cast<const unsigned char*>(s.c_str()));
    using Set = CUCharStringSet;
    Set ss(u.data(), u.data() + u.size());
    std::vector<uint32_t> lcp(n, 0xdeadbeef);
    StringLcpPtr<Set, uint32_t> sp(ss, lcp.data());
    parallel_sample_sort_params<Params>(sp, 0, 0);
    int bad_order = 0, bad_lcp = 0;
    for (size_t i = 1; i < n; ++i) {
        if (std::strcmp((const char*)u[i - 1], (const char*)u[i]) > 0) ++bad_order;
        if (lcp[i] != lcpof(u[i - 1], u[i])) ++bad_lcp;
    }
    if (bad_order || bad_lcp) std::printf("%s n=%zu alpha=%u len=%u seed=%u: order errors %d, lcp errors %d\n", name, n, alpha, len, seed, bad_order, bad_lcp);
    return bad_order + bad_lcp;
}
int main() {
    int total = 0, cases = 0;
    for (unsigned seed = 1; seed <= 5; ++seed)
        for (size_t n : {50, 300, 2000, 20000})
            for (unsigned alpha : {1u, 2u, 4u})
                for (unsigned len : {3u, 12u}) {
                    cases += 4;
                    total += run<P<3, 64, 4, true, true>>("par/share tb3 ss64", n, alpha, len, seed) != 0;
                    total += run<P<4, 32, 8, true, false>>("par/noshare tb4 ss32", n, alpha, len, seed) != 0;
                    total += run<P<3, 64, 4, false, false>>("seq tb3 ss64", n, alpha, len, seed) != 0;
                    total += run<P<5, 256, 32, true, true>>("par/share tb5 ss256", n, alpha, len, seed) != 0;
                }
    std::printf("%d of %d cases failed\n", total, cases);
    return total != 0;
}
