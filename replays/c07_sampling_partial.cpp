// Classification replay for the C07 finding SLAB-LENGTH-CLAMP: sampling splitting, size < total, several threads.
// A slab that starts behind `size` gets the length min(local_size, size - target_position) < 0, and the inputs are
// advanced to the begin of the last slab instead of the merged position.
//   clang++ -std=c++17 -g -fsanitize=address,undefined -I/repo c07_sampling_partial.cpp /repo/tlx/algorithm/parallel_multiway_merge.cpp ... -lpthread
#include <tlx/algorithm/parallel_multiway_merge.hpp>
#include <algorithm>
#include <cstdio>
#include <vector>
using It = std::vector<int>::iterator;
int main() {
    tlx::parallel_multiway_merge_force_parallel = true;
    int rc = 0;
    for (size_t threads : {2, 3, 4, 8}) {
        for (size_t size : {1, 5, 10, 37, 60, 119}) {
            std::vector<std::vector<int>> data(3);
            for (int i = 0; i < 120; ++i) data[i % 3].push_back(i);
            std::vector<std::pair<It, It>> seqs;
            for (auto& d : data) seqs.emplace_back(d.begin(), d.end());
            std::vector<int> out(130, -1);
            auto end = tlx::parallel_multiway_merge(seqs.begin(), seqs.end(), out.begin(), size, std::less<int>(),
                                                    tlx::MWMA_ALGORITHM_DEFAULT, tlx::MWMSA_SAMPLING, threads);
            bool ok = size_t(end - out.begin()) == size;
            for (size_t i = 0; i < size; ++i) ok = ok && out[i] == int(i);
            for (size_t i = size; i < out.size(); ++i) ok = ok && out[i] == -1;
            size_t adv = 0;
            for (size_t i = 0; i < seqs.size(); ++i) adv += seqs[i].first - data[i].begin();
            if (!ok || adv != size) {
                std::printf("threads %zu size %zu: output %s, inputs advanced by %zu\n", threads, size, ok ? "ok" : "WRONG", adv);
                rc = 1;
            }
        }
    }
    std::puts(rc ? "FAIL" : "PASS");
    return rc;
}
