// F-C07-1/2/3 classification replays against parallel_multiway_merge
#include <tlx/algorithm/parallel_multiway_merge.hpp>
#include <algorithm>
#include <cstdio>
#include <cstdlib>
#include <cstring>
#include <vector>
using It = std::vector<int>::iterator;
static int run(int which) {
    tlx::parallel_multiway_merge_force_parallel = true;
    std::vector<std::vector<int>> data = {{1, 4, 7, 10, 13}, {2, 5, 8, 11}, {3, 6, 9, 12, 15, 18}};
    std::vector<std::pair<It, It>> seqs;
    for (auto& d : data) seqs.emplace_back(d.begin(), d.end());
    std::vector<int> all; for (auto& d : data) all.insert(all.end(), d.begin(), d.end());
    std::sort(all.begin(), all.end());
    size_t size = which == 2 ? 0 : 7;
    size_t threads = which == 1 ? 1 : 2;
    auto strat = which == 3 ? tlx::MWMSA_SAMPLING : tlx::MWMSA_EXACT;
    std::vector<int> out(all.size() + 4, -1);
    auto end = tlx::parallel_multiway_merge(seqs.begin(), seqs.end(), out.begin(), size, std::less<int>(), tlx::MWMA_ALGORITHM_DEFAULT, strat, threads);
    bool ok = size_t(end - out.begin()) == size && std::equal(out.begin(), out.begin() + size, all.begin());
    size_t adv = 0; for (size_t i = 0; i < seqs.size(); ++i) adv += seqs[i].first - data[i].begin();
    std::printf("case %d: output %s, inputs advanced by %zu (expected %zu)\n", which, ok ? "ok" : "WRONG", adv, size);
    return ok && adv == size ? 0 : 1;
}
int main(int argc, char** argv) { return run(std::atoi(argv[1])); }
