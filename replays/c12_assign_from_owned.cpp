// replay: h = std::move(h->next) / h = h->next on an intrusive list; before the fix the move-assignment destroyed node 2 while
// head was about to point at it (and read/wrote the freed handle); build: g++ -std=c++17 -DNDEBUG -I/repo c12_assign_from_owned.cpp
#include <tlx/counting_ptr.hpp>
#include <cstdio>
#include <vector>
static std::vector<int> destroyed;
struct Node;
struct NoDelete { void operator()(const Node*) const noexcept; };
struct Node : public tlx::ReferenceCounter {
    int id; tlx::CountingPtr<Node, NoDelete> next;
    explicit Node(int i) : id(i) {}
    ~Node() { destroyed.push_back(id); }
};
alignas(Node) static unsigned char arena[3][sizeof(Node)];
void NoDelete::operator()(const Node* n) const noexcept { const_cast<Node*>(n)->~Node(); }
int main() {
    using P = tlx::CountingPtr<Node, NoDelete>;
    int fails = 0;
    for (int mode = 0; mode < 2; ++mode) {
        destroyed.clear();
        Node* n1 = new (arena[0]) Node(1);
        Node* n2 = new (arena[1]) Node(2);
        {
            P head(n1);
            head->next = P(n2);
            if (mode == 0) head = head->next;            // copy-assign
            else head = std::move(head->next);           // move-assign
            // now: head should own n2 (count 1), n1 destroyed once, n2 alive
            bool n2_dead = false;
            for (int d : destroyed) if (d == 2) n2_dead = true;
            if (n2_dead) { printf("mode %d: FAIL node 2 destroyed while head points at it\n", mode); ++fails; }
            else printf("mode %d: ok so far, head id %d count %zu\n", mode, head->id, head->reference_count());
        }
        int c1 = 0, c2 = 0;
        for (int d : destroyed) { if (d == 1) ++c1; if (d == 2) ++c2; }
        printf("mode %d: node1 destroyed %d times, node2 destroyed %d times\n", mode, c1, c2);
        if (c1 != 1 || c2 != 1) ++fails;
    }
    return fails ? 1 : 0;
}
