// F-C13-1: build_heap() on a non-empty addressable heap leaves the handles of the old keys set. (classification replay)
#include <tlx/container/d_ary_addressable_int_heap.hpp>
#include <cstdio>
#include <vector>
int main() {
    int fails = 0;
    for (int variant = 0; variant < 3; ++variant) {
        tlx::DAryAddressableIntHeap<unsigned, 2> h;
        h.push(5);
        std::vector<unsigned> keys = {1, 2};
        if (variant == 0) h.build_heap(keys.begin(), keys.end());
        else if (variant == 1) h.build_heap(keys);
        else h.build_heap(std::move(keys));
        bool ok = !h.contains(5) && h.contains(1) && h.contains(2) && h.size() == 2 && h.sanity_check();
        if (!ok) { std::printf("variant %d: contains(5)=%d sanity=%d\n", variant, h.contains(5), h.sanity_check()); ++fails; }
    }
    std::puts(fails ? "FAIL" : "PASS");
    return fails ? 1 : 0;
}
