// F-C04-1 / F-C04-2 classification replay: parallel sample sort on many equal short strings with tiny thresholds.
#include <tlx/sort/strings/parallel_sample_sort.hpp>
#include <tlx/sort/strings/string_ptr.hpp>
#include <tlx/sort/strings/string_set.hpp>
#include <cstdio>
#include <cstring>
#include <vector>
using namespace tlx::sort_strings_detail;
struct SmallParams : public PS5ParametersDefault {
    static const size_t smallsort_threshold = 16;
    static const size_t inssort_threshold = 4;
    static const unsigned TreeBits = 3;
};
int main() {
    std::vector<const char*> strs;
    static const char* words[] = {"abc", "abd", "b", "ca", "abc", "zz", "a", "abcd"};
    for (int i = 0; i < 2000; ++i) strs.push_back(words[i % 8]);
    using Set = CUCharStringSet;
    std::vector<const unsigned char*> u; for (auto s : strs) u.push_back(reinterpret_cast<const unsigned char*>(s));
    Set ss(u.data(), u.data() + u.size());
    std::vector<const unsigned char*> shadow(u.size());
    Set ssh(shadow.data(), shadow.data() + shadow.size());
    StringShadowPtr<Set> sp(ss, ssh);
    parallel_sample_sort_params<SmallParams>(sp, 0, 0);
    bool ok = true;
    for (size_t i = 1; i < u.size(); ++i) if (std::strcmp(reinterpret_cast<const char*>(u[i - 1]), reinterpret_cast<const char*>(u[i])) > 0) ok = false;
    std::puts(ok ? "PASS" : "FAIL");
    return ok ? 0 : 1;
}
