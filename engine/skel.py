"""Engine: evaluation of a function's integer control skeleton on one point of a small grid.

A rule fixes the few integers that steer a fragment (a thread count, a flag, a size), supplies `unknown(e, sk)` for the
quantities that are data (returns a value or None) and `event(node, sk)` to observe calls / subscripts, and lets the
skeleton run: declarations, assignments, ++/--, if, for/while with concrete bounds, min/max, casts, ternaries.  Values are
ints, bools or None (data).  A branch on a None value cannot be decided: Undecidable.  This is an exhaustive evaluation of
a loop-free or concretely bounded fragment over a finite grid, not a run of the program: no tlx code is executed.
"""
from . import match, dtable
from .ir import kids, strip_casts, const_int, ref_of, walk


class _Break(Exception):
    pass


class _Continue(Exception):
    pass


class Return(Exception):
    def __init__(self, v):
        self.v = v


class Stop(Exception):
    """raised when the statement holding the `stop` node is reached"""


class Skel:
    MAX_ITER = 64

    def __init__(self, fn, env=None, unknown=None, event=None, stop=None):
        self.fn = fn
        self.env = dict(env or {})
        self.unknown = unknown
        self.event = event
        self.stop = stop

    # ---------------------------------------------------------------- expressions
    def ev(self, e):
        e = match.strip_conv(e)
        if e is None:
            return None
        k = e["k"]
        if k in ("ParenExpr", "ExprWithCleanups", "MaterializeTemporaryExpr", "CXXBindTemporaryExpr", "CXXFunctionalCastExpr",
                 "CXXStaticCastExpr", "CStyleCastExpr", "ConstantExpr"):
            return self.ev(kids(e)[0])
        if k == "CXXBoolLiteralExpr":
            return bool(e.get("val"))
        v = const_int(e)
        if v is not None:
            return v
        if self.event is not None:
            r = self.event(e, self)
            if r is not NotImplemented:
                return r
        if k == "DeclRefExpr":
            d = e["ref"]["id"]
            if d in self.env:
                return self.env[d]
            return self.unknown(e, self) if self.unknown else None
        if k == "UnaryOperator":
            op = e.get("op")
            if op in ("++", "--"):
                key = self.lvalue(kids(e)[0])
                old = self.load(key)
                new = None if old is None else old + (1 if op == "++" else -1)
                self.store(key, new)
                return old if e.get("postfix") else new
            a = self.ev(kids(e)[0])
            if op == "!":
                return None if a is None else not a
            if op == "-":
                return None if a is None else -a
            if op == "+":
                return a
            return self.unknown(e, self) if self.unknown else None
        if k == "ConditionalOperator":
            c = self.ev(kids(e)[0])
            if c is None:
                raise dtable.Undecidable("%s: condition depends on data at line %s: %s" % (self.fn.full, e.get("l"), dtable.describe(kids(e)[0])[:60]))
            return self.ev(kids(e)[1] if c else kids(e)[2])
        if k in ("BinaryOperator", "CompoundAssignOperator"):
            op = e["op"]
            if op == "=":
                v = self.ev(kids(e)[1])
                self.store(self.lvalue(kids(e)[0]), v)
                return v
            if op in ("+=", "-=", "*=", "/=", "%="):
                key = self.lvalue(kids(e)[0])
                v = self.arith(op[:-1], self.load(key), self.ev(kids(e)[1]), e)
                self.store(key, v)
                return v
            if op == ",":
                self.ev(kids(e)[0])
                return self.ev(kids(e)[1])
            if op in ("&&", "||"):
                a = self.ev(kids(e)[0])
                if a is not None and bool(a) == (op == "||"):
                    return op == "||"
                b = self.ev(kids(e)[1])
                if b is not None and bool(b) == (op == "||"):
                    return op == "||"
                if a is None or b is None:
                    return None
                return bool(b)
            r = self.arith(op, self.ev(kids(e)[0]), self.ev(kids(e)[1]), e)
            return self.unknown(e, self) if r is None and self.unknown else r
        if "callee" in e:
            name = e["callee"]["name"]
            args = [a for a in kids(e) if a is not None and a["k"] != "DefaultArg"]
            if name in ("min", "max") and len(args) == 2:
                a, b = self.ev(args[0]), self.ev(args[1])
                if a is None or b is None:
                    return None
                return min(a, b) if name == "min" else max(a, b)
            b = match.binop(e)
            if b and b[0] == "=" and e["k"] == "CXXOperatorCallExpr":
                v = self.ev(b[2])
                self.store(self.lvalue(b[1]), v)
                return v
            if b and e["k"] == "CXXOperatorCallExpr" and b[0] in ("+", "-", "<", ">", "<=", ">=", "==", "!="):
                r = self.arith(b[0], self.ev(b[1]), self.ev(b[2]), e)
                return self.unknown(e, self) if r is None and self.unknown else r
            ip = match.index_parts(e)
            if ip:
                key = self.lvalue(e)
                if key in self.env:
                    return self.env[key]
            for a in args:
                self.ev(a)
            return self.unknown(e, self) if self.unknown else None
        ip = match.index_parts(e)
        if ip:
            key = self.lvalue(e)
            if key in self.env:
                return self.env[key]
        return self.unknown(e, self) if self.unknown else None

    def arith(self, op, a, b, e):
        if a is None or b is None:
            return None
        if op == "+":
            return a + b
        if op == "-":
            return a - b
        if op == "*":
            return a * b
        if op in ("/", "%"):
            if b == 0:
                raise dtable.Undecidable("%s: division by zero in the skeleton at line %s" % (self.fn.full, e.get("l")))
            q = abs(a) // abs(b) * (1 if (a >= 0) == (b >= 0) else -1)
            return q if op == "/" else a - q * b
        if op == "<":
            return a < b
        if op == "<=":
            return a <= b
        if op == ">":
            return a > b
        if op == ">=":
            return a >= b
        if op == "==":
            return a == b
        if op == "!=":
            return a != b
        if op == ">>":
            return a >> b
        if op == "<<":
            return a << b
        return None

    def lvalue(self, e):
        e = strip_casts(e)
        while e is not None and e["k"] == "ParenExpr":
            e = strip_casts(kids(e)[0])
        d = ref_of(e)
        if d is not None:
            return d
        ip = match.index_parts(e)
        if ip:
            base = self.lvalue(ip[0])
            idx = self.ev(ip[1])
            if base is not None and idx is not None:
                return ("elem", base, idx)
        return None

    def load(self, key):
        if key is None:
            return None
        return self.env.get(key)

    def store(self, key, v):
        if key is not None:
            self.env[key] = v

    # ---------------------------------------------------------------- statements
    def run(self, stmts):
        """-> None (fell through) ; raises Return / Stop"""
        for s in stmts:
            self.stmt(s)

    def stmt(self, s):
        if s is None:
            return
        if self.stop is not None and self._holds_stop(s):
            raise Stop()
        k = s["k"]
        if k == "CompoundStmt":
            for x in kids(s):
                self.stmt(x)
            return
        if k == "NullStmt":
            return
        if k == "DeclStmt":
            for v in kids(s):
                if v["k"] != "VarDecl":
                    continue
                init = kids(v)[0] if kids(v) else None
                if (v.get("ty") or "").rstrip().endswith("&"):
                    continue
                self.env[v["did"]] = self.ev(init) if init is not None else None
            return
        if k == "IfStmt":
            c = self.ev(kids(s)[0])
            if c is None:
                raise dtable.Undecidable("%s: branch depends on data at line %s: %s" % (self.fn.full, s.get("l"), dtable.describe(kids(s)[0])[:60]))
            br = kids(s)[1] if c else (kids(s)[2] if len(kids(s)) > 2 else None)
            self.stmt(br)
            return
        if k in ("ForStmt", "WhileStmt", "DoStmt"):
            init, cond, inc, body = match.loop_parts(s)
            if init is not None:
                self.stmt(init)
            n = 0
            first = k == "DoStmt"
            while True:
                if not first:
                    c = self.ev(cond) if cond is not None else True
                    if c is None:
                        raise dtable.Undecidable("%s: loop bound depends on data at line %s: %s" % (self.fn.full, s.get("l"), dtable.describe(cond)[:60]))
                    if not c:
                        break
                first = False
                n += 1
                if n > self.MAX_ITER:
                    raise dtable.Undecidable("%s: loop at line %s does not end within %d rounds of the skeleton" % (self.fn.full, s.get("l"), self.MAX_ITER))
                try:
                    self.stmt(body)
                except _Break:
                    break
                except _Continue:
                    pass
                if inc is not None:
                    self.ev(inc)
            return
        if k == "ReturnStmt":
            raise Return(self.ev(kids(s)[0]) if kids(s) else None)
        if k == "BreakStmt":
            raise _Break()
        if k == "ContinueStmt":
            raise _Continue()
        if k in ("SwitchStmt", "GotoStmt", "CXXTryStmt", "LabelStmt", "CXXForRangeStmt"):
            raise dtable.Undecidable("%s: %s in the skeleton at line %s" % (self.fn.full, k, s.get("l")))
        self.ev(s)

    def _holds_stop(self, s):
        """the stop node is evaluated as part of s itself (not of a statement nested in s)"""
        sid = self.stop["id"]
        k = s["k"]
        if k == "CompoundStmt":
            return False
        if k == "IfStmt":
            return any(x["id"] == sid for x in walk(kids(s)[0]))
        if k in ("ForStmt", "WhileStmt", "DoStmt"):
            init, cond, inc, body = match.loop_parts(s)
            return any(x["id"] == sid for part in (init, cond, inc) if part is not None for x in walk(part))
        return any(x["id"] == sid for x in walk(s))
