"""Engine: evaluation of a function's integer control skeleton on one point of a small grid.

A rule fixes the few integers that steer a fragment (a thread count, a flag, a size), supplies `unknown(e, sk)` for the
quantities that are data (returns a value or None) and `event(node, sk)` to observe calls / subscripts, and lets the
skeleton run: declarations, assignments, ++/--, if, for/while with concrete bounds, min/max, casts, ternaries.  Values are
ints, bools or None (data).  A branch on a None value cannot be decided: Undecidable.  This is an exhaustive evaluation of
a loop-free or concretely bounded fragment over a finite grid, not a run of the program: no tlx code is executed.
"""
from . import match, dtable
from .ir import kids, strip_casts, const_int, ref_of, walk


class _Break(Exception):
    pass


class _Continue(Exception):
    pass


class Return(Exception):
    def __init__(self, v):
        self.v = v


class TooLong(dtable.Undecidable):
    """a loop of the skeleton did not end within the round limit"""
    loop = None


class Diverges(Exception):
    """a loop of the skeleton came back to its head in the state it had there before: it never ends"""
    def __init__(self, loop):
        self.loop = loop


class Stop(Exception):
    """raised when the statement holding the `stop` node is reached"""


class Skel:
    MAX_ITER = 64

    def __init__(self, fn, env=None, unknown=None, event=None, stop=None, mem_default=None, max_iter=None, tu=None):
        self.fn = fn
        self.env = dict(env or {})
        self.unknown = unknown
        self.event = event
        self.stop = stop
        self.mem_default = mem_default
        self.alg = None
        self.unknown_cond = None     # optional: decides a branch whose condition is data (a rule runs the skeleton once per choice)
        self.tu = tu if tu is not None else getattr(fn, "tu", None)
        self.alias = {}          # declaration id of a reference parameter / local -> key of the object it names
        self.depth = 0
        if max_iter:
            self.MAX_ITER = max_iter

    # ---------------------------------------------------------------- expressions
    def ev(self, e):
        e = match.strip_conv(e)
        if e is None:
            return None
        k = e["k"]
        if k in ("ParenExpr", "ExprWithCleanups", "MaterializeTemporaryExpr", "CXXBindTemporaryExpr", "CXXFunctionalCastExpr",
                 "CXXStaticCastExpr", "CStyleCastExpr", "ConstantExpr"):
            return self.ev(kids(e)[0])
        if k == "CXXBoolLiteralExpr":
            return bool(e.get("val"))
        v = const_int(e)
        if v is not None:
            return v
        if self.event is not None:
            r = self.event(e, self)
            if r is not NotImplemented:
                return r
        if k == "DeclRefExpr":
            d = e["ref"]["id"]
            if d in self.alias:
                return self.load(self.alias[d])
            if d in self.env:
                return self.env[d]
            return self.unknown(e, self) if self.unknown else None
        if k == "MemberExpr" and match.this_field(e):
            key = ("field", match.this_field(e))
            if key in self.env:
                return self.env[key]
            return self.unknown(e, self) if self.unknown else None
        if k == "UnaryOperator" and e.get("op") == "*":
            key = self.lvalue(e)
            if key is not None:
                return self.load(key)
            return self.unknown(e, self) if self.unknown else None
        if k == "UnaryOperator":
            op = e.get("op")
            if op in ("++", "--"):
                key = self.lvalue(kids(e)[0])
                old = self.load(key)
                new = None if old is None else old + (1 if op == "++" else -1)
                self.store(key, new)
                return old if e.get("postfix") else new
            if op == "&":
                key = self.lvalue(kids(e)[0])
                if key is not None:
                    return ("ptr", key)
                return self.unknown(e, self) if self.unknown else None
            a = self.ev(kids(e)[0])
            if op == "!":
                return None if not isinstance(a, (int, bool)) else not a
            if op == "-":
                return None if not isinstance(a, int) else -a
            if op == "~":
                return None if not isinstance(a, int) else ~a
            if op == "+":
                return a
            return self.unknown(e, self) if self.unknown else None
        if k == "ConditionalOperator":
            c = self.ev(kids(e)[0])
            if c is None:
                raise dtable.Undecidable("%s: condition depends on data at line %s: %s" % (self.fn.full, e.get("l"), dtable.describe(kids(e)[0])[:60]))
            return self.ev(kids(e)[1] if c else kids(e)[2])
        if k in ("BinaryOperator", "CompoundAssignOperator"):
            op = e["op"]
            if op == "=":
                v = self.ev(kids(e)[1])
                self.store(self.lvalue(kids(e)[0]), v)
                return v
            if op in ("+=", "-=", "*=", "/=", "%=", "|=", "&=", "^=", "<<=", ">>="):
                key = self.lvalue(kids(e)[0])
                v = self.arith(op[:-1], self.load(key), self.ev(kids(e)[1]), e)
                self.store(key, v)
                return v
            if op == ",":
                self.ev(kids(e)[0])
                return self.ev(kids(e)[1])
            if op in ("&&", "||"):
                a = self.ev(kids(e)[0])
                if a is not None and bool(a) == (op == "||"):
                    return op == "||"
                b = self.ev(kids(e)[1])
                if b is not None and bool(b) == (op == "||"):
                    return op == "||"
                if a is None or b is None:
                    return None
                return bool(b)
            r = self.arith(op, self.ev(kids(e)[0]), self.ev(kids(e)[1]), e)
            return self.unknown(e, self) if r is None and self.unknown else r
        if "callee" in e:
            name = e["callee"]["name"]
            args = [a for a in kids(e) if a is not None and a["k"] != "DefaultArg"]
            if name in ("min", "max") and len(args) == 2:
                a, b = self.ev(args[0]), self.ev(args[1])
                if a is None or b is None:
                    return None
                return min(a, b) if name == "min" else max(a, b)
            if e["k"] == "CXXOperatorCallExpr" and e.get("op") in ("++", "--") and args:
                key = self.lvalue(args[0])
                old = self.load(key)
                if isinstance(old, int) and not isinstance(old, bool):
                    new_ = old + (1 if e["op"] == "++" else -1)
                    self.store(key, new_)
                    return old if len(args) == 2 else new_
            if e["k"] == "CXXOperatorCallExpr" and e.get("op") in ("+=", "-=") and len(args) == 2:
                key = self.lvalue(args[0])
                old, d_ = self.load(key), self.ev(args[1])
                if isinstance(old, int) and isinstance(d_, int):
                    new_ = old + (d_ if e["op"] == "+=" else -d_)
                    self.store(key, new_)
                    return new_
            if e["k"] == "CXXOperatorCallExpr" and e.get("op") == "*" and len(args) == 1:
                a_ = self.ev(args[0])
                if isinstance(a_, int) and not isinstance(a_, bool):
                    return self.load(("mem", a_))
            b = match.binop(e)
            if b and b[0] == "=" and e["k"] == "CXXOperatorCallExpr":
                v = self.ev(b[2])
                self.store(self.lvalue(b[1]), v)
                return v
            if b and e["k"] == "CXXOperatorCallExpr" and b[0] in ("+", "-", "<", ">", "<=", ">=", "==", "!="):
                r = self.arith(b[0], self.ev(b[1]), self.ev(b[2]), e)
                return self.unknown(e, self) if r is None and self.unknown else r
            ip = match.index_parts(e)
            if ip:
                key = self.lvalue(e)
                if key is not None and (key in self.env or key[0] == "mem"):
                    return self.load(key)
            r = self.inline(e, args)
            if r is not NotImplemented:
                return r
            for a in args:
                self.ev(a)
            return self.unknown(e, self) if self.unknown else None
        ip = match.index_parts(e)
        if ip:
            key = self.lvalue(e)
            if key is not None and (key in self.env or key[0] == "mem"):
                return self.load(key)
        return self.unknown(e, self) if self.unknown else None

    def inline(self, e, args):
        """executes the body of a project function called here: free functions and members called on *this; reference
        parameters name the caller's objects, pointers to objects are followed"""
        if self.tu is None or self.depth >= 5:
            return NotImplemented
        callee = self.tu.by_did.get(e["callee"].get("did"))
        if callee is None or callee.body is None or callee.did == self.fn.did or callee.kind in ("ctor", "dtor", "lambda"):
            return NotImplemented
        actual = args
        if e.get("member_call"):
            if not args or strip_casts(args[0])["k"] != "This":
                return NotImplemented
            actual = args[1:]
        if e["k"] == "CXXOperatorCallExpr" or len(actual) != len(callee.params):
            return NotImplemented
        saved_alias = dict(self.alias)
        for p, a in zip(callee.params, actual):
            ty = (p.get("ty") or "").rstrip()
            if ty.endswith("&") and not ty.endswith("&&") and "const" not in ty.split("<")[0]:
                key = self.lvalue(a)
                if key is None:
                    self.alias = saved_alias
                    return NotImplemented
                self.alias[p["did"]] = key
            elif ty.endswith("&") and self.lvalue(a) is not None:
                self.alias[p["did"]] = self.lvalue(a)      # const reference / forwarding reference to a named object
            else:
                self.env[p["did"]] = self.ev(a)
        self.depth += 1
        saved_fn = self.fn
        self.fn = callee
        try:
            self.run(kids(callee.body))
            ret = None
        except Return as r_:
            ret = r_.v
        finally:
            self.fn = saved_fn
            self.depth -= 1
            self.alias = saved_alias
        return ret

    def arith(self, op, a, b, e):
        if a is None or b is None:
            return None
        if self.alg is not None and (not isinstance(a, (int, bool)) or not isinstance(b, (int, bool))):
            r = self.alg(op, a, b, e)
            if r is not NotImplemented:
                return r
        if not isinstance(a, (int, bool)) or not isinstance(b, (int, bool)):
            if op in ("==", "!="):
                return (a == b) if op == "==" else (a != b)
            return None          # labels do not take part in arithmetic
        if op == "+":
            return a + b
        if op == "-":
            return a - b
        if op == "*":
            return a * b
        if op in ("/", "%"):
            if b == 0:
                raise dtable.Undecidable("%s: division by zero in the skeleton at line %s" % (self.fn.full, e.get("l")))
            q = abs(a) // abs(b) * (1 if (a >= 0) == (b >= 0) else -1)
            return q if op == "/" else a - q * b
        if op == "<":
            return a < b
        if op == "<=":
            return a <= b
        if op == ">":
            return a > b
        if op == ">=":
            return a >= b
        if op == "==":
            return a == b
        if op == "!=":
            return a != b
        if op == ">>":
            return a >> b
        if op == "<<":
            return a << b
        if op == "&":
            return a & b
        if op == "|":
            return a | b
        if op == "^":
            return a ^ b
        return None

    def lvalue(self, e):
        e = strip_casts(e)
        while e is not None and e["k"] == "ParenExpr":
            e = strip_casts(kids(e)[0])
        d = ref_of(e)
        if d is not None:
            return self.alias.get(d, d)
        if e is not None and e["k"] == "MemberExpr" and match.this_field(e):
            return ("field", match.this_field(e))
        if e is not None and e["k"] == "UnaryOperator" and e.get("op") == "*":
            a = self.ev(kids(e)[0])
            if isinstance(a, tuple) and len(a) == 2 and a[0] == "ptr":
                return a[1]
            return ("mem", a) if isinstance(a, int) else None
        if e is not None and e["k"] == "CXXOperatorCallExpr" and e.get("op") == "*" and len(kids(e)) == 1:
            a = self.ev(kids(e)[0])
            if isinstance(a, tuple) and len(a) == 2 and a[0] == "ptr":
                return a[1]
            return ("mem", a) if isinstance(a, int) and not isinstance(a, bool) else None
        ip = match.index_parts(e)
        if ip:
            bty = (strip_casts(ip[0]).get("ty") or "").rstrip()
            idx = self.ev(ip[1])
            if bty.endswith("*") or bty.endswith("]"):
                a = self.ev(ip[0])
                return ("mem", a + idx) if isinstance(a, int) and isinstance(idx, int) else None
            base = self.lvalue(ip[0])
            if base is not None and idx is not None:
                return ("elem", base, idx)
        return None

    def load(self, key):
        if key is None:
            return None
        if key in self.env:
            return self.env[key]
        if isinstance(key, tuple) and key[0] == "mem" and self.mem_default is not None:
            return self.mem_default(key[1])
        return None

    def store(self, key, v):
        if key is not None:
            self.env[key] = v

    # ---------------------------------------------------------------- statements
    def run(self, stmts):
        """-> None (fell through) ; raises Return / Stop"""
        for s in stmts:
            self.stmt(s)

    def stmt(self, s):
        if s is None:
            return
        if self.stop is not None and self._holds_stop(s):
            raise Stop()
        k = s["k"]
        if k == "CompoundStmt":
            for x in kids(s):
                self.stmt(x)
            return
        if k == "NullStmt":
            return
        if k == "DeclStmt":
            for v in kids(s):
                if v["k"] != "VarDecl":
                    continue
                init = kids(v)[0] if kids(v) else None
                if (v.get("ty") or "").rstrip().endswith("&"):
                    key = self.lvalue(init) if init is not None else None
                    if key is not None:
                        self.alias[v["did"]] = key          # a reference local names the object
                    elif init is not None:
                        self.env[v["did"]] = self.ev(init)  # const reference: its value at the declaration
                    continue
                self.env[v["did"]] = self.ev(init) if init is not None else None
            return
        if k == "IfStmt":
            c = self.ev(kids(s)[0])
            if c is None and self.unknown_cond is not None:
                c = self.unknown_cond(kids(s)[0], self)
            if c is None:
                raise dtable.Undecidable("%s: branch depends on data at line %s: %s" % (self.fn.full, s.get("l"), dtable.describe(kids(s)[0])[:60]))
            br = kids(s)[1] if c else (kids(s)[2] if len(kids(s)) > 2 else None)
            self.stmt(br)
            return
        if k in ("ForStmt", "WhileStmt", "DoStmt"):
            init, cond, inc, body = match.loop_parts(s)
            if init is not None:
                self.stmt(init)
            n = 0
            first = k == "DoStmt"
            seen = set()
            while True:
                try:
                    snap = frozenset(self.env.items())
                    if snap in seen:
                        raise Diverges(s)
                    seen.add(snap)
                except TypeError:
                    pass
                if not first:
                    c = self.ev(cond) if cond is not None else True
                    if c is None:
                        raise dtable.Undecidable("%s: loop bound depends on data at line %s: %s" % (self.fn.full, s.get("l"), dtable.describe(cond)[:60]))
                    if not c:
                        break
                first = False
                n += 1
                if n > self.MAX_ITER:
                    ex = TooLong("%s: loop at line %s does not end within %d rounds of the skeleton" % (self.fn.full, s.get("l"), self.MAX_ITER))
                    ex.loop = s
                    raise ex
                try:
                    self.stmt(body)
                except _Break:
                    break
                except _Continue:
                    pass
                if inc is not None:
                    self.ev(inc)
            return
        if k == "ReturnStmt":
            raise Return(self.ev(kids(s)[0]) if kids(s) else None)
        if k == "BreakStmt":
            raise _Break()
        if k == "ContinueStmt":
            raise _Continue()
        if k == "SwitchStmt":
            c = self.ev(kids(s)[0])
            if not isinstance(c, int):
                raise dtable.Undecidable("%s: switch on data at line %s" % (self.fn.full, s.get("l")))
            flat = []

            def add(x):
                if x is None:
                    return
                if x["k"] == "CaseStmt":
                    flat.append(("case", x.get("val")))
                    add(kids(x)[0])
                elif x["k"] == "DefaultStmt":
                    flat.append(("default", None))
                    add(kids(x)[0])
                else:
                    flat.append(("stmt", x))
            body = kids(s)[1]
            for x in (kids(body) if body["k"] == "CompoundStmt" else [body]):
                add(x)
            start = next((i for i, f in enumerate(flat) if f[0] == "case" and f[1] == c), None)
            if start is None:
                start = next((i for i, f in enumerate(flat) if f[0] == "default"), None)
            if start is None:
                return
            try:
                for f in flat[start:]:
                    if f[0] == "stmt":
                        self.stmt(f[1])
            except _Break:
                pass
            return
        if k == "AttributedStmt":
            for x in kids(s):
                self.stmt(x)
            return
        if k in ("GotoStmt", "CXXTryStmt", "LabelStmt", "CXXForRangeStmt"):
            raise dtable.Undecidable("%s: %s in the skeleton at line %s" % (self.fn.full, k, s.get("l")))
        self.ev(s)

    def _holds_stop(self, s):
        """the stop node is evaluated as part of s itself (not of a statement nested in s)"""
        sid = self.stop["id"]
        k = s["k"]
        if k == "CompoundStmt":
            return False
        if k == "IfStmt":
            return any(x["id"] == sid for x in walk(kids(s)[0]))
        if k in ("ForStmt", "WhileStmt", "DoStmt"):
            init, cond, inc, body = match.loop_parts(s)
            return any(x["id"] == sid for part in (init, cond, inc) if part is not None for x in walk(part))
        return any(x["id"] == sid for x in walk(s))
