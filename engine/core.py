"""Check context: records rule instances, violations, known findings, evidence."""
import json
import os
import re
import sys
import time

from . import ir

VERIF = ir.VERIF
OUTBASE = os.environ.get("VERIF_OUT", VERIF)
KNOWN = os.path.join(VERIF, "known_findings.txt")


def load_known():
    """known: property=Cxx rule=R fn=QNAME sig=SIG :: text
       fixed: property=Cxx <commit> <text>      (suppresses nothing)"""
    out = []
    if not os.path.exists(KNOWN):
        return out
    for line in open(KNOWN):
        line = line.strip()
        if not line or line.startswith("#"):
            continue
        if not line.startswith("known:"):
            continue
        m = re.match(r"known:\s+property=(\S+)\s+rule=(\S+)\s+fn=(\S+)\s+sig=(\S+)\s*::\s*(.*)$", line)
        if m:
            out.append(dict(pid=m.group(1), rule=m.group(2), fn=m.group(3),
                            sig=m.group(4), text=m.group(5)))
    return out


class Check:
    def __init__(self, pid, tier="quick", level="other", only=None):
        self.pid = pid
        self.tier = tier
        self.level = level
        self.only = only  # replay filter: (rule, fn, sig)
        self.t0 = time.time()
        self.instances = []     # (rule, where, ok, detail)
        self.violations = []
        self.known_hits = []
        self.rule_counts = {}
        self.nontrivial = set()
        self.samples = []
        self.states = 0
        self.notes = []
        self.assumptions = []
        self.trusted = []
        self.floors = {}
        self.known = [k for k in load_known() if k["pid"] == pid]
        self.explanation = ""
        self.deferred = []      # analysis failures of one rule that must not hide violations found by others

    # -- recording ---------------------------------------------------------
    def ok(self, rule, where, detail="", nontrivial=True, sample=None):
        self.instances.append((rule, where, True, detail))
        self.rule_counts[rule] = self.rule_counts.get(rule, 0) + 1
        if nontrivial:
            self.nontrivial.add((rule, where, detail[:80]))
        if sample is not None and len(self.samples) < 12:
            self.samples.append(sample)
        if os.environ.get("VERIF_VERBOSE"):
            print("  ok   %-22s %s %s" % (rule, where, detail))

    def violation(self, rule, fn, sig, msg, loc=""):
        """fn: qualified function name; sig: normalised construct signature"""
        sig = re.sub(r"\s+", "_", sig)
        self.rule_counts[rule] = self.rule_counts.get(rule, 0) + 1
        self.instances.append((rule, fn, False, msg))
        if self.only and (rule, fn, sig) != self.only:
            return
        for k in self.known:
            if k["rule"] == rule and k["fn"] == fn and k["sig"] == sig:
                self.known_hits.append((k, msg, loc))
                return
        self.violations.append(dict(property=self.pid, rule=rule, fn=fn, sig=sig,
                                    msg=msg, loc=loc))

    def floor(self, rule, n):
        """minimum number of instances confirmed by hand for a rule"""
        self.floors[rule] = n

    def guarded(self, thunk):
        """run one rule; if it cannot analyse its construct, remember that (exit 2 unless a violation is reported anyway)"""
        try:
            thunk()
        except ir.AnalysisBroken as e:
            self.deferred.append(str(e))
        except (Exception, RecursionError) as e:     # a bug in a rule is "cannot decide", never a verdict
            import traceback
            tb = traceback.extract_tb(e.__traceback__)[-1]
            self.deferred.append("internal error in rule code (%s:%d): %s: %s" % (os.path.basename(tb.filename), tb.lineno, type(e).__name__, e))

    def require(self, cond, msg):
        if not cond:
            raise ir.AnalysisBroken(msg)

    # -- finishing ---------------------------------------------------------
    def finish(self):
        wall = time.time() - self.t0
        if self.deferred and not self.violations and not self.known_hits:
            raise ir.AnalysisBroken(self.deferred[0])
        for rule, n in ([] if self.violations or self.known_hits else self.floors.items()):
            got = self.rule_counts.get(rule, 0)
            if got < n:
                raise ir.AnalysisBroken(
                    "rule %s matched %d instances, floor confirmed by hand is %d "
                    "(anchor vanished or witness no longer reaches it)" % (rule, got, n))
        outdir = os.path.join(OUTBASE, "out", self.pid)
        os.makedirs(outdir, exist_ok=True)
        for f in os.listdir(outdir):
            if f.endswith(".json"):
                os.unlink(os.path.join(outdir, f))
        for k, msg, loc in self.known_hits:
            print("KNOWN-FINDING: property=%s %s [%s %s] %s" % (self.pid, k["text"], k["rule"], k["fn"], loc))
        for i, v in enumerate(self.violations):
            path = os.path.join(outdir, "%d.json" % i)
            with open(path, "w") as f:
                json.dump(v, f, indent=1)
            print("%s: rule %s violated in %s: %s" % (v["loc"], v["rule"], v["fn"], v["msg"]))
            print("VIOLATION property=%s replay=%s" % (self.pid, path))
        st = ir.stats()
        n_inst = len(self.instances)
        cov = {
            "evaluations": n_inst,
            "distinct_nontrivial": len(self.nontrivial),
            "rule": "one evaluation per rule instance (function / call site / table row / path set) "
                    "found in the IR of the current /repo tree; non-trivial = the instance had real "
                    "content to decide (atoms, paths, comparators, effects), distinct by (rule, site, detail)",
            "samples": self.samples or [dict(rule=r, where=w, ok=o, detail=d) for r, w, o, d in self.instances[:6]],
            "explanation": self.explanation,
            "rule_instances": dict(sorted(self.rule_counts.items())),
            "translation_units": st["tus"],
            "functions_analysed": st["functions"],
            "ast_nodes": st["nodes"],
            "sources": st["files"],
            "states": self.states,
            "obligations": n_inst,
            "discharged": sum(1 for i in self.instances if i[2]),
            "checker_cmd": "./check %s --tier %s" % (self.pid, self.tier),
            "trusted_base": self.trusted or [
                "clang 14 front end (AST, template instantiation, CFG builder)",
                "tools/tlxir.cc serialisation", "engine/*.py and rules/%s.py" % self.pid.lower()],
            "known_findings_reported": len(self.known_hits),
            "notes": self.notes,
        }
        ev = {
            "property_id": self.pid,
            "tier": self.tier,
            "seed": int(os.environ.get("VERIF_SEED", "0") or 0),
            "level": self.level,
            "coverage": cov,
            "assumptions": self.assumptions,
            "wall_s": round(wall, 3),
            "violations": len(self.violations),
        }
        os.makedirs(os.path.join(OUTBASE, "evidence"), exist_ok=True)
        with open(os.path.join(OUTBASE, "evidence", self.pid + ".json"), "w") as f:
            json.dump(ev, f, indent=1)
        print("%s: %d rule instances over %d functions in %d TUs, %d violations, %d known findings, %.1fs"
              % (self.pid, n_inst, st["functions"], st["tus"], len(self.violations),
                 len(self.known_hits), wall))
        return 1 if self.violations else 0
