"""Engine B: synchronisation skeleton.

LockFlow: forward dataflow over the clang CFG computing, for every CFG element, whether a
given mutex is held (True), not held (False) or either (None).  Understands RAII guards
(unique_lock / lock_guard / scoped_lock, incl. their implicit destructors in the CFG),
explicit lock()/unlock() on the guard or the mutex, and condition_variable::wait (held
before and after).
"""
from . import match
from .cfg import CFG
from .ir import kids, strip_casts, ref_of, walk, AnalysisBroken

GUARDS = ("std::unique_lock<", "std::lock_guard<", "std::scoped_lock<")


def is_mutex_expr(e, mutex):
    """mutex: field name of *this, or a callable predicate on the expression"""
    if callable(mutex):
        return mutex(e)
    return match.this_field(e) == mutex


class LockFlow:
    def __init__(self, fn, mutex, entry_held=False):
        self.fn = fn
        self.g = CFG(fn)
        self.mutex = mutex
        self.guards = {}          # decl id of guard variable -> initially held?
        for x in fn.nodes():
            if x["k"] == "VarDecl" and any(x.get("ty", "").startswith(p) for p in GUARDS) and kids(x):
                ctor = strip_casts(kids(x)[0])
                args = kids(ctor) if ctor["k"] in ("CXXConstructExpr", "CXXTemporaryObjectExpr") else []
                if args and is_mutex_expr(args[0], mutex):
                    deferred = any("defer_lock" in (a.get("ty") or "") for a in args[1:])
                    self.guards[x["did"]] = not deferred
        self.decl_at = {}         # DeclStmt node id -> [guard dids]
        for x in fn.nodes():
            if x["k"] == "DeclStmt":
                ds = [v["did"] for v in kids(x) if v["k"] == "VarDecl" and v["did"] in self.guards]
                if ds:
                    self.decl_at[x["id"]] = ds
        self.state = {}           # (block, idx) -> frozenset of {True, False} BEFORE the element
        self.after = {}
        self._run(entry_held)

    def _effect(self, el, st):
        """st: frozenset of possible values -> new frozenset"""
        if isinstance(el, dict):
            if "dtor" in el and el["dtor"] in self.guards:
                return frozenset([False])
            return st
        n = self.fn.byid(el)
        if n is None:
            return st
        if n["k"] == "DeclStmt" and n["id"] in self.decl_at:
            held = any(self.guards[d] for d in self.decl_at[n["id"]])
            return frozenset([True]) if held else st
        if "callee" in n and n.get("member_call") and kids(n):
            name = n["callee"]["name"]
            obj = kids(n)[0]
            if name in ("lock", "unlock", "try_lock"):
                if ref_of(obj) in self.guards or is_mutex_expr(obj, self.mutex):
                    if name == "lock":
                        return frozenset([True])
                    if name == "unlock":
                        return frozenset([False])
                    return frozenset([True, False])
        return st

    def _run(self, entry_held):
        g = self.g
        inn = {b: frozenset() for b in g.blocks}
        inn[g.entry] = frozenset([entry_held])
        work = [g.entry]
        out = {}
        iters = 0
        while work:
            iters += 1
            if iters > 100000:
                raise AnalysisBroken("lock dataflow does not converge in %s" % self.fn.full)
            b = work.pop()
            st = inn[b]
            for i, el in enumerate(g.elements(b)):
                self.state[(b, i)] = self.state.get((b, i), frozenset()) | st
                st = self._effect(el, st)
                self.after[(b, i)] = self.after.get((b, i), frozenset()) | st
            if out.get(b) == st and b in out:
                continue
            out[b] = st
            for s in g.succ[b]:
                new = inn[s] | st
                if new != inn[s]:
                    inn[s] = new
                    work.append(s)
                elif s not in out:
                    work.append(s)
        self.block_out = out

    def held_at(self, node):
        """True / False / None (may be either) just before the node is evaluated; None if not in CFG"""
        p = self.g.pos_deep(node)
        if p is None:
            return "?"
        st = self.state.get(p)
        if not st:
            return "?"
        if st == frozenset([True]):
            return True
        if st == frozenset([False]):
            return False
        return None

    def held_at_pos(self, p):
        st = self.state.get(p)
        if not st:
            return "?"
        return True if st == frozenset([True]) else False if st == frozenset([False]) else None


def wait_calls(fn, cv_field=None):
    """condition_variable waits in fn: list of dict(node, cv, pred_lambda_node | None)"""
    out = []
    for x in fn.nodes():
        if "callee" in x and x.get("member_call") and x["callee"]["name"] in ("wait", "wait_for", "wait_until") and \
                "condition_variable" in (x["callee"].get("record") or ""):
            cv = match.this_field(kids(x)[0])
            if cv_field is not None and cv != cv_field:
                continue
            lamn = None
            for a in kids(x)[1:]:
                for y in walk(a):
                    if y["k"] == "LambdaExpr":
                        lamn = y
                # a named predicate: `auto pred = [..]{..}; cv.wait(lock, pred);`
                d = ref_of(a)
                if lamn is None and d is not None:
                    for v in fn.nodes():
                        if v["k"] == "VarDecl" and v.get("did") == d and kids(v):
                            for y in walk(kids(v)[0]):
                                if y["k"] == "LambdaExpr":
                                    lamn = y
            # the re-check loop form: while (!pred) cv.wait(lock);
            loop_cond = None
            if lamn is None:
                par = fn.parent(x)
                while par is not None and par["k"] in ("CompoundStmt", "ExprWithCleanups"):
                    par = fn.parent(par)
                if par is not None and par["k"] == "WhileStmt":
                    body = kids(par)[1]
                    stmts = kids(body) if body is not None and body["k"] == "CompoundStmt" else [body]
                    if len([q for q in stmts if q is not None]) == 1:
                        loop_cond = kids(par)[0]
            out.append(dict(node=x, cv=cv, pred=lamn, loop_cond=loop_cond))
    return out


def notify_calls(fn):
    out = []
    for x in fn.nodes():
        if "callee" in x and x.get("member_call") and x["callee"]["name"] in ("notify_one", "notify_all") and \
                "condition_variable" in (x["callee"].get("record") or ""):
            out.append(dict(node=x, cv=match.this_field(kids(x)[0]), kind=x["callee"]["name"]))
    return out


def fields_read(fn_or_node, fn=None):
    """names of this-> fields mentioned in a node / function body"""
    out = set()
    it = fn_or_node.nodes() if hasattr(fn_or_node, "nodes") else walk(fn_or_node)
    for y in it:
        if y["k"] == "MemberExpr":
            f = match.this_field(y)
            if f:
                out.add(f)
    return out
