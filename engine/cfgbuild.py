"""Engine: a control-flow graph built from the (rewritten) statement tree, in the format the extractor emits for clang's CFG.

Used only for functions whose body was rewritten by engine/normalize.py (a helper inlined, a local substituted): clang's
own CFG no longer matches such a body.  Elements are all sub-expressions in post-order (like clang with
setAllAlwaysAdd); && / || / ?: in conditions split blocks with the operator as terminator; RAII lock guards get an
implicit-destructor element {"dtor": did} wherever their scope is left.  Unsupported statements raise Unsupported: the
function then keeps its original body and clang CFG."""
from .ir import kids

GUARD_TYPES = ("std::unique_lock<", "std::lock_guard<", "std::scoped_lock<")


SCALARS = ("bool", "char", "short", "int", "long", "unsigned", "signed", "float", "double", "size_t", "std::size_t", "uint", "int8", "int16",
           "int32", "int64", "std::uint", "std::int", "std::ptrdiff_t", "ptrdiff_t", "wchar_t", "__")


def has_dtor(ty):
    """a local of class type gets an implicit-destructor element where its scope ends (clang does so for non-trivial
    destructors; an extra element for a trivial one is harmless)"""
    t = (ty or "").replace("const ", "").replace("volatile ", "").strip()
    if not t or t.endswith("&") or t.endswith("*") or t.endswith("]") or "(*" in t:
        return False
    if t.startswith(SCALARS) and "::" not in t.split("<")[0].replace("std::", ""):
        return False
    return True


class Unsupported(Exception):
    pass


class Builder:
    def __init__(self):
        self.blocks = []
        self.exit = self.new()
        self.scopes = []          # list of [guard dids] per open compound
        self.loops = []           # (break target, continue target, scope depth)

    def new(self):
        b = {"id": len(self.blocks), "el": [], "succ": []}
        self.blocks.append(b)
        return b

    # ---------------------------------------------------------------- expressions
    def emit(self, e, cur):
        if e is None:
            return cur
        k = e["k"]
        if k == "LambdaExpr":
            cur["el"].append(e["id"])
            return cur
        if k == "BinaryOperator" and e.get("op") in ("&&", "||"):
            rhs_b, join = self.new(), self.new()
            if e["op"] == "&&":
                self.cond(kids(e)[0], cur, rhs_b, join, e["id"], "BinaryOperator")
            else:
                self.cond(kids(e)[0], cur, join, rhs_b, e["id"], "BinaryOperator")
            r_end = self.emit(kids(e)[1], rhs_b)
            r_end["succ"] = [join["id"]]
            join["el"].append(e["id"])
            return join
        if k == "ConditionalOperator":
            tb, fb, join = self.new(), self.new(), self.new()
            self.cond(kids(e)[0], cur, tb, fb, e["id"], "ConditionalOperator")
            t_end = self.emit(kids(e)[1], tb)
            f_end = self.emit(kids(e)[2], fb)
            t_end["succ"] = [join["id"]]
            f_end["succ"] = [join["id"]]
            join["el"].append(e["id"])
            return join
        ch = [c for c in kids(e) if c is not None and isinstance(c, dict)]
        if k == "BinaryOperator" and len(ch) == 2 and e.get("op") == "=":
            ch = [ch[1], ch[0]]          # clang evaluates the right operand of an assignment first
        for c in ch:
            cur = self.emit(c, cur)
        cur["el"].append(e["id"])
        if "callee" in e and e["callee"].get("noreturn"):
            cur["noreturn"] = True
            cur["succ"] = []
            return self.new()
        return cur

    def cond(self, e, cur, tb, fb, term, termk):
        """evaluates e in block cur and branches to tb / fb"""
        if e is None:
            cur["succ"] = [tb["id"]]
            return
        if e["k"] == "BinaryOperator" and e.get("op") in ("&&", "||"):
            mid = self.new()
            if e["op"] == "&&":
                self.cond(kids(e)[0], cur, mid, fb, e["id"], "BinaryOperator")
            else:
                self.cond(kids(e)[0], cur, tb, mid, e["id"], "BinaryOperator")
            self.cond(kids(e)[1], mid, tb, fb, term, termk)
            return
        if e["k"] == "ParenExpr" and kids(e) and kids(e)[0] is not None and kids(e)[0]["k"] == "BinaryOperator" and \
                kids(e)[0].get("op") in ("&&", "||"):
            self.cond(kids(e)[0], cur, tb, fb, term, termk)
            return
        end = self.emit(e, cur)
        end["term"], end["termk"], end["cond"] = term, termk, e["id"]
        end["succ"] = [tb["id"], fb["id"]]

    # ---------------------------------------------------------------- statements
    def dtors(self, cur, down_to):
        for sc in reversed(self.scopes[down_to:]):
            for d in reversed(sc):
                cur["el"].append({"dtor": d})

    def stmt(self, s, cur):
        if s is None:
            return cur
        k = s["k"]
        if k == "CompoundStmt":
            self.scopes.append([])
            for c in kids(s):
                cur = self.stmt(c, cur)
            self.dtors(cur, len(self.scopes) - 1)
            self.scopes.pop()
            return cur
        if k in ("NullStmt",):
            return cur
        if k == "AttributedStmt":
            for c in kids(s):
                cur = self.stmt(c, cur)
            return cur
        if k == "DeclStmt":
            for v in kids(s):
                if v is None:
                    continue
                for c in kids(v):
                    cur = self.emit(c, cur)
                if v["k"] == "VarDecl":
                    cur["el"].append(v["id"])
                    if self.scopes and has_dtor(v.get("ty")):
                        self.scopes[-1].append(v["did"])
            cur["el"].append(s["id"])
            return cur
        if k == "IfStmt":
            if "init" in s and isinstance(s["init"], dict):
                cur = self.stmt(s["init"], cur)
            c, t, e = (kids(s) + [None, None])[:3]
            tb, fb, join = self.new(), self.new(), self.new()
            self.cond(c, cur, tb, fb, s["id"], "IfStmt")
            t_end = self.stmt(t, tb)
            f_end = self.stmt(e, fb)
            t_end["succ"] = t_end["succ"] or [join["id"]]
            f_end["succ"] = f_end["succ"] or [join["id"]]
            return join
        if k in ("WhileStmt", "ForStmt"):
            if k == "ForStmt":
                init, c, inc, body = kids(s)[0], kids(s)[1], kids(s)[2], kids(s)[3]
                self.scopes.append([])
                cur = self.stmt(init, cur) if init is not None and init["k"] in ("DeclStmt",) else self.emit(init, cur)
            else:
                c, body, inc = kids(s)[0], kids(s)[1], None
            head, bodyb, exitb = self.new(), self.new(), self.new()
            cur["succ"] = [head["id"]]
            if c is None:
                head["succ"] = [bodyb["id"]]
            else:
                self.cond(c, head, bodyb, exitb, s["id"], k)
            incb = self.new() if inc is not None else head
            self.loops.append((exitb, incb, len(self.scopes)))
            b_end = self.stmt(body, bodyb)
            self.loops.pop()
            b_end["succ"] = b_end["succ"] or [incb["id"]]
            if inc is not None:
                i_end = self.emit(inc, incb)
                i_end["succ"] = [head["id"]]
            if k == "ForStmt":
                self.scopes.pop()
            return exitb
        if k == "DoStmt":
            body, c = kids(s)[0], kids(s)[1]
            bodyb, condb, exitb = self.new(), self.new(), self.new()
            cur["succ"] = [bodyb["id"]]
            self.loops.append((exitb, condb, len(self.scopes)))
            b_end = self.stmt(body, bodyb)
            self.loops.pop()
            b_end["succ"] = b_end["succ"] or [condb["id"]]
            self.cond(c, condb, bodyb, exitb, s["id"], "DoStmt")
            return exitb
        if k == "SwitchStmt":
            c, body = kids(s)[0], kids(s)[1]
            cur = self.emit(c, cur)
            cur["term"], cur["termk"], cur["cond"] = s["id"], "SwitchStmt", c["id"]
            exitb = self.new()
            head = cur
            head["succ"] = []
            self.loops.append((exitb, self.loops[-1][1] if self.loops else None, len(self.scopes)))
            run = self.new()           # unreachable until a label opens it
            has_default = False
            flat = []

            def add(x):
                if x is None:
                    return
                if x["k"] in ("CaseStmt", "DefaultStmt"):
                    flat.append(("label", x))
                    add(kids(x)[-1] if kids(x) else None)
                else:
                    flat.append(("stmt", x))
            for x in (kids(body) if body is not None and body["k"] == "CompoundStmt" else [body]):
                add(x)
            for kind, x in flat:
                if kind == "label":
                    nb = self.new()
                    run["succ"] = run["succ"] or [nb["id"]]
                    head["succ"].append(nb["id"])
                    has_default = has_default or x["k"] == "DefaultStmt"
                    run = nb
                else:
                    run = self.stmt(x, run)
            run["succ"] = run["succ"] or [exitb["id"]]
            if not has_default:
                head["succ"].append(exitb["id"])
            self.loops.pop()
            return exitb
        if k == "ReturnStmt":
            for c in kids(s):
                cur = self.emit(c, cur)
            cur["el"].append(s["id"])
            self.dtors(cur, 0)
            cur["succ"] = [self.exit["id"]]
            return self.new()
        if k == "BreakStmt":
            if not self.loops:
                raise Unsupported("break outside a loop")
            tgt, _, depth = self.loops[-1]
            self.dtors(cur, depth)
            cur["succ"] = [tgt["id"]]
            return self.new()
        if k == "ContinueStmt":
            if not self.loops or self.loops[-1][1] is None:
                raise Unsupported("continue outside a loop")
            _, tgt, depth = self.loops[-1]
            self.dtors(cur, depth)
            cur["succ"] = [tgt["id"]]
            return self.new()
        if k == "CXXTryStmt":
            # like clang without exception edges: the handlers hang off a block of their own that nothing reaches
            join = self.new()
            t_end = self.stmt(kids(s)[0], cur)
            t_end["succ"] = t_end["succ"] or [join["id"]]
            for h in kids(s)[1:]:
                if h is None:
                    continue
                hb = self.new()
                body = [c for c in kids(h) if c is not None and c["k"] == "CompoundStmt"]
                h_end = self.stmt(body[-1], hb) if body else hb
                h_end["succ"] = h_end["succ"] or [join["id"]]
            return join
        if k in ("GotoStmt", "LabelStmt", "CXXForRangeStmt", "CXXCatchStmt", "IndirectGotoStmt", "CaseStmt", "DefaultStmt"):
            raise Unsupported(k)
        if k == "CXXThrowExpr":
            cur = self.emit(s, cur)
            cur["succ"] = [self.exit["id"]]
            return self.new()
        return self.emit(s, cur)


def build(body):
    """-> cfg dict {"blocks", "entry", "exit"} for a function body"""
    b = Builder()
    entry = b.new()
    first = b.new()
    entry["succ"] = [first["id"]]
    end = b.stmt(body, first)
    end["succ"] = end["succ"] or [b.exit["id"]]
    return {"blocks": b.blocks, "entry": entry["id"], "exit": b.exit["id"]}
