"""Forward interval analysis of unsigned local integer variables over the clang CFG, with branch
refinement on comparisons against constants and widening to the constants that occur in the function.
Used for index-bound rules on fixed-size arrays."""
from .ir import kids, walk, strip_casts, const_int, ref_of
from . import match

INF = float("inf")


def join(a, b):
    if a is None:
        return b
    if b is None:
        return a
    out = {}
    for k in set(a) | set(b):
        x, y = a.get(k), b.get(k)
        if x is None or y is None:
            continue            # unknown in one branch -> unknown
        out[k] = (min(x[0], y[0]), max(x[1], y[1]))
    return out


class Intervals:
    def __init__(self, fn, g):
        self.fn = fn
        self.g = g
        self.thresholds = sorted({const_int(n) for n in fn.nodes() if const_int(n) is not None and const_int(n) >= 0} | {0})
        self.vars = set()
        for n in fn.nodes():
            if n["k"] == "VarDecl" and self._is_uint(n.get("ty")):
                self.vars.add(n["did"])
        for p in fn.params:
            if self._is_uint(p.get("ty")):
                self.vars.add(p["did"])
        self.in_state = {}
        self.at_elem = {}
        self.heads = self._loop_heads()
        self._run()

    def _loop_heads(self):
        """targets of back edges (depth-first search from the entry)"""
        g = self.g
        heads = set()
        color = {}
        stack = [(g.entry, iter(g.succ[g.entry]))]
        color[g.entry] = 1
        while stack:
            b, it = stack[-1]
            nxt = next(it, None)
            if nxt is None:
                color[b] = 2
                stack.pop()
                continue
            if color.get(nxt) == 1:
                heads.add(nxt)
            elif color.get(nxt) is None:
                color[nxt] = 1
                stack.append((nxt, iter(g.succ[nxt])))
        return heads

    @staticmethod
    def _is_uint(ty):
        ty = (ty or "").replace("const ", "").strip()
        return ty in ("unsigned long", "unsigned int", "unsigned short", "unsigned char", "size_t", "unsigned long long")

    # ---- expression evaluation -------------------------------------------------
    def ev(self, e, st):
        e0 = e
        e = strip_casts(e)
        c = const_int(e)
        if c is not None:
            return (c, c)
        if e["k"] == "ParenExpr":
            return self.ev(kids(e)[0], st)
        # a conversion to a narrow unsigned type bounds the value
        r = None
        if e["k"] == "DeclRefExpr" and e["ref"]["id"] in st:
            r = st[e["ref"]["id"]]
        elif e["k"] == "BinaryOperator" and e.get("op") in ("+", "-"):
            a, b = self.ev(kids(e)[0], st), self.ev(kids(e)[1], st)
            if a is not None and b is not None:
                if e["op"] == "+":
                    r = (a[0] + b[0], a[1] + b[1])
                else:
                    lo = a[0] - b[1]
                    r = (max(lo, 0) if lo != -INF else 0, a[1] - b[0]) if a[0] - b[1] >= 0 else None
        tyr = self.type_range(e0) or self.type_range(e)
        if r is None:
            return tyr
        if tyr is not None:
            r = (max(r[0], tyr[0]), min(r[1], tyr[1]))
        return r

    @staticmethod
    def type_range(e):
        ty = (e.get("ty") or "").replace("const ", "").strip()
        if ty in ("unsigned char", "std::uint8_t", "uint8_t"):
            return (0, 255)
        if ty in ("unsigned short", "std::uint16_t", "uint16_t"):
            return (0, 65535)
        if ty in ("unsigned long", "unsigned int", "size_t", "unsigned long long"):
            return (0, INF)
        return None

    # ---- transfer ----------------------------------------------------------------
    def transfer(self, node, st):
        k = node["k"]
        if k in ("DeclStmt", "VarDecl"):
            for v in (kids(node) if k == "DeclStmt" else [node]):
                if v.get("did") in self.vars:
                    init = kids(v)[0] if kids(v) else None
                    r = self.ev(init, st) if init is not None else None
                    if r is None:
                        st.pop(v["did"], None)
                        st[v["did"]] = (0, INF)
                    else:
                        st[v["did"]] = r
            return
        if k == "UnaryOperator" and node.get("op") in ("++", "--"):
            d = ref_of(kids(node)[0])
            if d in self.vars and d in st:
                lo, hi = st[d]
                st[d] = (lo + 1, hi + 1) if node["op"] == "++" else (max(lo - 1, 0), max(hi - 1, 0) if hi != INF else INF)
            return
        if k == "BinaryOperator" and node.get("op") == "=":
            d = ref_of(kids(node)[0])
            if d in self.vars:
                r = self.ev(kids(node)[1], st)
                st[d] = r if r is not None else (0, INF)
            return
        if k == "CompoundAssignOperator":
            d = ref_of(kids(node)[0])
            if d in self.vars:
                cur = st.get(d, (0, INF))
                r = self.ev(kids(node)[1], st)
                if node.get("op") == "+=" and r is not None:
                    st[d] = (cur[0] + r[0], cur[1] + r[1])
                elif node.get("op") == "-=" and r is not None:
                    st[d] = (max(cur[0] - r[1], 0) if r[1] != INF else 0, cur[1])
                else:
                    st[d] = (0, INF)
            return

    def refine(self, cond, truth, st):
        """returns the refined state or None if the branch is infeasible"""
        c = strip_casts(cond)
        if c["k"] == "ParenExpr":
            return self.refine(kids(c)[0], truth, st)
        if c["k"] == "UnaryOperator" and c.get("op") == "!":
            return self.refine(kids(c)[0], not truth, st)
        b = match.binop(c, ("<", "<=", ">", ">=", "==", "!="))
        if not b or c["k"] != "BinaryOperator":
            return st
        op, l, r = b
        d, other = ref_of(l), r
        flip = {"<": ">", "<=": ">=", ">": "<", ">=": "<=", "==": "==", "!=": "!="}
        if d not in self.vars or d not in st:
            d, other = ref_of(r), l
            op = flip[op]
            if d not in self.vars or d not in st:
                return st
        rng = self.ev(other, st)
        if rng is None:
            return st
        if not truth:
            op = {"<": ">=", "<=": ">", ">": "<=", ">=": "<", "==": "!=", "!=": "=="}[op]
        lo, hi = st[d]
        if op == "<":
            hi = min(hi, rng[1] - 1)
        elif op == "<=":
            hi = min(hi, rng[1])
        elif op == ">":
            lo = max(lo, rng[0] + 1)
        elif op == ">=":
            lo = max(lo, rng[0])
        elif op == "==":
            lo, hi = max(lo, rng[0]), min(hi, rng[1])
        elif op == "!=" and rng[0] == rng[1]:
            if lo == rng[0]:
                lo += 1
            if hi == rng[0]:
                hi -= 1
        if lo > hi:
            return None
        st = dict(st)
        st[d] = (lo, hi)
        return st

    def widen(self, old, new):
        out = {}
        for k in new:
            if k not in old:
                out[k] = new[k]
                continue
            lo, hi = new[k]
            olo, ohi = old[k]
            if lo < olo:
                cands = [t for t in self.thresholds if t <= lo]
                lo = cands[-1] if cands else 0
            if hi > ohi:
                cands = [t for t in self.thresholds if t >= hi]
                hi = cands[0] if cands else INF
            out[k] = (min(lo, olo), max(hi, ohi))
        return out

    def _run(self):
        g = self.g
        init = {}
        for p in self.fn.params:
            if p["did"] in self.vars:
                init[p["did"]] = (0, INF)
        self.in_state = {g.entry: init}
        work = [g.entry]
        visits = {}
        while work:
            b = work.pop(0)
            st = self.in_state.get(b)
            if st is None:
                continue
            st = dict(st)
            blk = g.blocks[b]
            els = blk.get("el", [])
            last_expr = None
            for i, e in enumerate(els):
                if not isinstance(e, int):
                    continue
                node = self.fn.byid(e)
                if node is None:
                    continue
                self.at_elem[e] = dict(st)
                self.transfer(node, st)
                last_expr = node
            succ = blk.get("succ", [])
            if blk.get("noreturn"):
                continue
            outs = []
            if len(succ) == 2 and last_expr is not None and blk.get("termk") not in ("SwitchStmt",):
                for s, truth in ((succ[0], True), (succ[1], False)):
                    if s is None:
                        continue
                    r = self.refine(last_expr, truth, st)
                    if r is not None:
                        outs.append((s, r))
            else:
                for s in succ:
                    if s is not None:
                        outs.append((s, st))
            for s, r in outs:
                old = self.in_state.get(s)
                new = join(old, r) if old is not None else dict(r)
                visits[s] = visits.get(s, 0) + 1
                if old is not None and visits[s] > 3 and s in self.heads:
                    new = self.widen(old, new)
                if old is None or new != old:
                    self.in_state[s] = new
                    if s not in work:
                        work.append(s)

    def range_at(self, expr):
        """interval of an expression in the state just before the given node is evaluated; 'unreachable' if
        the analysis never reaches it"""
        st = self.at_elem.get(expr["id"])
        if st is None:
            # find the nearest enclosing element
            p = expr
            while p is not None and p["id"] not in self.at_elem:
                p = self.fn.parent(p)
            if p is None:
                return "unreachable"
            st = self.at_elem[p["id"]]
        return self.ev(expr, st)


def fixed_array_findings(fn, g=None):
    """(subscript node, array length, proven index interval) for every subscript of an array with a constant length
    (member or local) whose index interval is *proven from the control flow* (not merely the range of its type)
    and reaches the array length.  Also returns the number of subscripts examined."""
    import re
    from . import cfg as cfgm
    from .ir import kids as _kids, strip_casts as _sc
    cands = []
    for z in fn.nodes():
        if z["k"] != "ArraySubscriptExpr":
            continue
        b = _sc(_kids(z)[0])
        m = re.search(r"\[(\d+)\]$", (b.get("ty") or "").strip())
        if m:
            cands.append((z, int(m.group(1))))
    if not cands:
        return [], 0
    iv = Intervals(fn, g or cfgm.CFG(fn))
    out = []
    for z, n in cands:
        idx = _kids(z)[1]
        r = iv.range_at(idx)
        if r in (None, "unreachable") or r[1] == INF or r[1] < n:
            continue
        if iv.ev(idx, {}) == r:
            continue          # nothing but the type's own range: a data value, not decided here
        out.append((z, n, r))
    return out, len(cands)
