"""Engine A2: decision tables.

A loop-free code fragment is executed abstractly under every valuation of a
set of boolean *atoms* (canonical comparison results etc.).  The atoms are
discovered lazily: whenever the fragment consults an atom that has no value yet
the execution forks.  The result is a list of leaves (partial valuation, events)
which partition the valuation space; `table()` expands them to all full
valuations accepted by a consistency predicate.

The rule supplies `atomize(node, env) -> (key, negated) | bool | None`:
  key      the node is an atom (canonicalised by the rule)
  bool     the node has a fixed truth value
  None     not an atom: the interpreter decomposes !, &&, ||, ?:, bool locals
A boolean leaf that is neither is *undecidable* (never guessed).
"""
from .ir import kids, const_int, strip_casts, AnalysisBroken


class Undecidable(AnalysisBroken):
    pass


class _Need(Exception):
    def __init__(self, key):
        self.key = key


class _Stop(Exception):
    def __init__(self, kind, payload=None):
        self.kind = kind
        self.payload = payload


class Run:
    def __init__(self, atomize, val, fn=None, on_event=None, max_steps=20000):
        self.atomize = atomize
        self.val = val
        self.env = {}
        self.clobbered = set()
        self.events = []
        self.fn = fn
        self.steps = 0
        self.max_steps = max_steps

    # ---- boolean evaluation -------------------------------------------------
    def atom(self, key):
        if key not in self.val:
            raise _Need(key)
        return self.val[key]

    def truth(self, n):
        self.steps += 1
        if self.steps > self.max_steps:
            raise Undecidable("fragment too large")
        r = self.atomize(n, self)
        if r is not None:
            if isinstance(r, bool):
                return r
            key, neg = r
            v = self.atom(key)
            return (not v) if neg else v
        k = n["k"]
        if k == "CXXBoolLiteralExpr":
            return bool(n["val"])
        c = const_int(n)
        if c is not None:
            return c != 0
        if k == "UnaryOperator" and n.get("op") == "!":
            return not self.truth(kids(n)[0])
        if k == "BinaryOperator" and n.get("op") == "&&":
            return self.truth(kids(n)[0]) and self.truth(kids(n)[1])
        if k == "BinaryOperator" and n.get("op") == "||":
            return self.truth(kids(n)[0]) or self.truth(kids(n)[1])
        if k == "BinaryOperator" and n.get("op") == ",":
            self.effect(kids(n)[0])
            return self.truth(kids(n)[1])
        if k == "ConditionalOperator":
            c0, a, b = kids(n)
            return self.truth(a) if self.truth(c0) else self.truth(b)
        if k in ("ImplicitCastExpr", "CXXStaticCastExpr", "CStyleCastExpr",
                 "CXXFunctionalCastExpr") and kids(n):
            if n.get("cast") in ("IntegralToBoolean", "PointerToBoolean", "NoOp",
                                 "IntegralCast", "LValueToRValue"):
                return self.truth(kids(n)[0])
        if k == "DeclRefExpr":
            did = n["ref"]["id"]
            if did in self.env:
                v = self.env[did]
                if isinstance(v, bool):
                    return v
                if isinstance(v, int):
                    return v != 0
                if isinstance(v, dict):
                    return self.truth(v)
            if (n.get("ty") or "").replace("const ", "") == "bool" and n["ref"].get("kind") in ("local", "param"):
                # a flag set inside a loop that is not interpreted: either value is possible
                return self.atom("flag:" + n["ref"]["name"])
        if k == "BinaryOperator" and n.get("op") in ("==", "!=", "<", ">", "<=", ">="):
            a = self.intval(kids(n)[0])
            b = self.intval(kids(n)[1])
            if a is not None and b is not None:
                return {"==": a == b, "!=": a != b, "<": a < b, ">": a > b,
                        "<=": a <= b, ">=": a >= b}[n["op"]]
        sub = inline_call(self.fn, n)
        if sub is not None:
            return self.truth(sub)
        raise Undecidable("condition not understood at line %s: %s"
                          % (n.get("l"), describe(n)))

    def intval(self, n):
        c = const_int(n)
        if c is not None:
            return c
        n = strip_casts(n)
        if n["k"] == "DeclRefExpr" and n["ref"]["id"] in self.env:
            v = self.env[n["ref"]["id"]]
            if isinstance(v, (int, bool)):
                return int(v)
        if n["k"] == "UnaryOperator" and n.get("op") == "-":
            v = self.intval(kids(n)[0])
            return -v if v is not None else None
        return None

    # ---- effects ----------------------------------------------------------------
    def effect(self, n):
        """expression evaluated for its side effects: record calls/assignments"""
        if n is None:
            return
        k = n["k"]
        if k == "ConditionalOperator":
            c0, a, b = kids(n)
            self.effect(a if self.truth(c0) else b)
            return
        if k == "BinaryOperator" and n.get("op") in ("&&", "||"):
            self.truth(n)
            return
        if k == "BinaryOperator" and n.get("op") == ",":
            self.effect(kids(n)[0])
            self.effect(kids(n)[1])
            return
        self.events.append(("expr", n))

    # ---- statements -------------------------------------------------------------
    def stmt(self, s):
        if s is None:
            return
        self.steps += 1
        if self.steps > self.max_steps:
            raise Undecidable("fragment too large")
        k = s["k"]
        if k == "CompoundStmt":
            for c in kids(s):
                self.stmt(c)
        elif k == "IfStmt":
            if "init" in s:
                self.stmt(s["init"])
            c, t, e = kids(s)
            if self.truth(c):
                self.stmt(t)
            else:
                self.stmt(e)
        elif k == "ReturnStmt":
            v = kids(s)[0] if kids(s) else None
            raise _Stop("return", (v, s))
        elif k == "GotoStmt":
            raise _Stop("goto", s["label"])
        elif k == "BreakStmt":
            raise _Stop("break")
        elif k == "ContinueStmt":
            raise _Stop("continue")
        elif k == "DeclStmt":
            for v in kids(s):
                init = kids(v)[0] if kids(v) else None
                if init is not None:
                    ci = const_int(init)
                    if ci is not None and v.get("ty") in ("bool", "const bool"):
                        self.env[v["did"]] = bool(ci)
                    elif v.get("ty") in ("bool", "const bool"):
                        self.env[v["did"]] = self.truth(init)
                    else:
                        self.env[v["did"]] = init
                        self.events.append(("decl", v))
                else:
                    self.events.append(("decl", v))
        elif k == "NullStmt":
            pass
        elif k == "LabelStmt":
            self.events.append(("label", s["label"]))
            self.stmt(kids(s)[0])
        elif k in ("WhileStmt", "ForStmt", "DoStmt", "CXXForRangeStmt", "SwitchStmt",
                   "CXXTryStmt"):
            # the construct is not interpreted: what it assigns is no longer known
            from .ir import walk as _walk, ref_of as _ref_of
            for y in _walk(s):
                if y["k"] in ("BinaryOperator", "CompoundAssignOperator") and (y.get("op") or "").endswith("=") and y.get("op") not in ("==", "!=", "<=", ">="):
                    d = _ref_of(kids(y)[0])
                    if d is not None:
                        self.env.pop(d, None)
                        self.clobbered.add(d)
            self.events.append(("loop", s))
        elif k == "CXXThrowExpr":
            raise _Stop("throw", s)
        else:
            # expression statement; bool assignment to a local is tracked
            if k == "BinaryOperator" and s.get("op") == "=":
                lhs = strip_casts(kids(s)[0])
                if lhs["k"] == "DeclRefExpr" and lhs.get("ty") == "bool":
                    self.env[lhs["ref"]["id"]] = self.truth(kids(s)[1])
                    return
            self.effect(s)


_NAMES = None      # optional: declaration id -> canonical name (set through canonical_names())


class canonical_names:
    """with canonical_names(mapping): describe() prints mapped locals by their canonical name (alpha-renaming)"""

    def __init__(self, mapping):
        self.mapping = mapping

    def __enter__(self):
        global _NAMES
        self.old = _NAMES
        _NAMES = self.mapping

    def __exit__(self, *a):
        global _NAMES
        _NAMES = self.old


def local_canon(root):
    """declaration id -> v1, v2, ... in order of declaration inside root"""
    from .ir import walk as _walk
    out = {}
    for x in _walk(root):
        if x["k"] == "VarDecl" and x.get("did") not in out:
            out[x["did"]] = "v%d" % (len(out) + 1)
    return out


def _subst(e, mapping):
    """deep copy of e with DeclRefExprs of the mapped declarations replaced by the mapped nodes"""
    if e is None:
        return None
    if e["k"] == "DeclRefExpr" and e["ref"]["id"] in mapping:
        return mapping[e["ref"]["id"]]
    out = dict(e)
    if "ch" in e:
        out["ch"] = [_subst(c, mapping) for c in e["ch"]]
    return out


def inline_call(fn, n, depth=0):
    """if n is a call to a small helper of the same program whose body is a single `return expr;`, the expression with
    the parameters replaced by the arguments (so that a predicate moved into a helper reads like the inline form)"""
    from .ir import strip_casts as _sc, kids as _kids, walk as _walk
    n = _sc(n)
    if fn is None or n is None or "callee" not in n or depth > 3:
        return None
    callee = fn.tu.by_did.get(n["callee"].get("did"))
    if callee is None or callee.body is None or callee.did == fn.did:
        return None
    stmts = [s for s in _kids(callee.body) if s is not None]
    args = _kids(n)[1:] if n.get("member_call") else _kids(n)
    if n["k"] == "CXXOperatorCallExpr" and n.get("op") == "()" and len(args) == len(callee.params) + 1:
        args = args[1:]          # f(a, b) on a function object: the first operand is the object, not an argument
    if len(args) != len(callee.params) or not stmts:
        return None
    mapping = {p["did"]: a for p, a in zip(callee.params, args)}
    return stmts_as_expr(stmts, mapping)


def stmts_as_expr(stmts, mapping=None):
    """the value returned by a statement list of the form  decl* (if (c) return e;)* return e;  as one expression
    (c ? e : ...), locals replaced by their initialisers; None if the list has another shape"""
    from .ir import kids as _kids
    mapping = dict(mapping or {})
    stmts = [s for s in stmts if s is not None]
    # leading declarations of locals (values or references) stand for their initialisers
    while stmts and stmts[0]["k"] == "DeclStmt":
        for v in _kids(stmts[0]):
            if v["k"] != "VarDecl" or not _kids(v) or _kids(v)[0] is None:
                return None
            mapping[v["did"]] = _subst(_kids(v)[0], mapping)
        stmts = stmts[1:]
    # (if (c) return e;)* return e;   ->   c ? e : (...)
    def chain(rest):
        if not rest:
            return None
        s0 = rest[0]
        if s0["k"] == "ReturnStmt" and _kids(s0) and len(rest) == 1:
            return _subst(_kids(s0)[0], mapping)
        if s0["k"] == "IfStmt":
            c, t, e = (_kids(s0) + [None, None])[:3]
            t_stmts = [x for x in _kids(t) if x is not None] if t is not None and t["k"] == "CompoundStmt" else [t]
            tv = chain(t_stmts)
            ev = chain(([x for x in _kids(e) if x is not None] if e["k"] == "CompoundStmt" else [e]) if e is not None else rest[1:])
            if tv is None or ev is None or (e is not None and len(rest) > 1):
                return None
            return {"k": "ConditionalOperator", "id": -11, "ty": "bool", "l": s0.get("l"), "ch": [_subst(c, mapping), tv, ev]}
        return None
    return chain(stmts)


def describe(n, depth=0):
    """short printable form of an expression node"""
    if n is None:
        return "<null>"
    k = n["k"]
    if k == "DeclRefExpr":
        if _NAMES is not None and n["ref"]["id"] in _NAMES:
            return _NAMES[n["ref"]["id"]]
        return n["ref"]["name"]
    if k == "MemberExpr":
        b = kids(n)[0] if kids(n) else None
        if b is not None and b["k"] == "This":
            return n["member"]
        return describe(b) + ("->" if n.get("arrow") else ".") + n["member"]
    if k == "This":
        return "this"
    if "val" in n and k.endswith("Literal") or k == "CXXBoolLiteralExpr":
        return str(n.get("val"))
    if k == "NullPtr":
        return "nullptr"
    if k in ("BinaryOperator", "CompoundAssignOperator"):
        return "(%s %s %s)" % (describe(kids(n)[0]), n["op"], describe(kids(n)[1]))
    if k == "UnaryOperator":
        if n.get("postfix"):
            return describe(kids(n)[0]) + n["op"]
        return n["op"] + describe(kids(n)[0])
    if k == "ArraySubscriptExpr":
        return "%s[%s]" % (describe(kids(n)[0]), describe(kids(n)[1]))
    if "callee" in n:
        c = n["callee"]
        args = kids(n)
        if n.get("member_call") and args:
            return "%s.%s(%s)" % (describe(args[0]), c["name"],
                                  ", ".join(describe(a) for a in args[1:]))
        if n.get("op") == "[]" and len(args) == 2:
            return "%s[%s]" % (describe(args[0]), describe(args[1]))
        if n.get("op") == "()" and args:
            return "%s(%s)" % (describe(args[0]), ", ".join(describe(a) for a in args[1:]))
        if n.get("op") and len(args) == 2:
            return "(%s %s %s)" % (describe(args[0]), n["op"], describe(args[1]))
        if n.get("op") and len(args) == 1:
            return "%s%s" % (n["op"], describe(args[0]))
        if k in ("CXXConstructExpr", "CXXTemporaryObjectExpr"):
            if len(args) == 1:
                return describe(args[0])
            return "%s(%s)" % (c["record"].split("::")[-1] if c.get("record") else c["name"],
                               ", ".join(describe(a) for a in args))
        return "%s(%s)" % (c["name"], ", ".join(describe(a) for a in args))
    if k in ("ImplicitCastExpr", "CStyleCastExpr", "CXXStaticCastExpr",
             "CXXFunctionalCastExpr", "CXXReinterpretCastExpr", "CXXConstCastExpr"):
        return describe(kids(n)[0]) if kids(n) else k
    if k == "ConditionalOperator":
        c, a, b = kids(n)
        return "(%s ? %s : %s)" % (describe(c), describe(a), describe(b))
    if k == "DefaultArg":
        return "<default>"
    if k == "UnaryExprOrTypeTraitExpr":
        return "sizeof(%s)" % n.get("argty")
    if kids(n):
        return "%s(%s)" % (k, ", ".join(describe(a) for a in kids(n)))
    return k


def explore(stmt, atomize, fn=None, as_expr=False, pre=None):
    """returns leaves: list of dict(val=partial valuation, events=[...],
    stop=(kind, payload), result=bool for as_expr)"""
    leaves = []
    work = [dict()]
    guard = 0
    while work:
        guard += 1
        if guard > 100000:
            raise Undecidable("too many paths")
        val = work.pop()
        r = Run(atomize, val, fn)
        if pre:
            pre(r)
        try:
            stop = ("end", None)
            result = None
            try:
                if as_expr:
                    result = r.truth(stmt)
                else:
                    r.stmt(stmt)
            except _Stop as s:
                stop = (s.kind, s.payload)
            leaves.append(dict(val=dict(val), events=r.events, stop=stop,
                               result=result, run=r))
        except _Need as nd:
            for b in (True, False):
                v2 = dict(val)
                v2[nd.key] = b
                work.append(v2)
    return leaves


def atoms_of(leaves):
    s = []
    for lf in leaves:
        for k in lf["val"]:
            if k not in s:
                s.append(k)
    return s


def table(leaves, consistent=None, atoms=None):
    """expand to full valuations: yields (valuation, leaf)"""
    if atoms is None:
        atoms = atoms_of(leaves)
    n = len(atoms)
    if n > 16:
        raise Undecidable("too many atoms (%d)" % n)
    for bits in range(1 << n):
        v = {a: bool((bits >> i) & 1) for i, a in enumerate(atoms)}
        if consistent and not consistent(v):
            continue
        for lf in leaves:
            if all(v[a] == b for a, b in lf["val"].items() if a in v):
                yield v, lf
                break
        else:
            raise Undecidable("no leaf for valuation %r" % v)


def fmt_val(v):
    return " ".join(("%s" if b else "!%s") % k for k, b in sorted(v.items()))
