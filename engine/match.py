"""small structural matchers shared by the rule files"""
from .ir import kids, strip_casts, const_int, ref_of, is_this_member, walk


def index_parts(n):
    """(base, index) for a[i] in either the builtin or the operator[] form"""
    n = strip_casts(n)
    if n is None:
        return None
    if n["k"] == "ArraySubscriptExpr":
        return kids(n)[0], kids(n)[1]
    if "callee" in n and n.get("op") == "[]" and len(kids(n)) == 2:
        return kids(n)[0], kids(n)[1]
    if "callee" in n and n["callee"]["name"] in ("at",) and n.get("member_call") and len(kids(n)) == 2:
        return kids(n)[0], kids(n)[1]
    return None


def deref_of(n):
    """operand of *p (builtin or operator*)"""
    n = strip_casts(n)
    if n is None:
        return None
    if n["k"] == "UnaryOperator" and n.get("op") == "*":
        return kids(n)[0]
    if "callee" in n and n.get("op") == "*" and len(kids(n)) == 1:
        return kids(n)[0]
    return None


def field_of(n):
    """(base, fieldname) for base.f / base->f"""
    n = strip_casts(n)
    if n is not None and n["k"] == "MemberExpr" and kids(n):
        return kids(n)[0], n["member"]
    return None


def this_field(n):
    """name if n is this->name"""
    n = strip_casts(n)
    if n is not None and n["k"] == "MemberExpr" and kids(n):
        b = strip_casts(kids(n)[0])
        if b is not None and b["k"] == "This":
            return n["member"]
    return None


def strip_conv(n):
    """looks through casts and single-argument converting constructions"""
    n = strip_casts(n)
    while n is not None and n["k"] in ("CXXConstructExpr", "CXXTemporaryObjectExpr") and len(kids(n)) == 1:
        n = strip_casts(kids(n)[0])
    return n


_FLIP = {"==": "!=", "!=": "=="}


def binop(n, ops=None):
    """(op, lhs, rhs) for builtin binary operators and two-argument operator calls;
    !(a == b) (C++20 rewritten a != b) is normalised to a != b"""
    n = strip_casts(n)
    if n is None:
        return None
    if n["k"] == "UnaryOperator" and n.get("op") == "!" and kids(n):
        inner = binop(kids(n)[0], ("==", "!="))
        if inner and (ops is None or _FLIP[inner[0]] in ops):
            return _FLIP[inner[0]], inner[1], inner[2]
    if n["k"] in ("BinaryOperator", "CompoundAssignOperator"):
        if ops is None or n["op"] in ops:
            return n["op"], kids(n)[0], kids(n)[1]
    if "callee" in n and n.get("op") and len(kids(n)) == 2 and n["k"] == "CXXOperatorCallExpr":
        if ops is None or n["op"] in ops:
            return n["op"], kids(n)[0], kids(n)[1]
    return None


def unop(n, ops=None):
    n = strip_casts(n)
    if n is None:
        return None
    if n["k"] == "UnaryOperator" and (ops is None or n["op"] in ops):
        return n["op"], kids(n)[0], bool(n.get("postfix"))
    if "callee" in n and n.get("op") in ("++", "--", "!", "-", "*") and n["k"] == "CXXOperatorCallExpr" \
            and len(kids(n)) in (1, 2) and (ops is None or n["op"] in ops):
        return n["op"], kids(n)[0], len(kids(n)) == 2
    return None


def call_named(n, names):
    n = strip_casts(n)
    if n is not None and "callee" in n and n["callee"]["name"] in names:
        return n
    return None


def functor_call(n):
    """(functor_expr, args) for f(a, b) where f is an object with operator()"""
    n = strip_casts(n)
    if n is not None and "callee" in n and n.get("op") == "()" and kids(n):
        return kids(n)[0], kids(n)[1:]
    return None


def ptr_truth(n):
    """operand p if n is the pointer-to-bool conversion of p"""
    if n is not None and n["k"] == "ImplicitCastExpr" and n.get("cast") == "PointerToBoolean":
        return kids(n)[0]
    return None


def same_expr(a, b):
    """structural equality of two expression trees (names, operators, literals)"""
    a, b = strip_casts(a), strip_casts(b)
    if a is None or b is None:
        return a is b
    if a["k"] != b["k"]:
        return False
    for key in ("op", "member", "val", "label"):
        if a.get(key) != b.get(key):
            return False
    if a["k"] == "DeclRefExpr" and a["ref"]["id"] != b["ref"]["id"]:
        return False
    if "callee" in a and a["callee"]["qname"] != b.get("callee", {}).get("qname"):
        return False
    ka, kb = kids(a), kids(b)
    if len(ka) != len(kb):
        return False
    return all(same_expr(x, y) for x, y in zip(ka, kb))


def halving(n, var_did):
    """n is `v /= 2`, `v >>= 1`, `v = v / 2`, `v = v >> 1`"""
    b = binop(n)
    if not b:
        return False
    op, l, r = b
    if ref_of(l) != var_did:
        return False
    if op == "/=" and const_int(r) == 2:
        return True
    if op == ">>=" and const_int(r) == 1:
        return True
    if op == "=":
        bb = binop(r)
        if bb and ref_of(bb[1]) == var_did:
            if bb[0] == "/" and const_int(bb[2]) == 2:
                return True
            if bb[0] == ">>" and const_int(bb[2]) == 1:
                return True
    return False


def is_halved(n):
    """operand e if n is e/2 or e>>1"""
    b = binop(n)
    if b and ((b[0] == "/" and const_int(b[2]) == 2) or (b[0] == ">>" and const_int(b[2]) == 1)):
        return b[1]
    return None


def positive_test(n, var_did):
    """n is `v > 0`, `v != 0`, `v >= 1`, `0 < v`, `v` (as bool)"""
    n0 = n
    n = strip_casts(n)
    if n is None:
        return False
    if ref_of(n0) == var_did:
        return True
    b = binop(n)
    if b:
        op, l, r = b
        if ref_of(l) == var_did and ((op in (">", "!=") and const_int(r) == 0) or (op == ">=" and const_int(r) == 1)):
            return True
        if ref_of(r) == var_did and ((op in ("<", "!=") and const_int(l) == 0) or (op == "<=" and const_int(l) == 1)):
            return True
    return False


def loops_in(stmt):
    return [x for x in walk(stmt) if x["k"] in ("WhileStmt", "ForStmt", "DoStmt")]


def loop_parts(loop):
    """(init, cond, inc, body)"""
    if loop["k"] == "ForStmt":
        return tuple(kids(loop))
    if loop["k"] == "WhileStmt":
        return None, kids(loop)[0], None, kids(loop)[1]
    if loop["k"] == "DoStmt":
        return None, kids(loop)[1], None, kids(loop)[0]
    return None
