"""small structural matchers shared by the rule files"""
from .ir import kids, strip_casts, const_int, ref_of, is_this_member, walk


def index_parts(n):
    """(base, index) for a[i] in either the builtin or the operator[] form"""
    n = strip_casts(n)
    if n is None:
        return None
    if n["k"] == "ArraySubscriptExpr":
        return kids(n)[0], kids(n)[1]
    if "callee" in n and n.get("op") == "[]" and len(kids(n)) == 2:
        return kids(n)[0], kids(n)[1]
    if "callee" in n and n["callee"]["name"] in ("at",) and n.get("member_call") and len(kids(n)) == 2:
        return kids(n)[0], kids(n)[1]
    return None


def deref_of(n):
    """operand of *p (builtin or operator*)"""
    n = strip_casts(n)
    if n is None:
        return None
    if n["k"] == "UnaryOperator" and n.get("op") == "*":
        return kids(n)[0]
    if "callee" in n and n.get("op") == "*" and len(kids(n)) == 1:
        return kids(n)[0]
    return None


def field_of(n):
    """(base, fieldname) for base.f / base->f"""
    n = strip_casts(n)
    if n is not None and n["k"] == "MemberExpr" and kids(n):
        return kids(n)[0], n["member"]
    return None


def this_field(n):
    """name if n is this->name"""
    n = strip_casts(n)
    if n is not None and n["k"] == "MemberExpr" and kids(n):
        b = strip_casts(kids(n)[0])
        if b is not None and b["k"] == "This":
            return n["member"]
    return None


def strip_conv(n):
    """looks through casts and single-argument converting constructions"""
    n = strip_casts(n)
    while n is not None and n["k"] in ("CXXConstructExpr", "CXXTemporaryObjectExpr") and len(kids(n)) == 1:
        n = strip_casts(kids(n)[0])
    return n


_FLIP = {"==": "!=", "!=": "=="}


def binop(n, ops=None):
    """(op, lhs, rhs) for builtin binary operators and two-argument operator calls;
    !(a == b) (C++20 rewritten a != b) is normalised to a != b"""
    n = strip_casts(n)
    if n is None:
        return None
    if n["k"] == "UnaryOperator" and n.get("op") == "!" and kids(n):
        inner = binop(kids(n)[0], ("==", "!="))
        if inner and (ops is None or _FLIP[inner[0]] in ops):
            return _FLIP[inner[0]], inner[1], inner[2]
    if n["k"] in ("BinaryOperator", "CompoundAssignOperator"):
        if ops is None or n["op"] in ops:
            return n["op"], kids(n)[0], kids(n)[1]
    if "callee" in n and n.get("op") and len(kids(n)) == 2 and n["k"] == "CXXOperatorCallExpr":
        if ops is None or n["op"] in ops:
            return n["op"], kids(n)[0], kids(n)[1]
    return None


def unop(n, ops=None):
    n = strip_casts(n)
    if n is None:
        return None
    if n["k"] == "UnaryOperator" and (ops is None or n["op"] in ops):
        return n["op"], kids(n)[0], bool(n.get("postfix"))
    if "callee" in n and n.get("op") in ("++", "--", "!", "-", "*") and n["k"] == "CXXOperatorCallExpr" \
            and len(kids(n)) in (1, 2) and (ops is None or n["op"] in ops):
        return n["op"], kids(n)[0], len(kids(n)) == 2
    return None


def call_named(n, names):
    n = strip_casts(n)
    if n is not None and "callee" in n and n["callee"]["name"] in names:
        return n
    return None


def functor_call(n):
    """(functor_expr, args) for f(a, b) where f is an object with operator()"""
    n = strip_casts(n)
    if n is not None and "callee" in n and n.get("op") == "()" and kids(n):
        return kids(n)[0], kids(n)[1:]
    return None


def ptr_truth(n):
    """operand p if n is the pointer-to-bool conversion of p"""
    if n is not None and n["k"] == "ImplicitCastExpr" and n.get("cast") == "PointerToBoolean":
        return kids(n)[0]
    return None


def same_expr(a, b):
    """structural equality of two expression trees (names, operators, literals)"""
    a, b = strip_casts(a), strip_casts(b)
    if a is None or b is None:
        return a is b
    if a["k"] != b["k"]:
        return False
    for key in ("op", "member", "val", "label"):
        if a.get(key) != b.get(key):
            return False
    if a["k"] == "DeclRefExpr" and a["ref"]["id"] != b["ref"]["id"]:
        return False
    if "callee" in a and a["callee"]["qname"] != b.get("callee", {}).get("qname"):
        return False
    ka, kb = kids(a), kids(b)
    if len(ka) != len(kb):
        return False
    return all(same_expr(x, y) for x, y in zip(ka, kb))


def halving(n, var_did):
    """n is `v /= 2`, `v >>= 1`, `v = v / 2`, `v = v >> 1`"""
    b = binop(n)
    if not b:
        return False
    op, l, r = b
    if ref_of(l) != var_did:
        return False
    if op == "/=" and const_int(r) == 2:
        return True
    if op == ">>=" and const_int(r) == 1:
        return True
    if op == "=":
        bb = binop(r)
        if bb and ref_of(bb[1]) == var_did:
            if bb[0] == "/" and const_int(bb[2]) == 2:
                return True
            if bb[0] == ">>" and const_int(bb[2]) == 1:
                return True
    return False


def is_halved(n):
    """operand e if n is e/2 or e>>1"""
    b = binop(n)
    if b and ((b[0] == "/" and const_int(b[2]) == 2) or (b[0] == ">>" and const_int(b[2]) == 1)):
        return b[1]
    return None


def positive_test(n, var_did):
    """n is `v > 0`, `v != 0`, `v >= 1`, `0 < v`, `v` (as bool)"""
    n0 = n
    n = strip_casts(n)
    if n is None:
        return False
    if ref_of(n0) == var_did:
        return True
    b = binop(n)
    if b:
        op, l, r = b
        if ref_of(l) == var_did and ((op in (">", "!=") and const_int(r) == 0) or (op == ">=" and const_int(r) == 1)):
            return True
        if ref_of(r) == var_did and ((op in ("<", "!=") and const_int(l) == 0) or (op == "<=" and const_int(l) == 1)):
            return True
    return False


def loops_in(stmt):
    return [x for x in walk(stmt) if x["k"] in ("WhileStmt", "ForStmt", "DoStmt")]


def loop_parts(loop):
    """(init, cond, inc, body)"""
    if loop["k"] == "ForStmt":
        return tuple(kids(loop))
    if loop["k"] == "WhileStmt":
        return None, kids(loop)[0], None, kids(loop)[1]
    if loop["k"] == "DoStmt":
        return None, kids(loop)[1], None, kids(loop)[0]
    return None


# ---------------------------------------------------------------- idioms that have several spellings
def fill_all(n):
    """(container expr, value expr) if n sets every element of a container to one value:
    std::fill(c.begin(), c.end(), v) | std::fill_n(c.begin(), c.size(), v) | c.assign(n, v) |
    for (T& x : c) x = v; | for (i = 0; i < c.size(); ++i) c[i] = v;"""
    if n is None:
        return None
    if "callee" in n and n["callee"]["name"] in ("fill", "fill_n") and len(kids(n)) == 3:
        a = strip_conv(kids(n)[0])
        b = call_named(a, ("begin",))
        if b is not None and "callee" in a and kids(a):
            return kids(a)[0], kids(n)[2]
    if "callee" in n and n.get("member_call") and n["callee"]["name"] == "assign" and len(kids(n)) == 3:
        return kids(n)[0], kids(n)[2]
    if n["k"] == "CXXForRangeStmt" and len(kids(n)) >= 3:
        rng, var, body = kids(n)[0], kids(n)[1], kids(n)[2]
        stmts = [s for s in (kids(body) if body is not None and body["k"] == "CompoundStmt" else [body]) if s is not None]
        if var is not None and var["k"] == "VarDecl" and len(stmts) == 1:
            b = binop(stmts[0], ("=",))
            if b and ref_of(b[1]) == var.get("did") and (var.get("isref") or (var.get("ty") or "").rstrip().endswith("&")):
                return rng, b[2]
    if n["k"] == "ForStmt":
        init, cond, inc, body = loop_parts(n)
        stmts = [s for s in (kids(body) if body is not None and body["k"] == "CompoundStmt" else [body]) if s is not None]
        var = [y for y in walk(init) if y["k"] == "VarDecl"] if init is not None else []
        c = binop(cond, ("<", "!=")) if cond is not None else None
        if len(var) == 1 and kids(var[0]) and const_int(kids(var[0])[0]) == 0 and c and ref_of(c[1]) == var[0]["did"] and len(stmts) == 1:
            sz = call_named(strip_conv(c[2]), ("size",))
            b = binop(stmts[0], ("=",))
            ip = index_parts(b[1]) if b else None
            if sz is not None and "callee" in strip_conv(c[2]) and ip and ref_of(ip[1]) == var[0]["did"] and same_expr(ip[0], kids(strip_conv(c[2]))[0]):
                return ip[0], b[2]
    return None


def extreme_update(n, which):
    """(target, other) if n lowers (which='min') / raises (which='max') target to other:
    t = std::min(t, o) | if (o < t) t = o; | if (t > o) t = o; | t = o < t ? o : t  (and the mirror images for max)"""
    if n is None:
        return None
    b = binop(n, ("=",))
    if b:
        m = call_named(strip_conv(b[2]), (which,))
        if m is not None and "callee" in strip_conv(b[2]):
            args = [a for a in kids(m) if a is not None][:2]
            if len(args) == 2:
                if same_expr(args[0], b[1]):
                    return b[1], args[1]
                if same_expr(args[1], b[1]):
                    return b[1], args[0]
        return None
    if n["k"] == "IfStmt" and len(kids(n)) >= 2 and (len(kids(n)) < 3 or kids(n)[2] is None):
        t = kids(n)[1]
        stmts = [s for s in (kids(t) if t is not None and t["k"] == "CompoundStmt" else [t]) if s is not None]
        c = binop(kids(n)[0], ("<", ">", "<=", ">="))
        a = binop(stmts[0], ("=",)) if len(stmts) == 1 else None
        if c and a:
            op, l, r = c
            # normalise to  other OP target
            if same_expr(l, a[1]) and same_expr(r, a[2]):
                op = {"<": ">", ">": "<", "<=": ">=", ">=": "<="}[op]
            elif not (same_expr(r, a[1]) and same_expr(l, a[2])):
                return None
            if (which == "min" and op in ("<", "<=")) or (which == "max" and op in (">", ">=")):
                return a[1], a[2]
    return None


def field_delta(n, field):
    """('+'|'-', amount expr or 1) if n changes this->field by an amount: ++f, f++, --f, f += e, f -= e, f = f + e,
    f = e + f, f = f - e"""
    if n is None:
        return None
    u = unop(n, ("++", "--"))
    if u and this_field(u[1]) == field:
        return ("+" if u[0] == "++" else "-"), 1
    b = binop(n, ("+=", "-=")) if n["k"] in ("CompoundAssignOperator", "CXXOperatorCallExpr") else None
    if b and this_field(b[1]) == field:
        return ("+" if b[0] == "+=" else "-"), b[2]
    b = binop(n, ("=",)) if n["k"] in ("BinaryOperator", "CXXOperatorCallExpr") else None
    if b and this_field(b[1]) == field:
        r = binop(strip_conv(b[2]), ("+", "-"))
        if r:
            if this_field(r[1]) == field:
                return r[0], r[2]
            if r[0] == "+" and this_field(r[2]) == field:
                return "+", r[1]
    return None
