"""Sensitivity self-test: every selftest/Cxx/*.patch is applied to a scratch copy
of /repo/tlx (outside /repo, /verif and /tmp); the named rule must fire.  tlx is
never executed - the patched sources are only analysed."""
import concurrent.futures
import glob
import json
import os
import re
import shutil
import subprocess
import sys
import tempfile

from . import ir

VERIF = ir.VERIF


def parse_expect(path):
    exp = []
    for line in open(path):
        if line.startswith("#expect"):
            exp.append(dict(kv.split("=", 1) for kv in line.split()[1:]))
        if line.startswith("diff ") or line.startswith("--- "):
            break
    return exp


def run_variant(pid, patch):
    base = os.environ.get("VERIF_SCRATCH") or "/var/tmp"
    d = tempfile.mkdtemp(prefix="tlxself_", dir=base)
    try:
        shutil.copytree(os.path.join(ir.REPO, "tlx"), os.path.join(d, "tlx"))
        p = subprocess.run(["patch", "-p1", "-s", "--no-backup-if-mismatch", "-i", patch], cwd=d,
                           capture_output=True, text=True)
        if p.returncode != 0:
            return dict(patch=patch, status="patch-failed", out=p.stdout + p.stderr)
        env = dict(os.environ, TLX_REPO=d, VERIF_OUT=os.path.join(d, "_out"), VERIF_TIER="quick")
        env.pop("VERIF_RECORD_KNOWN", None)      # the reference names come from the reference tree only, never from a variant
        env.pop("VERIF_VERBOSE", None)
        q = subprocess.run([os.path.join(VERIF, "check"), pid], capture_output=True, text=True, env=env)
        viol = []
        for f in glob.glob(os.path.join(d, "_out", "out", pid, "*.json")):
            viol.append(json.load(open(f)))
        return dict(patch=patch, status="ran", rc=q.returncode, violations=viol, out=q.stdout[-2000:])
    finally:
        shutil.rmtree(d, ignore_errors=True)


def run_for(pid, verbose=True):
    patches = sorted(glob.glob(os.path.join(VERIF, "selftest", pid, "*.patch")))
    if not patches:
        print("selftest %s: no variants" % pid)
        return 0
    results = []
    with concurrent.futures.ThreadPoolExecutor(max_workers=8) as ex:
        futs = {ex.submit(run_variant, pid, p): p for p in patches}
        for f in concurrent.futures.as_completed(futs):
            results.append(f.result())
    results.sort(key=lambda r: r["patch"])
    bad = 0
    detected = 0
    summary = []
    for r in results:
        name = os.path.basename(r["patch"])
        exp = parse_expect(r["patch"])
        if r["status"] != "ran":
            print("selftest %s %s: PATCH DOES NOT APPLY (variant stale)\n%s" % (pid, name, r.get("out", "")))
            bad += 1
            continue
        silent = any(e.get("silent") for e in exp)
        if silent:
            okv = r["rc"] == 0
            print("selftest %s %s: %s (behaviour-preserving variant must stay silent)" % (pid, name, "ok" if okv else "FALSE ALARM"))
            if not okv:
                print(r["out"])
                bad += 1
            summary.append(dict(variant=name, kind="silent", ok=okv))
            continue
        hit = True
        for e in exp:
            m = [v for v in r["violations"] if v["rule"] == e.get("rule") and
                 ("fn" not in e or e["fn"] in v["fn"]) and ("sig" not in e or e["sig"] in v["sig"])]
            if not m:
                hit = False
        if not exp:
            hit = r["rc"] == 1
        if hit and r["rc"] == 1:
            detected += 1
            print("selftest %s %s: detected (%s)" % (pid, name, ", ".join(sorted(set(v["rule"] for v in r["violations"])))))
        else:
            bad += 1
            print("selftest %s %s: MISSED (rc=%s, expected %s)\n%s" % (pid, name, r["rc"], exp, r["out"]))
        summary.append(dict(variant=name, kind="break", ok=hit, rules=sorted(set(v["rule"] for v in r["violations"]))))
    evp = os.path.join(os.environ.get("VERIF_OUT", VERIF), "evidence", pid + ".json")
    if os.path.exists(evp):
        ev = json.load(open(evp))
        ev["coverage"]["selftest_variants"] = len(results)
        ev["coverage"]["selftest_detected"] = detected
        ev["coverage"]["selftest"] = summary
        json.dump(ev, open(evp, "w"), indent=1)
    print("selftest %s: %d variants, %d breaking variants detected, %d problems" % (pid, len(results), detected, bad))
    return 2 if bad else 0


def main(args):
    pids = args or sorted(os.path.basename(p) for p in glob.glob(os.path.join(VERIF, "selftest", "C*")))
    rc = 0
    for pid in pids:
        rc = max(rc, run_for(pid))
    return rc
