"""Abstract executor for straight-line node-array code (the B+ tree rebalancing primitives and the
insertion fragments): integers are concrete and small, array *elements* are opaque labels.  The
executor interprets the instantiated AST (assignments, slotuse arithmetic, std::copy / copy_backward
with their element order, key() accessors, out-parameters) on a model heap of nodes with labelled slot
arrays; it never runs tlx code.  Every array access is bounds-checked against the node capacity."""
from .ir import kids, strip_casts, const_int, ref_of, AnalysisBroken
from . import match, dtable


class Problem(Exception):
    pass


class _Return(Exception):
    def __init__(self, v):
        self.v = v


class _Break(Exception):
    pass


class _Continue(Exception):
    pass


class Node:
    def __init__(self, name, kind, cap, fill, level=0):
        self.name = name
        self.kind = kind                     # 'leaf' | 'inner'
        self.cap = cap
        self.slotuse = fill
        self.level = level
        self.next_leaf = None
        self.prev_leaf = None
        if kind == "leaf":
            self.slotdata = [(name, "d", i) if i < fill else ("junk", name, "d", i) for i in range(cap)]
        else:
            self.slotkey = [(name, "k", i) if i < fill else ("junk", name, "k", i) for i in range(cap)]
            self.childid = [(name, "c", i) if i <= fill else ("junk", name, "c", i) for i in range(cap + 1)]

    def arr(self, field):
        return getattr(self, field)

    def __repr__(self):
        return "<%s %s/%d>" % (self.name, self.slotuse, self.cap)


class ArrPtr:
    def __init__(self, node, field, off):
        self.node, self.field, self.off = node, field, off


class OutPtr:
    def __init__(self, name):
        self.name = name


class ListPtr:
    """pointer into a temporary array made by new[]: the array and an element offset (one past the end may be held,
    not dereferenced)"""
    def __init__(self, lst, off):
        self.lst, self.off = lst, off

    def elem(self, idx, e):
        i = self.off + idx
        if not isinstance(idx, int) or i < 0 or i >= len(self.lst):
            raise Problem("index %s outside the temporary array of %d elements at line %s" % (i, len(self.lst), e.get("l")))
        return i


def is_junk(label):
    return isinstance(label, tuple) and label and label[0] == "junk"


def keyof(label):
    """key of a leaf entry"""
    return ("key", label)


class Exec:
    def __init__(self, fn, caps, tu=None, stubs=None, inline=()):
        self.fn = fn
        self.caps = caps                 # {'leaf': n, 'inner': m}
        self.tu = tu
        self.stubs = stubs or {}         # callee name -> python function(exec, call node) -> value
        self.inline = set(inline)        # callee names whose bodies are executed
        self.refs = {}                   # reference locals: declaration id -> lvalue
        self.env = {}
        self.this = {}
        self.out = {}
        self.new_nodes = []
        self.steps = 0

    # ---- helpers -------------------------------------------------------------
    def check_index(self, node, field, idx, e):
        n = len(node.arr(field))
        if not isinstance(idx, int) or idx < 0 or idx >= n:
            raise Problem("%s->%s[%s] is outside the array of %d elements (line %s: %s)"
                          % (node.name, field, idx, n, e.get("l"), dtable.describe(e)[:80]))

    UBITS = {"unsigned char": 8, "uint8_t": 8, "std::uint8_t": 8, "unsigned short": 16, "uint16_t": 16, "std::uint16_t": 16,
             "unsigned int": 32, "unsigned": 32, "uint32_t": 32, "std::uint32_t": 32, "unsigned long": 64, "size_t": 64, "std::size_t": 64,
             "unsigned long long": 64, "uint64_t": 64, "std::uint64_t": 64, "size_type": 64}

    def ubits(self, ty):
        t = (ty or "").replace("const ", "").replace("volatile ", "").strip()
        return self.UBITS.get(t)

    def uint(self, v, e, ty=None):
        """a value of the type of e (or ty): unsigned types wrap as in C++ (well defined; whether the wrapped value does
        harm shows at the access that uses it), other types keep the mathematical value"""
        if isinstance(v, int) and not isinstance(v, bool):
            b = self.ubits(ty if ty is not None else e.get("ty"))
            if b is not None:
                return v % (1 << b)
        return v

    # ---- lvalues -----------------------------------------------------------------
    def lv(self, e):
        e = strip_casts(e)
        k = e["k"]
        if k == "ParenExpr":
            return self.lv(kids(e)[0])
        if k == "DeclRefExpr":
            if e["ref"]["id"] in self.refs:
                return self.refs[e["ref"]["id"]]
            return ("var", e["ref"]["id"], e["ref"]["name"])
        if k == "ArraySubscriptExpr":
            base, idx = self.ev(kids(e)[0]), self.ev(kids(e)[1])
            if isinstance(base, ListPtr):
                return ("listelem", base.lst, base.elem(idx, e))
            if not isinstance(base, ArrPtr):
                raise AnalysisBroken("subscript of a non-array at line %s" % e.get("l"))
            i = base.off + idx
            self.check_index(base.node, base.field, i, e)
            return ("elem", base.node, base.field, i)
        if k == "MemberExpr":
            b = strip_casts(kids(e)[0]) if kids(e) else None
            if b is not None and b["k"] == "This":
                return ("this", e["member"])
            obj = self.ev(kids(e)[0])
            if isinstance(obj, Node):
                return ("field", obj, e["member"])
            if isinstance(obj, dict):
                return ("dict", obj, e["member"])
            if isinstance(obj, ListPtr):              # p->member of a pointer into a temporary array
                return ("dict", obj.lst[obj.elem(0, e)], e["member"])
            if isinstance(obj, tuple) and obj and obj[0] == "result":
                return ("result", obj, e["member"])
            if obj is None:
                raise Problem("null pointer dereferenced at line %s: %s" % (e.get("l"), dtable.describe(e)))
            raise AnalysisBroken("member of a non-node at line %s: %s" % (e.get("l"), dtable.describe(e)))
        if k == "UnaryOperator" and e.get("op") == "*":
            p = self.ev(kids(e)[0])
            if isinstance(p, OutPtr):
                return ("out", p.name)
            if isinstance(p, tuple) and p and p[0] == "lvptr":
                return p[1]
            if isinstance(p, ArrPtr):
                self.check_index(p.node, p.field, p.off, e)
                return ("elem", p.node, p.field, p.off)
            if isinstance(p, ListPtr):
                return ("listelem", p.lst, p.elem(0, e))
            raise AnalysisBroken("dereference not understood at line %s" % e.get("l"))
        raise AnalysisBroken("lvalue not understood at line %s: %s" % (e.get("l"), dtable.describe(e)))

    def lv_of_ptr(self, p):
        if isinstance(p, OutPtr):
            return ("out", p.name)
        if isinstance(p, tuple) and p and p[0] == "lvptr":
            return p[1]
        raise AnalysisBroken("not a pointer to an lvalue")

    def load(self, l, e=None):
        if l[0] == "var":
            if l[1] not in self.env:
                raise AnalysisBroken("read of an unbound variable %s" % l[2])
            return self.env[l[1]]
        if l[0] == "envvar":
            if l[2] not in l[1]:
                raise AnalysisBroken("read of an unbound variable %s" % l[3])
            return l[1][l[2]]
        if l[0] == "elem":
            return l[1].arr(l[2])[l[3]]
        if l[0] == "field":
            f = l[2]
            if f in ("slotkey", "childid", "slotdata"):
                return ArrPtr(l[1], f, 0)
            return getattr(l[1], f)
        if l[0] == "this":
            return self.this.get(l[1])
        if l[0] == "out":
            return self.out.get(l[1])
        if l[0] == "dict":
            return l[1][l[2]]
        if l[0] == "listelem":
            return l[1][l[2]]
        if l[0] == "result":
            return {"flags": ("flag", l[1][1]), "lastkey": l[1][2]}[l[2]]
        raise AnalysisBroken("load")

    def store(self, l, v):
        if l[0] == "var":
            self.env[l[1]] = v
        elif l[0] == "envvar":
            l[1][l[2]] = v
        elif l[0] == "elem":
            l[1].arr(l[2])[l[3]] = v
        elif l[0] == "field":
            setattr(l[1], l[2], v)
        elif l[0] == "this":
            self.this[l[1]] = v
        elif l[0] == "out":
            self.out[l[1]] = v
        elif l[0] == "dict":
            l[1][l[2]] = v
        elif l[0] == "listelem":
            l[1][l[2]] = v

    # ---- expressions ---------------------------------------------------------------
    def ev(self, e):
        v = self.ev_inner(e)
        if isinstance(v, int) and not isinstance(v, bool) and e is not None and \
                e["k"] in ("ImplicitCastExpr", "CStyleCastExpr", "CXXStaticCastExpr", "CXXFunctionalCastExpr"):
            return self.uint(v, e)          # conversion to an unsigned type wraps
        return v

    def ev_inner(self, e):
        self.steps += 1
        if self.steps > 2000000:
            raise AnalysisBroken("abstract execution does not terminate")
        e0 = e
        e = strip_casts(e)
        if e is None:
            return None
        k = e["k"]
        if k not in ("DeclRefExpr", "MemberExpr"):
            c = const_int(e)
            if c is not None:
                return c
        if k == "DeclRefExpr":
            d = e["ref"]["id"]
            if d in self.refs:
                return self.load(self.refs[d], e)
            if d in self.env:
                return self.env[d]
            if e["ref"].get("kind") == "enumconst" and e["ref"]["name"].startswith("btree_"):
                return ("flag", e["ref"]["name"])
            c = const_int(e)
            if c is not None:
                return c
            raise AnalysisBroken("unbound %s at line %s" % (e["ref"]["name"], e.get("l")))
        if k in ("NullPtr", "CXXNullPtrLiteralExpr", "GNUNullExpr"):
            return None
        if k == "This":
            return ("thisobj",)
        if k == "ParenExpr":
            return self.ev(kids(e)[0])
        if k in ("MemberExpr", "ArraySubscriptExpr"):
            return self.load(self.lv(e), e)
        if k == "UnaryOperator":
            op = e.get("op")
            if op in ("++", "--"):
                l = self.lv(kids(e)[0])
                old = self.load(l)
                if isinstance(old, ArrPtr):
                    new = ArrPtr(old.node, old.field, old.off + (1 if op == "++" else -1))
                    self.store(l, new)
                    return old if e.get("postfix") else new
                if isinstance(old, ListPtr):
                    new = ListPtr(old.lst, old.off + (1 if op == "++" else -1))
                    self.store(l, new)
                    return old if e.get("postfix") else new
                if not isinstance(old, int) or isinstance(old, bool):
                    raise AnalysisBroken("%s of a non-integer at line %s: %s" % (op, e.get("l"), dtable.describe(e)[:80]))
                new = old + (1 if op == "++" else -1)
                new = self.uint(new, e, kids(e)[0].get("ty"))
                self.store(l, new)
                return old if e.get("postfix") else new
            if op == "*" and strip_casts(kids(e)[0])["k"] == "This":
                return ("thisobj",)
            if op == "*":
                inner = strip_casts(kids(e)[0])
                if inner["k"] != "DeclRefExpr" or not isinstance(self.env.get(inner["ref"]["id"]), (ArrPtr, OutPtr)):
                    p = self.ev(kids(e)[0])
                    if isinstance(p, tuple) and p and p[0] == "valptr":
                        return p[1]
                    if isinstance(p, ArrPtr):
                        self.check_index(p.node, p.field, p.off, e)
                        return p.node.arr(p.field)[p.off]
                    if isinstance(p, tuple) and p and p[0] == "lvptr":
                        return self.load(p[1])
                    if isinstance(p, OutPtr):
                        return self.out.get(p.name)
                    if isinstance(p, ListPtr):
                        return p.lst[p.elem(0, e)]
                    raise AnalysisBroken("dereference not understood at line %s" % e.get("l"))
                return self.load(self.lv(e), e)
            if op == "&":
                operand = strip_casts(kids(e)[0])
                if "callee" in operand:
                    return ("valptr", self.ev(operand))
                return ("lvptr", self.lv(kids(e)[0]))
            v = self.ev(kids(e)[0])
            if op == "!":
                return not self.truth(v)
            if op == "-":
                return -v
            raise AnalysisBroken("unary %s" % op)
        if k == "BinaryOperator":
            op = e["op"]
            if op == "=":
                v = self.ev(kids(e)[1])
                self.store(self.lv(kids(e)[0]), v)
                return v
            if op == "&&":
                return self.truth(self.ev(kids(e)[0])) and self.truth(self.ev(kids(e)[1]))
            if op == "||":
                return self.truth(self.ev(kids(e)[0])) or self.truth(self.ev(kids(e)[1]))
            if op == ",":
                self.ev(kids(e)[0])
                return self.ev(kids(e)[1])
            a, b = self.ev(kids(e)[0]), self.ev(kids(e)[1])
            return self.arith(op, a, b, e)
        if k == "CompoundAssignOperator":
            l = self.lv(kids(e)[0])
            a, b = self.load(l), self.ev(kids(e)[1])
            v = self.arith(e["op"][:-1], a, b, e)
            self.store(l, v)
            return v
        if k == "ConditionalOperator":
            c, a, b = kids(e)
            return self.ev(a) if self.truth(self.ev(c)) else self.ev(b)
        if k in ("CXXConstructExpr", "CXXTemporaryObjectExpr", "CXXFunctionalCastExpr"):
            args = [a for a in kids(e) if a is not None and a["k"] != "DefaultArg"]
            rec = (e.get("callee") or {}).get("record") or e.get("ty") or ""
            if "result_t" in rec:
                vals = [self.ev(a) for a in args]
                if len(vals) == 1 and isinstance(vals[0], tuple) and vals[0] and vals[0][0] == "result":
                    return vals[0]
                return ("result", vals[0][1] if vals and isinstance(vals[0], tuple) else "btree_ok", vals[1] if len(vals) > 1 else None)
            if len(args) == 1:
                return self.ev(args[0])
            if not args:
                return ("default",)
            return ("obj", rec, [self.ev(a) for a in args])
        if k == "CXXScalarValueInitExpr":
            return 0
        if k == "LambdaExpr":
            # a closure: the call operator plus what it captured (references name the variables, copies are taken now)
            if "fn" not in e:
                raise AnalysisBroken("generic lambda at line %s not modelled" % e.get("l"))
            caps = {}
            for c in e.get("captures") or []:
                if c.get("name") == "this" and "id" not in c:
                    if not c.get("byref"):
                        raise AnalysisBroken("lambda with a copy of *this at line %s" % e.get("l"))
                    continue
                if "id" not in c:
                    raise AnalysisBroken("lambda capture not understood at line %s" % e.get("l"))
                d = c["id"]
                if c.get("byref"):
                    caps[d] = ("ref", self.refs[d] if d in self.refs else ("envvar", self.env, d, c.get("name")))
                elif d in self.refs:
                    caps[d] = ("val", self.load(self.refs[d], e))
                elif d in self.env:
                    caps[d] = ("val", self.env[d])
                else:
                    raise AnalysisBroken("lambda captures the unbound variable %s at line %s" % (c.get("name"), e.get("l")))
            return ("closure", e["fn"], caps)
        if k == "CXXNewExpr" and e.get("array"):
            n = self.ev(kids(e)[0]) if kids(e) else 0
            if not isinstance(n, int) or n < 0 or n > 100000:
                raise Problem("new[] of %s elements at line %s" % (n, e.get("l")))
            return ListPtr([dict(first=None, second=None) for _ in range(n)], 0)
        if k == "CXXDeleteExpr":
            return None
        if "callee" in e:
            return self.call(e)
        raise AnalysisBroken("expression not understood at line %s: %s (%s)" % (e.get("l"), dtable.describe(e)[:80], k))

    def truth(self, v):
        if isinstance(v, bool):
            return v
        if isinstance(v, int):
            return v != 0
        return v is not None

    def arith(self, op, a, b, e):
        if isinstance(a, ArrPtr) and isinstance(b, int) and op in ("+", "-"):
            return ArrPtr(a.node, a.field, a.off + (b if op == "+" else -b))
        if isinstance(b, ArrPtr) and isinstance(a, int) and op == "+":
            return ArrPtr(b.node, b.field, b.off + a)
        if isinstance(a, ArrPtr) and isinstance(b, ArrPtr) and a.node is b.node and a.field == b.field and op in ("-", "==", "!=", "<", "<=", ">", ">="):
            return self.arith(op, a.off, b.off, e)
        if isinstance(a, ListPtr) and isinstance(b, int) and not isinstance(b, bool) and op in ("+", "-"):
            return ListPtr(a.lst, a.off + (b if op == "+" else -b))
        if isinstance(b, ListPtr) and isinstance(a, int) and not isinstance(a, bool) and op == "+":
            return ListPtr(b.lst, b.off + a)
        if isinstance(a, ListPtr) and isinstance(b, ListPtr) and a.lst is b.lst and op in ("-", "==", "!=", "<", "<=", ">", ">="):
            return self.arith(op, a.off, b.off, e)
        if isinstance(a, ListPtr) or isinstance(b, ListPtr):
            if op in ("==", "!=") and (a is None or b is None):
                return op == "!="
            raise AnalysisBroken("pointer arithmetic not understood at line %s: %s" % (e.get("l"), dtable.describe(e)[:80]))
        if op in ("==", "!="):
            if isinstance(a, (Node, type(None))) or isinstance(b, (Node, type(None))):
                r = a is b
            else:
                r = a == b
            return r if op == "==" else not r
        if not isinstance(a, int) or not isinstance(b, int):
            raise AnalysisBroken("arithmetic on non-integers at line %s: %s" % (e.get("l"), dtable.describe(e)[:80]))
        if op == "+":
            return a + b
        if op == "-":
            return self.uint(a - b, e)
        if op == "*":
            return a * b
        if op == "/":
            return a // b
        if op == "%":
            return a % b
        if op == ">>":
            return a >> b
        if op == "<<":
            return a << b
        if op == "<":
            return a < b
        if op == "<=":
            return a <= b
        if op == ">":
            return a > b
        if op == ">=":
            return a >= b
        if op == "|":
            return a | b
        if op == "&":
            return a & b
        raise AnalysisBroken("operator %s" % op)

    def call(self, e):
        name = e["callee"]["name"]
        args = kids(e)
        if name in self.stubs:
            r = self.stubs[name](self, e)
            if r is not NotImplemented:
                return r
        if name == "operator()" and args and self.tu is not None:
            a0 = strip_casts(args[0])
            clo = self.env.get(a0["ref"]["id"]) if a0 is not None and a0["k"] == "DeclRefExpr" and a0["ref"]["id"] not in self.refs else None
            if isinstance(clo, tuple) and len(clo) == 3 and clo[0] == "closure":
                return self._call_closure(clo, args[1:], e)
        if name in self.inline and self.tu is not None:
            callee = self.tu.by_did.get(e["callee"]["did"])
            if callee is None or callee.body is None:
                raise AnalysisBroken("body of %s not available" % name)
            return self._inline(callee, args[1:] if e.get("member_call") else args)
        if name == "copy_n" and len(args) == 3:
            first, n_, dest = (self.ev(a) for a in args)
            if isinstance(first, ArrPtr) and isinstance(n_, int):
                e = dict(e)
                name = "copy"
                # same as std::copy(first, first + n, dest)
                last = ArrPtr(first.node, first.field, first.off + n_)
                return self._copy(name, first, last, dest, e)
        if name in ("copy", "copy_backward", "move", "move_backward") and len(args) == 3:
            first, last, dest = (self.ev(a) for a in args)
            return self._copy(name, first, last, dest, e)
        return self.call_rest(e, name, args)

    def _copy(self, name, first, last, dest, e):
        if True:
            if not all(isinstance(x, ArrPtr) for x in (first, last, dest)) or first.node is not last.node or first.field != last.field:
                raise AnalysisBroken("std::%s on something that is not a node array at line %s" % (name, e.get("l")))
            n = last.off - first.off
            if n < 0:
                raise Problem("std::%s with a negative range [%d, %d) of %s->%s at line %s"
                              % (name, first.off, last.off, first.node.name, first.field, e.get("l")))
            src, dst = first.node.arr(first.field), dest.node.arr(dest.field)
            if name in ("copy", "move"):
                for i in range(n):
                    self.check_index(first.node, first.field, first.off + i, e)
                    self.check_index(dest.node, dest.field, dest.off + i, e)
                    dst[dest.off + i] = src[first.off + i]
                return ArrPtr(dest.node, dest.field, dest.off + n)
            for i in range(n):
                si, di = last.off - 1 - i, dest.off - 1 - i
                self.check_index(first.node, first.field, si, e)
                self.check_index(dest.node, dest.field, di, e)
                dst[di] = src[si]
            return ArrPtr(dest.node, dest.field, dest.off - n)
    def call_rest(self, e, name, args):
        if name == "key" and e.get("member_call"):
            obj = self.ev(args[0])
            idx = self.ev(args[1])
            if not isinstance(obj, Node):
                raise AnalysisBroken("key() on a non-node")
            fld = "slotdata" if obj.kind == "leaf" else "slotkey"
            self.check_index(obj, fld, idx, e)
            v = obj.arr(fld)[idx]
            return keyof(v) if obj.kind == "leaf" else v
        if name in ("allocate_leaf", "allocate_inner"):
            kind = "leaf" if name == "allocate_leaf" else "inner"
            lvl = self.ev(args[1]) if kind == "inner" and len(args) > 1 else 0
            n = Node("new%d" % (len(self.new_nodes) + 1), kind, self.caps[kind], 0, lvl if isinstance(lvl, int) else 0)
            self.new_nodes.append(n)
            return n
        if name == "is_full" and e.get("member_call"):
            obj = self.ev(args[0])
            return obj.slotuse == obj.cap
        if name == "is_leafnode" and e.get("member_call"):
            return self.ev(args[0]).kind == "leaf"
        if name == "set_slot" and e.get("member_call"):
            obj, idx, v = self.ev(args[0]), self.ev(args[1]), self.ev(args[2])
            self.check_index(obj, "slotdata", idx, e)
            obj.slotdata[idx] = v
            return None
        if name in ("operator-", "operator==", "operator!=", "operator<") and len(args) == 2:
            a, b = self.ev(args[0]), self.ev(args[1])
            if isinstance(a, ArrPtr):
                return self.arith(name[8:], a, b, e)
        if name in ("operator++", "operator--") and args:
            l = self.lv(args[0])
            old = self.load(l)
            if isinstance(old, ArrPtr):
                new = ArrPtr(old.node, old.field, old.off + (1 if name == "operator++" else -1))
                self.store(l, new)
                return old if len(args) == 2 else new
        if name == "operator*" and len(args) == 1:
            p = self.ev(args[0])
            if isinstance(p, ArrPtr):
                self.check_index(p.node, p.field, p.off, e)
                return p.node.arr(p.field)[p.off]
        if name in ("operator|=",) and len(args) == 2:
            l = self.lv(args[0])
            a, b = self.load(l), self.ev(args[1])
            v = ("result", "|".join(sorted(set(str(a[1]).split("|") + str(b[1]).split("|")) - {"btree_ok"})) or "btree_ok",
                 b[2] if "btree_update_lastkey" in str(b[1]) else a[2])
            self.store(l, v)
            return v
        if name == "operator=" and len(args) == 2:
            v = self.ev(args[1])
            self.store(self.lv(args[0]), v)
            return v
        if name == "get" and len(args) == 1:        # key_of_value::get(value)
            return keyof(self.ev(args[0]))
        if name == "make_pair" and len(args) == 2:
            return ("obj", "std::pair", [self.ev(a) for a in args])
        # a private helper of the same class that the rule did not name: execute its body (by-value and pointer
        # parameters only, no recursion)
        if self.tu is not None and e.get("member_call") and args and strip_casts(args[0])["k"] == "This" and \
                name != self.fn.name and self._depth < 4:
            callee = self.tu.by_did.get(e["callee"]["did"])
            if callee is not None and callee.body is not None and not any((p.get("ty") or "").rstrip().endswith("&&") for p in callee.params):
                return self._inline(callee, args[1:])
        raise AnalysisBroken("call to %s() at line %s not modelled" % (name, e.get("l")))

    _depth = 0

    @staticmethod
    def _mutable_ref(ty):
        """T& with T not const-qualified at top level (`const node*&` is a mutable reference to a pointer)"""
        ty = (ty or "").rstrip()
        if not ty.endswith("&") or ty.endswith("&&"):
            return False
        base = ty[:-1].rstrip()
        return not (base.endswith("const") or ("*" not in base and base.startswith("const ")))

    def _call_closure(self, clo, actual, e):
        """call of a local lambda: its body runs with the parameters, the by-reference captures naming the captured
        variables and the by-value captures holding the copies taken when the closure was made"""
        callee = self.tu.by_did.get(clo[1])
        if callee is None or callee.body is None or e["callee"].get("did") != clo[1]:
            raise AnalysisBroken("body of the lambda called at line %s not available" % e.get("l"))
        if self._depth >= 6:
            raise AnalysisBroken("lambda calls nested too deeply at line %s" % e.get("l"))
        refs = {d: c[1] for d, c in clo[2].items() if c[0] == "ref"}
        vals = {d: c[1] for d, c in clo[2].items() if c[0] == "val"}
        return self._inline(callee, actual, extra_refs=refs, extra_vals=vals)

    def _inline(self, callee, actual, extra_refs=None, extra_vals=None):
        if len(actual) != len(callee.params) or any(a is None or a["k"] == "DefaultArg" for a in actual):
            raise AnalysisBroken("call to %s() with default or variadic arguments not modelled" % callee.name)
        saved = self.env
        bound, env = dict(extra_refs or {}), dict(extra_vals or {})
        for p, a in zip(callee.params, actual):
            if self._mutable_ref(p.get("ty")):
                l = self.lv(a)                      # the parameter names the caller's object
                if l[0] == "var":
                    l = ("envvar", saved, l[1], l[2])
                bound[p["did"]] = l
            else:
                env[p["did"]] = self.ev(a)
        saved_refs = {d: self.refs.get(d) for d in bound}
        self.env = env
        self.refs.update(bound)
        self._depth += 1
        try:
            try:
                for st in kids(callee.body):
                    self.stmt(st)
                ret = None
            except _Return as r:
                ret = r.v
            # a copy captured by a non-mutable lambda is const; a mutable lambda would keep the change for its next call
            for d, v0 in (extra_vals or {}).items():
                if env.get(d) is not v0 and env.get(d) != v0:
                    raise AnalysisBroken("%s() changes a by-value capture" % callee.name)
        finally:
            self.env = saved
            self._depth -= 1
            for d, old in saved_refs.items():
                if old is None:
                    self.refs.pop(d, None)
                else:
                    self.refs[d] = old
        return ret

    # ---- statements -------------------------------------------------------------------
    def declare(self, v):
        """one declarator of a DeclStmt / the condition variable of an if"""
        if kids(v) and kids(v)[0] is not None and (v.get("isref") or (v.get("ty") or "").rstrip().endswith("&")) and \
                not (v.get("ty") or "").startswith("const ") and strip_casts(kids(v)[0]).get("lv", True) and \
                strip_casts(kids(v)[0])["k"] in ("ArraySubscriptExpr", "MemberExpr", "UnaryOperator", "DeclRefExpr"):
            self.refs[v["did"]] = self.lv(kids(v)[0])          # a reference local names the object
        elif kids(v) and kids(v)[0] is not None:
            self.env[v["did"]] = self.ev(kids(v)[0])
        else:
            self.env[v["did"]] = ("uninit", v.get("name"))

    def stmt(self, s):
        if s is None:
            return
        k = s["k"]
        if k == "CompoundStmt":
            for c in kids(s):
                self.stmt(c)
        elif k == "DeclStmt":
            for v in kids(s):
                self.declare(v)
        elif k == "IfStmt":
            c, t, e = kids(s)
            # if (init; cond) and if (T x = e): the init statement runs first, then the condition variable is declared
            # (both are in scope in either branch); the condition proper is the converted value of the variable
            if isinstance(s.get("init"), dict):
                self.stmt(s["init"])
            elif "init" in s:
                raise AnalysisBroken("if with an init statement that is not available at line %s" % s.get("l"))
            if isinstance(s.get("condvar"), dict):
                if s["condvar"].get("k") != "VarDecl":
                    raise AnalysisBroken("condition variable not understood at line %s" % s.get("l"))
                self.declare(s["condvar"])
            elif "condvar" in s:
                raise AnalysisBroken("if with a condition variable that is not available at line %s" % s.get("l"))
            if self.truth(self.ev(c)):
                self.stmt(t)
            else:
                self.stmt(e)
        elif k == "ReturnStmt":
            raise _Return(self.ev(kids(s)[0]) if kids(s) else None)
        elif k == "DoStmt":
            body, cond = kids(s)
            self.stmt(body)
            if self.truth(self.ev(cond)):
                raise AnalysisBroken("do-while loop with a live condition at line %s" % s.get("l"))
        elif k == "WhileStmt":
            cond, body = kids(s)
            for _ in range(256):
                if not self.truth(self.ev(cond)):
                    break
                try:
                    self.stmt(body)
                except _Break:
                    break
                except _Continue:
                    continue
            else:
                raise AnalysisBroken("loop at line %s does not terminate in the model" % s.get("l"))
        elif k == "BreakStmt":
            raise _Break()
        elif k == "ContinueStmt":
            raise _Continue()
        elif k == "ForStmt":
            init, cond, inc, body = kids(s)
            self.stmt(init)
            for _ in range(100000):
                if cond is not None and not self.truth(self.ev(cond)):
                    break
                try:
                    self.stmt(body)
                except _Break:
                    break
                except _Continue:
                    pass
                if inc is not None:
                    self.ev(inc)
            else:
                raise AnalysisBroken("loop at line %s does not terminate in the model" % s.get("l"))
        elif k == "NullStmt":
            pass
        elif k in ("CStyleCastExpr",):
            self.ev(s)
        else:
            self.ev(s)

    def run(self, stmts):
        try:
            for s in stmts:
                self.stmt(s)
        except _Return as r:
            return r.v
        return None
