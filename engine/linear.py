"""Engine: integer comparisons as canonical linear forms.

`Lin(fn).atom(cond, truth)` turns a comparison that is taken with the given truth value into `form >= 0`, where form is
(frozenset of (term, coefficient), constant) over the integers (a < b  ==  b - a - 1 >= 0).  Terms are the printed
non-linear leaves (a[i], seqlen[i], n).  A local that is defined once by a linear initialiser is replaced by it when no
operand of the initialiser can change between the definition and the use (checked on the CFG), so `step = n + 1;
... b[i] -= step` and `b[i] -= n + 1` read the same.  `implies(g, r)`: g >= 0 entails r >= 0 (same variable part,
constant not smaller); `same(g, r)`: identical."""
from . import match, dtable
from .ir import kids, strip_casts, const_int, ref_of, walk


class Lin:
    def __init__(self, fn, g=None):
        self.fn = fn
        self.g = g
        self.decls = {v["did"]: v for v in fn.nodes() if v["k"] == "VarDecl" and v.get("did") is not None}
        self.writes = {}         # did -> [write nodes] (assignments, compound assignments, ++/--)
        for z in fn.nodes():
            w = match.unop(z, ("++", "--")) or (match.binop(z, ("=", "+=", "-=", "*=", "/=", "%=", ">>=", "<<="))
                                                if z["k"] in ("BinaryOperator", "CompoundAssignOperator") else None)
            if w:
                t = w[1]
                ip = match.index_parts(t)
                d = ref_of(ip[0]) if ip else ref_of(t)
                if d is not None:
                    self.writes.setdefault(d, []).append(z)

    # ------------------------------------------------------------------
    def stable(self, decl, use, depth=0):
        """no operand of decl's initialiser is written on a path decl -> write -> use that does not pass decl again"""
        if self.g is None:
            return False
        pd, pu = self.g.pos_deep(decl), self.g.pos_deep(use)
        if pd is None or pu is None:
            return False
        init = kids(decl)[0]
        for y in walk(init):
            if y["k"] == "DeclRefExpr":
                for w in self.writes.get(y["ref"]["id"], []):
                    pw = self.g.pos_deep(w)
                    if pw is None:
                        return False
                    if self.g.path_between_avoiding(pd, pw, [pd]) is not None and self.g.path_between_avoiding(pw, pu, [pd]) is not None:
                        return False
        return True

    def form(self, e, use=None, depth=0):
        """-> (dict term -> coeff, const)"""
        e = match.strip_conv(e)
        while e is not None and e["k"] in ("ParenExpr", "CXXStaticCastExpr", "CStyleCastExpr", "CXXFunctionalCastExpr", "ExprWithCleanups",
                                           "MaterializeTemporaryExpr", "ConstantExpr"):
            e = match.strip_conv(kids(e)[0])
        if e is None:
            return None
        c = const_int(e)
        if c is not None:
            return {}, c
        if e["k"] == "UnaryOperator" and e.get("op") in ("-", "+"):
            f = self.form(kids(e)[0], use, depth)
            if f is None:
                return None
            return ({t: -k for t, k in f[0].items()}, -f[1]) if e["op"] == "-" else f
        b = match.binop(e, ("+", "-", "*")) if e["k"] == "BinaryOperator" else None
        if b:
            l, r = self.form(b[1], use, depth), self.form(b[2], use, depth)
            if l is None or r is None:
                return None
            if b[0] == "*":
                if not l[0]:
                    l, r = r, l
                if r[0]:
                    return {dtable.describe(e): 1}, 0
                return {t: k * r[1] for t, k in l[0].items() if k * r[1]}, l[1] * r[1]
            sg = 1 if b[0] == "+" else -1
            out = dict(l[0])
            for t, k in r[0].items():
                out[t] = out.get(t, 0) + sg * k
            return {t: k for t, k in out.items() if k}, l[1] + sg * r[1]
        d = ref_of(e)
        if d is not None and d in self.decls and depth < 4 and use is not None:
            v = self.decls[d]
            if kids(v) and kids(v)[0] is not None and d not in self.writes and not (v.get("ty") or "").rstrip().endswith("&") \
                    and "*" not in (v.get("ty") or ""):
                f = self.form(kids(v)[0], v, depth + 1) if True else None
                if f is not None and self._linear_init(kids(v)[0]) and self.stable(v, use):
                    return f
        return {self.term(e, use): 1}, 0

    def _linear_init(self, e):
        """the initialiser is built from +, -, constants, plain operands and argument-less const member calls on
        parameters (sep.size(), str.end()); no other calls, no division"""
        e = match.strip_conv(e)
        for y in walk(e):
            if "callee" in y and y["k"] != "CXXOperatorCallExpr":
                pure = y.get("member_call") and len(kids(y)) == 1 and y["callee"].get("const") and ref_of(kids(y)[0]) is not None and \
                    self.fn.param_index(ref_of(kids(y)[0])) is not None
                if not pure:
                    return False
            if y["k"] == "BinaryOperator" and y.get("op") in ("/", "%", ">>", "<<", "&", "|"):
                return False
        return True

    def term(self, e, use):
        """printed leaf; index expressions inside are themselves normalised"""
        ip = match.index_parts(e)
        if ip:
            f = self.form(ip[1], use)
            return "%s[%s]" % (dtable.describe(ip[0]), show(f) if f is not None else dtable.describe(ip[1]))
        return dtable.describe(e)

    def atom(self, cond, truth, use=None):
        """comparison taken with `truth` -> canonical (terms, const) meaning terms + const >= 0; None if not a comparison.
        == and != give None (not an inequality)."""
        c = strip_casts(cond)
        while c is not None and (c["k"] == "ParenExpr" or (c["k"] == "UnaryOperator" and c.get("op") == "!")):
            if c["k"] == "UnaryOperator":
                truth = not truth
            c = strip_casts(kids(c)[0])
        b = match.binop(c, ("<", ">", "<=", ">="))
        if not b:
            return None
        op, l, r = b
        if not truth:
            op = {"<": ">=", ">": "<=", "<=": ">", ">=": "<"}[op]
        use = use if use is not None else c
        fl, fr = self.form(l, use), self.form(r, use)
        if fl is None or fr is None:
            return None
        if op in ("<", "<="):            # l < r  ==  r - l - 1 >= 0 ;  l <= r == r - l >= 0
            fl, fr = fr, fl
            op = ">" if op == "<" else ">="
        terms = dict(fl[0])
        for t, k in fr[0].items():
            terms[t] = terms.get(t, 0) - k
        const = fl[1] - fr[1] - (1 if op == ">" else 0)
        return canon({t: k for t, k in terms.items() if k}, const)

    def implied(self, cond, truth, use=None, depth=0):
        """canonical inequalities that hold when `cond` is taken with `truth`: conjuncts of &&, disjuncts of a false ||,
        and - for a bool local that has one defining expression whose operands are unchanged since - what that
        expression implies (flag variables)"""
        c = strip_casts(cond)
        while c is not None and (c["k"] == "ParenExpr" or (c["k"] == "UnaryOperator" and c.get("op") == "!")):
            if c["k"] == "UnaryOperator":
                truth = not truth
            c = strip_casts(kids(c)[0])
        if c is None or depth > 4:
            return []
        if c["k"] == "BinaryOperator" and c.get("op") in ("&&", "||"):
            if (c["op"] == "&&") == truth:
                return self.implied(kids(c)[0], truth, use, depth + 1) + self.implied(kids(c)[1], truth, use, depth + 1)
            return []
        d = ref_of(c)
        if d is not None and d in self.decls and (self.decls[d].get("ty") or "").replace("const ", "") == "bool" and truth:
            defs = []
            v = self.decls[d]
            if kids(v) and kids(v)[0] is not None and strip_casts(kids(v)[0])["k"] != "CXXBoolLiteralExpr":
                defs.append((v, kids(v)[0]))
            for w in self.writes.get(d, []):
                b = match.binop(w, ("=",))
                if not b:
                    return []
                if strip_casts(b[2])["k"] != "CXXBoolLiteralExpr":
                    defs.append((w, b[2]))
                elif const_int(b[2]) != 0:
                    return []           # set to true somewhere else: the flag tells nothing
            if len(defs) != 1:
                return []
            node, expr = defs[0]
            u = use if use is not None else c
            if not self._unchanged(node, expr, u, skip=d):
                return []
            return [a for a in self.implied(expr, True, node, depth + 1)]
        a = self.atom(c, truth, use)
        return [a] if a is not None else []

    def _unchanged(self, node, expr, use, skip=None):
        if self.g is None:
            return False
        pd, pu = self.g.pos_deep(node), self.g.pos_deep(use)
        if pd is None or pu is None:
            return False
        for y in walk(expr):
            if y["k"] == "DeclRefExpr" and y["ref"]["id"] != skip:
                for w in self.writes.get(y["ref"]["id"], []):
                    pw = self.g.pos_deep(w)
                    if pw is None:
                        return False
                    if self.g.path_between_avoiding(pd, pw, [pd]) is not None and self.g.path_between_avoiding(pw, pu, [pd]) is not None:
                        return False
        return True

    def opaque(self, cond):
        """the condition is not (a combination of) integer inequalities this engine reads: a flag, a call, a pointer"""
        c = strip_casts(cond)
        while c is not None and (c["k"] == "ParenExpr" or (c["k"] == "UnaryOperator" and c.get("op") == "!")):
            c = strip_casts(kids(c)[0])
        if c is None:
            return True
        if c["k"] == "BinaryOperator" and c.get("op") in ("&&", "||"):
            return self.opaque(kids(c)[0]) or self.opaque(kids(c)[1])
        return match.binop(c, ("<", ">", "<=", ">=", "==", "!=")) is None

    def req(self, big, small, strict, use=None):
        """canonical form of  small < big  (strict) or small <= big"""
        fb, fs = self.form(big, use), self.form(small, use)
        if fb is None or fs is None:
            return None
        terms = dict(fb[0])
        for t, k in fs[0].items():
            terms[t] = terms.get(t, 0) - k
        return canon({t: k for t, k in terms.items() if k}, fb[1] - fs[1] - (1 if strict else 0))


def canon(terms, const):
    return frozenset(terms.items()), const


def implies(g, r):
    """g >= 0 entails r >= 0"""
    return g is not None and r is not None and g[0] == r[0] and g[1] <= r[1]


def same(g, r):
    return g is not None and r is not None and g == r


def show(f):
    if f is None:
        return "?"
    terms, const = f if isinstance(f[0], dict) else (dict(f[0]), f[1])
    parts = []
    for t, k in sorted(terms.items()):
        parts.append(("%s" if k == 1 else "-%s" if k == -1 else "%d*%%s" % k) % t)
    if const or not parts:
        parts.append(str(const))
    return " + ".join(parts).replace("+ -", "- ")
