"""CFG utilities over the clang CFG serialised by tlxir: positions, reachability,
dominance, must-pass-through."""
from .ir import AnalysisBroken


class CFG:
    def __init__(self, fn):
        self.fn = fn
        g = fn.cfg
        if not g:
            raise AnalysisBroken("no CFG for %s" % fn.full)
        self.entry = g["entry"]
        self.exit = g["exit"]
        self.blocks = {b["id"]: b for b in g["blocks"]}
        self.succ = {}
        self.pred = {b: [] for b in self.blocks}
        for bid, b in self.blocks.items():
            ss = [s for s in b.get("succ", []) if s is not None]
            if b.get("noreturn"):
                ss = []
            self.succ[bid] = ss
        for bid, ss in self.succ.items():
            for s in ss:
                self.pred[s].append(bid)
        self._pos = {}
        for bid, b in self.blocks.items():
            for i, e in enumerate(b.get("el", [])):
                if isinstance(e, int):
                    self._pos.setdefault(e, (bid, i))
        self._dom = None
        self._pdom = None

    # ---- positions -----------------------------------------------------------
    def pos(self, node):
        """(block, index) at which the node is evaluated; None if not an element"""
        nid = node["id"] if isinstance(node, dict) else node
        return self._pos.get(nid)

    def pos_deep(self, node):
        """position of the node, or of its last evaluated descendant/ancestor"""
        p = self.pos(node)
        if p is not None:
            return p
        from .ir import walk
        best = None
        for x in walk(node):
            q = self.pos(x)
            if q is not None:
                best = q if best is None or self._later(q, best) else best
        if best is not None:
            return best
        # ascend
        par = self.fn.parent(node)
        while par is not None:
            q = self.pos(par)
            if q is not None:
                return q
            par = self.fn.parent(par)
        return None

    def _later(self, a, b):
        return a[0] == b[0] and a[1] > b[1]

    def elements(self, bid):
        return self.blocks[bid].get("el", [])

    # ---- reachability ----------------------------------------------------------
    def reach_blocks(self, start_blocks):
        seen = set()
        work = list(start_blocks)
        while work:
            b = work.pop()
            if b in seen:
                continue
            seen.add(b)
            work.extend(self.succ[b])
        return seen

    def after(self, p):
        """yield all element positions reachable strictly after position p"""
        bid, i = p
        els = self.elements(bid)
        for j in range(i + 1, len(els)):
            yield (bid, j)
        seen = self.reach_blocks(self.succ[bid])
        for b in seen:
            for j in range(len(self.elements(b))):
                if b == bid and j > i:
                    continue   # already produced
                yield (b, j)

    def element_at(self, p):
        return self.elements(p[0])[p[1]]

    def reachable(self, a, b):
        """position b reachable strictly after a"""
        if a[0] == b[0] and b[1] > a[1]:
            return True
        return b[0] in self.reach_blocks(self.succ[a[0]])

    # ---- dominance ---------------------------------------------------------------
    def _compute_dom(self, entry, succ, pred):
        nodes = self.reach_from(entry, succ)
        dom = {n: set(nodes) for n in nodes}
        dom[entry] = {entry}
        changed = True
        order = list(nodes)
        while changed:
            changed = False
            for n in order:
                if n == entry:
                    continue
                ps = [p for p in pred[n] if p in nodes]
                if ps:
                    new = set.intersection(*(dom[p] for p in ps)) | {n}
                else:
                    new = {n}
                if new != dom[n]:
                    dom[n] = new
                    changed = True
        return dom

    def reach_from(self, entry, succ):
        seen = []
        s = set()
        work = [entry]
        while work:
            b = work.pop()
            if b in s:
                continue
            s.add(b)
            seen.append(b)
            work.extend(succ[b])
        return seen

    def dom(self):
        if self._dom is None:
            self._dom = self._compute_dom(self.entry, self.succ, self.pred)
        return self._dom

    def pdom(self):
        if self._pdom is None:
            self._pdom = self._compute_dom(self.exit, self.pred, self.succ)
        return self._pdom

    def dominates(self, a, b):
        """position a is executed on every path from entry to position b"""
        if a[0] == b[0]:
            return a[1] < b[1]
        d = self.dom()
        return b[0] in d and a[0] in d[b[0]]

    def postdominates(self, a, b):
        """every path from position b to the normal exit passes position a"""
        if a[0] == b[0]:
            return a[1] > b[1]
        d = self.pdom()
        return b[0] in d and a[0] in d[b[0]]

    # ---- path rules ------------------------------------------------------------------
    def path_avoiding(self, start, targets, stop_at_exit=True, blocked=(), blocked_edges=()):
        """is there a path from just after position `start` to the exit block that does not
        pass any position in `targets`?  returns the list of blocks of such a path or None.
        `blocked`: additional positions that end a path harmlessly (treated like targets)"""
        tset = {}
        for t in list(targets) + list(blocked):
            tset.setdefault(t[0], []).append(t[1])
        bid, i = start
        # rest of the start block
        if any(j > i for j in tset.get(bid, [])):
            return None
        be = set(blocked_edges)
        work = [(s, [bid, s]) for s in self.succ[bid] if (bid, s) not in be]
        seen = set()
        while work:
            b, path = work.pop()
            if b in seen:
                continue
            seen.add(b)
            if b in tset:
                continue
            if b == self.exit:
                return path
            for s in self.succ[b]:
                if (b, s) not in be:
                    work.append((s, path + [s]))
        return None

    def path_between_avoiding(self, a, b, targets, blocked_edges=()):
        """is there a path from just after position a to position b that passes no target position?
        blocked_edges: (from_block, to_block) pairs known to be infeasible"""
        tset = {}
        for t in targets:
            tset.setdefault(t[0], []).append(t[1])
        if a[0] == b[0] and b[1] > a[1]:
            if not any(a[1] < j < b[1] for j in tset.get(a[0], [])):
                return [a[0]]
        if any(j > a[1] for j in tset.get(a[0], [])):
            return None
        be = set(blocked_edges)
        work = [(s, [a[0], s]) for s in self.succ[a[0]] if (a[0], s) not in be]
        seen = set()
        while work:
            blk, path = work.pop()
            if blk in seen:
                continue
            seen.add(blk)
            if blk == b[0]:
                if not any(j < b[1] for j in tset.get(blk, [])):
                    return path
                continue
            if blk in tset:
                continue
            for s in self.succ[blk]:
                if (blk, s) not in be:
                    work.append((s, path + [s]))
        return None

    def false_edge_of(self, ifstmt_id):
        """(block, false successor) of the block terminated by the given IfStmt"""
        for bid, b in self.blocks.items():
            if b.get("term") == ifstmt_id and len(b.get("succ", [])) == 2 and b["succ"][1] is not None:
                return (bid, b["succ"][1])
        return None

    def path_from_entry_avoiding(self, goal, targets):
        """path entry -> position goal not passing any target position before it"""
        tset = {}
        for t in targets:
            tset.setdefault(t[0], []).append(t[1])
        work = [(self.entry, [self.entry])]
        seen = set()
        while work:
            b, path = work.pop()
            if b in seen:
                continue
            seen.add(b)
            if b == goal[0]:
                if not any(j < goal[1] for j in tset.get(b, [])):
                    return path
                continue
            if b in tset:
                continue
            for s in self.succ[b]:
                work.append((s, path + [s]))
        return None
