"""Engine: a boolean must-fact over the clang CFG.

The fact is established by taking a branch edge whose condition implies it (`implies(cond, truth)`), or by an element
(`effect(node) == "gen"`), and destroyed by an element (`effect(node) == "kill"`).  `before(node)` tells whether the fact
holds on every path from the entry to the node (greatest fixpoint, entry = False)."""
from .ir import AnalysisBroken


class MustFact:
    def __init__(self, fn, g, implies, effect):
        self.fn, self.g = fn, g
        self.implies, self.effect = implies, effect
        blocks = g.blocks
        self.inn = {b: True for b in blocks}
        self.inn[g.entry] = False
        self.state = {}
        changed = True
        rounds = 0
        while changed:
            rounds += 1
            if rounds > 1000:
                raise AnalysisBroken("must-fact dataflow does not converge in %s" % fn.full)
            changed = False
            outs = {}
            for b in blocks:
                st = self.inn[b]
                for i, el in enumerate(g.elements(b)):
                    self.state[(b, i)] = st
                    n = fn.byid(el) if isinstance(el, int) else None
                    if n is not None:
                        e = effect(n)
                        if e == "gen":
                            st = True
                        elif e == "kill":
                            st = False
                outs[b] = st
            for b in blocks:
                if b == g.entry:
                    continue
                vals = []
                for p in g.pred[b]:
                    vals.append(self._edge(p, b, outs[p]))
                new = all(vals) if vals else True
                if new != self.inn[b]:
                    self.inn[b] = new
                    changed = True

    def _edge(self, p, s, out):
        raw = self.g.blocks[p].get("succ", [])
        els = self.g.elements(p)
        if len(raw) == 2 and els and isinstance(els[-1], int) and self.g.blocks[p].get("term") is not None:
            cond = self.fn.byid(els[-1])
            if cond is not None:
                if raw[0] == s and raw[1] != s and self.implies(cond, True):
                    return True
                if raw[1] == s and raw[0] != s and self.implies(cond, False):
                    return True
        return out

    def before(self, node):
        p = self.g.pos_deep(node)
        if p is None:
            return None
        return self.state.get(p)
