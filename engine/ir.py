"""IR loader: runs build/tlxir on a source or witness file against the current
/repo working tree and wraps the JSON in light helper classes."""
import json
import os
import subprocess
import tempfile

VERIF = os.path.dirname(os.path.dirname(os.path.abspath(__file__)))
REPO = os.environ.get("TLX_REPO", "/repo")
TLXIR = os.path.join(VERIF, "build", "tlxir")

BASE_FLAGS = ["-std=c++20", "-Wno-everything"]


class AnalysisBroken(Exception):
    """anchor vanished / construct not understood / witness does not compile"""


def relpath(p):
    if p and p.startswith(REPO + "/"):
        return p[len(REPO) + 1:]
    return p


class Fn:
    def __init__(self, d, tu):
        self.d = d
        self.tu = tu
        self.qname = d["qname"]
        self.name = d["name"]
        self.full = d.get("full", self.qname)
        self.targs = d.get("targs", [])
        self.rtargs = d.get("rtargs", [])
        self.record = d.get("record")
        self.kind = d["kind"]
        self.params = d["params"]
        self.body = d.get("body")
        self.cfg = d.get("cfg")
        self.file = d.get("file", "")
        self.line = d.get("line", 0)
        self.did = d["did"]
        self.inits = d.get("inits", [])
        self._byid = None
        self._parent = None

    @property
    def loc(self):
        return "%s:%s" % (relpath(self.file), self.line)

    def nodes(self):
        for i in self.inits:
            if i.get("e"):
                yield from walk(i["e"])
        if self.body:
            yield from walk(self.body)

    def byid(self, i):
        if self._byid is None:
            self._byid = {}
            self._parent = {}
            roots = [i["e"] for i in self.inits if i.get("e")]
            if self.body:
                roots.append(self.body)
            for r in roots:
                for n, p in walk_with_parent(r):
                    self._byid[n["id"]] = n
                    self._parent[n["id"]] = p
        return self._byid.get(i)

    def parent(self, n):
        self.byid(0)
        return self._parent.get(n["id"])

    def nloc(self, n):
        f = n.get("f", self.file)
        return "%s:%s" % (relpath(f), n.get("l", "?"))

    def param_index(self, did):
        for i, p in enumerate(self.params):
            if p["did"] == did:
                return i
        return None

    def __repr__(self):
        return "<Fn %s>" % self.full


def walk(n):
    if n is None:
        return
    stack = [n]
    while stack:
        x = stack.pop()
        if x is None:
            continue
        yield x
        for key in ("init", "condvar"):
            if key in x and isinstance(x[key], dict):
                stack.append(x[key])
        ch = x.get("ch")
        if ch:
            stack.extend(reversed(ch))


def walk_with_parent(n, parent=None):
    stack = [(n, parent)]
    while stack:
        x, p = stack.pop()
        if x is None:
            continue
        yield x, p
        for key in ("init", "condvar"):
            if key in x and isinstance(x[key], dict):
                stack.append((x[key], x))
        ch = x.get("ch")
        if ch:
            for c in reversed(ch):
                stack.append((c, x))


def kids(n):
    return n.get("ch", []) if n else []


def is_call(n):
    return n is not None and "callee" in n


def callee_q(n):
    c = n.get("callee") if n else None
    return c["qname"] if c else None


def callee_name(n):
    c = n.get("callee") if n else None
    return c["name"] if c else None


def calls_in(n):
    for x in walk(n):
        if "callee" in x:
            yield x


def const_int(n):
    """compile-time integer value of a node, or None"""
    if n is None:
        return None
    if "val" in n and n["k"] in ("IntegerLiteral", "CXXBoolLiteralExpr", "CharacterLiteral"):
        try:
            return int(n["val"])
        except (TypeError, ValueError):
            return None
    if "cval" in n:
        v = n["cval"]
        return int(v)
    if n["k"] in ("ImplicitCastExpr", "CStyleCastExpr", "CXXStaticCastExpr",
                  "CXXFunctionalCastExpr") and kids(n):
        return const_int(kids(n)[0])
    return None


def _bare(t):
    t = (t or "").strip()
    if t.startswith("const "):
        t = t[6:]
    return t.rstrip("&").strip()


def strip_casts(n):
    """looks through casts and through copy/move constructions of the same type"""
    while n is not None and kids(n):
        if n["k"] in ("ImplicitCastExpr", "CStyleCastExpr", "CXXStaticCastExpr",
                      "CXXFunctionalCastExpr", "CXXReinterpretCastExpr", "CXXConstCastExpr"):
            n = kids(n)[0]
        elif n["k"] == "CXXConstructExpr" and len(kids(n)) == 1 and kids(n)[0] is not None and \
                _bare(kids(n)[0].get("ty")) == _bare(n.get("ty")):
            n = kids(n)[0]
        else:
            break
    return n


def ref_of(n):
    """decl id of a DeclRefExpr (through casts), else None"""
    n = strip_casts(n)
    if n is not None and n["k"] == "DeclRefExpr":
        return n["ref"]["id"]
    return None


def ref_name(n):
    n = strip_casts(n)
    if n is not None and n["k"] == "DeclRefExpr":
        return n["ref"]["name"]
    return None


def is_this_member(n, name=None):
    """n is this->name (implicit or explicit)"""
    n = strip_casts(n)
    if n is None or n["k"] != "MemberExpr":
        return False
    if name is not None and n.get("member") != name:
        return False
    b = strip_casts(kids(n)[0]) if kids(n) else None
    return b is not None and b["k"] == "This"


def member_path(n):
    """a.b.c / this->x / p->y as a tuple of names with root descriptor, or None.
    root: ('this',) | ('var', did, name)"""
    n = strip_casts(n)
    if n is None:
        return None
    if n["k"] == "This":
        return ("this",)
    if n["k"] == "DeclRefExpr":
        return ("var:%s" % n["ref"]["name"],)
    if n["k"] == "MemberExpr" and kids(n):
        b = member_path(kids(n)[0])
        if b is None:
            return None
        return b + (n["member"],)
    if n["k"] == "UnaryOperator" and n.get("op") == "*" and kids(n):
        return member_path(kids(n)[0])
    return None


class TU:
    def __init__(self, d, src):
        self.src = src
        self.functions = [Fn(f, self) for f in d["functions"]]
        self.records = d.get("records", [])
        self.tables = d.get("tables", [])
        self.by_did = {f.did: f for f in self.functions}

    def find(self, qname=None, name=None, record=None, pred=None):
        out = []
        for f in self.functions:
            if qname is not None and f.qname != qname:
                continue
            if name is not None and f.name != name:
                continue
            if record is not None and f.record != record:
                continue
            if pred is not None and not pred(f):
                continue
            out.append(f)
        return out

    def one(self, **kw):
        r = self.find(**kw)
        if len(r) != 1:
            raise AnalysisBroken("expected exactly one function for %r in %s, found %d"
                                 % (kw, self.src, len(r)))
        return r[0]

    def some(self, **kw):
        r = self.find(**kw)
        if not r:
            raise AnalysisBroken("anchor not found: %r in %s" % (kw, self.src))
        return r

    def record(self, qname, full=None):
        rs = [r for r in self.records if r["qname"] == qname and
              (full is None or r.get("full") == full)]
        if not rs:
            raise AnalysisBroken("record %s not found in %s" % (qname, self.src))
        return rs[0]

    def table(self, qname):
        ts = [t for t in self.tables if t["qname"] == qname]
        if not ts:
            raise AnalysisBroken("table %s not found in %s" % (qname, self.src))
        return ts[0]


def _record_known(tu, path):
    """appends the function names and the local names of this TU as one JSON line (tools/mkknown.py merges them)"""
    fns, locs = set(), {}
    for f in tu.functions:
        fns.add(f.qname)
        names = locs.setdefault(f.qname, set())
        for p in f.params:
            if p.get("name"):
                names.add(p["name"])
        for y in f.nodes():
            if y["k"] == "VarDecl" and y.get("name"):
                names.add(y["name"])
            if "callee" in y and y["callee"].get("qname"):
                fns.add(y["callee"]["qname"])
    with open(path, "a") as fh:
        fh.write(json.dumps({"functions": sorted(fns), "locals": {k: sorted(v) for k, v in locs.items()}}) + "\n")


_stats = {"tus": 0, "functions": 0, "nodes": 0, "files": []}


def stats():
    return _stats


def extract(src, defines=(), match=None, roots=None, extra_flags=(), ndebug=True):
    """src: path relative to /verif (witness) or to the repo (tlx/...cpp)"""
    if src.startswith("witness/"):
        path = os.path.join(VERIF, src)
    elif os.path.isabs(src):
        path = src
    else:
        path = os.path.join(REPO, src)
    if not os.path.exists(path):
        raise AnalysisBroken("source file missing: %s" % path)
    if not os.path.exists(TLXIR):
        raise AnalysisBroken("extractor not built (run ./setup.sh)")
    os.makedirs(os.path.join(VERIF, "out"), exist_ok=True)
    fd, out = tempfile.mkstemp(prefix="tlxir_", suffix=".json",
                               dir=os.path.join(VERIF, "out"))
    os.close(fd)
    cmd = [TLXIR, "--out", out]
    for r in (roots or [REPO + "/tlx/"]):
        cmd += ["--root", r]
    if match:
        cmd += ["--match", match]
    cmd += [path, "--"] + BASE_FLAGS + ["-I" + REPO]
    cmd += ["-DNDEBUG"] if ndebug else ["-UNDEBUG"]
    for d in defines:
        cmd.append("-D" + d)
    cmd += list(extra_flags)
    try:
        p = subprocess.run(cmd, capture_output=True, text=True)
        if p.returncode != 0:
            raise AnalysisBroken("tlxir failed on %s:\n%s" % (src, (p.stderr or p.stdout)[-3000:]))
        with open(out) as f:
            d = json.load(f)
    finally:
        if os.path.exists(out):
            os.unlink(out)
    tu = TU(d, src)
    rec = os.environ.get("VERIF_RECORD_KNOWN")
    if rec:
        _record_known(tu, rec)
    elif not os.environ.get("VERIF_NO_NORMALIZE"):
        from . import normalize
        tu.normalized = normalize.normalize_tu(tu)
    _stats["tus"] += 1
    _stats["functions"] += len(tu.functions)
    _stats["nodes"] += sum(f.d.get("nodes", 0) for f in tu.functions)
    _stats["files"].append(src)
    return tu
