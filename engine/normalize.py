"""Engine: normalisation of novelties.

The rules were written against the functions and locals of the tree they were developed on.  A later edit that moves a few
statements into a NEW private helper, or names a sub-expression with a NEW const local / reference alias, does not change
behaviour but changes every shape a rule looks at.  Before the rules run, each function is therefore brought back towards
the known shape:

  * a call of a project function whose qualified name is not in data/known.json (a helper that did not exist) is
    inlined: parameters are bound to the arguments (references and `&x` pointers by substitution, values through a fresh
    local), the callee's locals get fresh ids, early returns are turned into if/else;
  * a local whose name is not known for that function, that is initialised once, never written and whose operands do not
    change between the declaration and a use, is replaced by its initialiser at that use.

Both are semantics-preserving rewrites of the tree, so rules judge the same behaviour.  A rewritten function gets a CFG
from engine/cfgbuild.py.  Whatever cannot be rewritten safely is left as it is (the rules then see the novelty and decide
or give up on their own).  On a tree without novelties nothing is touched."""
import copy
import json
import os

from . import cfgbuild
from .ir import kids, walk, strip_casts

HERE = os.path.dirname(os.path.dirname(os.path.abspath(__file__)))
KNOWN_PATH = os.path.join(HERE, "data", "known.json")
_known = None

PURE_CALLS = {"size", "length", "empty", "begin", "end", "cbegin", "cend", "rbegin", "rend", "crbegin", "crend", "data", "front", "back",
              "operator[]", "operator*", "operator->", "operator+", "operator-", "min", "max", "get", "first", "second", "active", "shadow",
              "flipped", "prev", "next", "distance", "key", "top", "load", "forward", "move", "addressof", "as_const",
              # pure integer helpers of tlx/math
              "round_up_to_power_of_two", "round_down_to_power_of_two", "div_ceil", "integer_log2_floor", "integer_log2_ceil", "is_power_of_two",
              "abs_diff", "clz", "ctz", "popcount", "ffs", "rol32", "rol64", "ror32", "ror64", "bswap16", "bswap32", "bswap64", "sgn", "round_up",
              "to_lower", "to_upper", "iterpair_size", "not_present", "parent", "left", "right"}


def known():
    global _known
    if _known is None:
        if os.path.exists(KNOWN_PATH):
            with open(KNOWN_PATH) as f:
                d = json.load(f)
            _known = {"functions": set(d.get("functions", [])), "locals": {k: set(v) for k, v in d.get("locals", {}).items()}}
        else:
            _known = False
    return _known


PURE_VALUE = {"min", "max", "round_up_to_power_of_two", "round_down_to_power_of_two", "div_ceil", "integer_log2_floor", "integer_log2_ceil",
              "is_power_of_two", "abs_diff", "clz", "ctz", "popcount", "ffs", "rol32", "rol64", "ror32", "ror64", "bswap16", "bswap32", "bswap64",
              "sgn", "round_up", "to_lower", "to_upper"}     # results depend on the argument values only


class Fail(Exception):
    pass


class Rewriter:
    def __init__(self, tu, fn):
        self.tu, self.fn = tu, fn
        self.next_id = max([n.get("id", 0) for n in fn.nodes()] + [0]) + 100000
        self.next_did = -1
        self.changed = False
        self.depth = 0

    def fresh(self):
        self.next_id += 1
        return self.next_id

    def clone(self, n, subst=None, rename=None):
        """deep copy with fresh node ids; DeclRefExprs of `subst` replaced by clones of the mapped expression; declaration
        ids renamed through `rename`"""
        if n is None:
            return None
        if n["k"] == "DeclRefExpr":
            d = n["ref"]["id"]
            if subst and d in subst:
                return self.clone(subst[d])
            out = dict(n)
            out["id"] = self.fresh()
            if rename and d in rename:
                out["ref"] = dict(n["ref"])
                out["ref"]["id"] = rename[d]
            return out
        out = dict(n)
        out["id"] = self.fresh()
        if rename and n["k"] == "VarDecl" and n.get("did") in rename:
            out["did"] = rename[n["did"]]
        for key in ("init", "condvar"):
            if key in n and isinstance(n[key], dict):
                out[key] = self.clone(n[key], subst, rename)
        if "ch" in n:
            out["ch"] = [self.clone(c, subst, rename) for c in n["ch"]]
        return out

    # ---------------------------------------------------------------- helpers
    @staticmethod
    def side_effect_free(e):
        for y in walk(e):
            if y["k"] in ("CompoundAssignOperator", "CXXNewExpr", "CXXDeleteExpr", "LambdaExpr", "CXXThrowExpr"):
                return False
            if y["k"] == "BinaryOperator" and y.get("op") in ("=", ","):
                return False
            if y["k"] == "UnaryOperator" and y.get("op") in ("++", "--"):
                return False
            if "callee" in y:
                nm = y["callee"]["name"]
                if y["k"] == "CXXOperatorCallExpr":
                    if y.get("op") in ("=", "+=", "-=", "++", "--", "()", "<<", ">>"):
                        return False
                elif nm not in PURE_CALLS:
                    return False
        return True

    def simplify(self, n):
        """*&x -> x ; (&x)->f -> x.f ; in place on a cloned tree"""
        if n is None:
            return None
        for key in ("init", "condvar"):
            if key in n and isinstance(n[key], dict):
                n[key] = self.simplify(n[key])
        if "ch" in n:
            n["ch"] = [self.simplify(c) for c in n["ch"]]
        if n["k"] == "UnaryOperator" and n.get("op") == "*" and kids(n):
            inner = kids(n)[0]
            core = inner
            while core is not None and core["k"] in ("ImplicitCastExpr", "ParenExpr") and kids(core):
                core = kids(core)[0]
            if core is not None and core["k"] == "UnaryOperator" and core.get("op") == "&":
                return kids(core)[0]
        if n["k"] == "MemberExpr" and n.get("arrow") and kids(n):
            core = kids(n)[0]
            while core is not None and core["k"] in ("ImplicitCastExpr", "ParenExpr") and kids(core):
                core = kids(core)[0]
            if core is not None and core["k"] == "UnaryOperator" and core.get("op") == "&":
                n = dict(n)
                n["arrow"] = False
                n["ch"] = [kids(core)[0]]
        return n

    # ---------------------------------------------------------------- return elimination
    @staticmethod
    def has_return(s):
        return any(y["k"] == "ReturnStmt" for y in walk(s) if y is not None) if s is not None else False

    @staticmethod
    def as_list(s):
        if s is None:
            return []
        return list(kids(s)) if s["k"] == "CompoundStmt" else [s]

    def always_returns(self, lst):
        for s in lst:
            if s is None:
                continue
            if s["k"] == "ReturnStmt":
                return True
            if s["k"] == "IfStmt" and len(kids(s)) > 2 and kids(s)[2] is not None and \
                    self.always_returns(self.as_list(kids(s)[1])) and self.always_returns(self.as_list(kids(s)[2])):
                return True
            if s["k"] == "CompoundStmt" and self.always_returns(kids(s)):
                return True
        return False

    def block(self, stmts, like):
        return {"k": "CompoundStmt", "id": self.fresh(), "l": like.get("l"), "ch": stmts}

    def deret(self, stmts, on_return):
        """statement list without ReturnStmt: `on_return(expr_or_None)` gives the statements that replace a return"""
        out = []
        for i, s in enumerate(stmts):
            if s is None:
                continue
            if s["k"] == "ReturnStmt":
                return out + on_return(kids(s)[0] if kids(s) else None)
            if not self.has_return(s):
                out.append(s)
                continue
            rest = stmts[i + 1:]
            if s["k"] == "CompoundStmt":
                return out + self.deret(list(kids(s)) + rest, on_return)
            if s["k"] == "IfStmt" and "init" not in s and "condvar" not in s:
                c = kids(s)[0]
                t_l = self.as_list(kids(s)[1])
                e_l = self.as_list(kids(s)[2]) if len(kids(s)) > 2 else []
                ta, ea = self.always_returns(t_l), self.always_returns(e_l)
                if ta and ea:
                    new_t, new_e = self.deret(t_l, on_return), self.deret(e_l, on_return)
                elif ta:
                    new_t, new_e = self.deret(t_l, on_return), self.deret(e_l + rest, on_return)
                elif ea:
                    new_t, new_e = self.deret(t_l + rest, on_return), self.deret(e_l, on_return)
                else:
                    raise Fail("conditional return inside a branch that can fall through")
                n = dict(s)
                n["id"] = self.fresh()
                n["ch"] = [c, self.block(new_t, s), self.block(new_e, s) if new_e else None]
                return out + [n]
            raise Fail("return inside %s" % s["k"])
        return out

    # ---------------------------------------------------------------- inlining
    def novel_callee(self, c):
        kn = known()
        q = c["callee"].get("qname") or ""
        if not kn or not q.startswith("tlx::") or q in kn["functions"]:
            return None
        cal = self.tu.by_did.get(c["callee"].get("did"))
        if cal is None or cal.body is None or cal.did == self.fn.did or cal.kind in ("ctor", "dtor", "lambda"):
            return None
        if c["k"] == "CXXOperatorCallExpr":
            return None
        if any(y["k"] in ("CXXTryStmt", "GotoStmt", "LabelStmt") for y in walk(cal.body)):
            return None
        return cal

    def bind(self, cal, call):
        """-> (prologue statements, subst map, rename map) or Fail"""
        args = [a for a in kids(call)]
        if call.get("member_call"):
            if not args or strip_casts(args[0])["k"] != "This":
                raise Fail("member helper called on another object")
            args = args[1:]
        if len(args) != len(cal.params) or any(a is None or a["k"] == "DefaultArg" for a in args):
            raise Fail("arity / default arguments")
        written = set()
        for y in walk(cal.body):
            tgt = None
            if y["k"] in ("BinaryOperator", "CompoundAssignOperator") and (y.get("op") or "").endswith("=") and y.get("op") not in ("==", "!=", "<=", ">="):
                tgt = kids(y)[0]
            elif y["k"] == "UnaryOperator" and y.get("op") in ("++", "--", "&"):
                tgt = kids(y)[0]
            t0 = strip_casts(tgt) if tgt is not None else None
            if t0 is not None and t0["k"] == "DeclRefExpr":
                written.add(t0["ref"]["id"])
        subst, rename, pro = {}, {}, []
        for p, a in zip(cal.params, args):
            ty = (p.get("ty") or "").rstrip()
            a0 = strip_casts(a)
            is_ref = ty.endswith("&")
            is_ptr_to = ty.endswith("*") or ty.endswith("*const") or ty.endswith("* const")
            simple = a0["k"] in ("DeclRefExpr", "IntegerLiteral", "CXXBoolLiteralExpr", "NullPtr", "This") or \
                (a0["k"] == "MemberExpr" and kids(a0) and strip_casts(kids(a0)[0])["k"] == "This")
            addr = a0["k"] == "UnaryOperator" and a0.get("op") == "&" and self.side_effect_free(a0)
            if is_ref and self.side_effect_free(a):
                subst[p["did"]] = a
            elif is_ptr_to and addr and p["did"] not in written:
                subst[p["did"]] = a
            elif simple and p["did"] not in written and not (a0["k"] == "DeclRefExpr" and a0["ref"]["id"] in self._ref_args(cal, args)):
                subst[p["did"]] = a
            else:
                nd = self.next_did
                self.next_did -= 1
                rename[p["did"]] = nd
                v = {"k": "VarDecl", "id": self.fresh(), "did": nd, "name": p.get("name") or "arg", "ty": ty, "l": call.get("l"), "ch": [self.clone(a)]}
                pro.append({"k": "DeclStmt", "id": self.fresh(), "l": call.get("l"), "ch": [v]})
        for y in walk(cal.body):
            if y["k"] == "VarDecl" and y.get("did") is not None:
                rename[y["did"]] = self.next_did
                self.next_did -= 1
        return pro, subst, rename

    @staticmethod
    def _ref_args(cal, args):
        out = set()
        for p, a in zip(cal.params, args):
            ty = (p.get("ty") or "").rstrip()
            if ty.endswith("&") and "const" not in ty:
                for y in walk(a):
                    if y["k"] == "DeclRefExpr":
                        out.add(y["ref"]["id"])
        return out

    def expand_stmt(self, s):
        """-> list of statements replacing s (s itself if nothing to inline)"""
        if s is None:
            return [s]
        top = s
        while top is not None and top["k"] in ("ExprWithCleanups",) and kids(top):
            top = kids(top)[0]
        # (1) helper(args);
        if top is not None and "callee" in top and top["k"] in ("CallExpr", "CXXMemberCallExpr"):
            cal = self.novel_callee(top)
            if cal is not None:
                try:
                    pro, subst, rename = self.bind(cal, top)
                    body = [self.simplify(self.clone(x, subst, rename)) for x in kids(cal.body)]
                    body = self.deret(body, lambda e: ([e] if e is not None and not self.side_effect_free(e) else []))
                    self.changed = True
                    return self.expand_list(pro + body)
                except Fail:
                    pass
        # (2) T v = helper(args);   x = helper(args);   return helper(args);
        slot = None
        if s["k"] == "DeclStmt" and len(kids(s)) == 1 and kids(s)[0]["k"] == "VarDecl" and kids(kids(s)[0]):
            slot = ("decl", kids(s)[0])
            call = kids(kids(s)[0])[0]
        elif s["k"] == "ReturnStmt" and kids(s):
            slot = ("ret", s)
            call = kids(s)[0]
        elif top is not None and top["k"] == "BinaryOperator" and top.get("op") == "=":
            slot = ("asg", top)
            call = kids(top)[1]
        if slot is not None:
            c0 = call
            wrappers = []
            while c0 is not None and c0["k"] in ("ImplicitCastExpr", "ExprWithCleanups", "MaterializeTemporaryExpr", "CXXBindTemporaryExpr", "ParenExpr") and kids(c0):
                wrappers.append(c0)
                c0 = kids(c0)[0]
            if c0 is not None and "callee" in c0 and c0["k"] in ("CallExpr", "CXXMemberCallExpr"):
                cal = self.novel_callee(c0)
                if cal is not None:
                    try:
                        pro, subst, rename = self.bind(cal, c0)
                        body = [self.simplify(self.clone(x, subst, rename)) for x in kids(cal.body)]
                        if not body or body[-1]["k"] != "ReturnStmt" or any(self.has_return(x) for x in body[:-1]):
                            raise Fail("not a single trailing return")
                        value = kids(body[-1])[0]
                        new = self._with_value(s, slot, call, value)
                        self.changed = True
                        return self.expand_list(pro + body[:-1] + [new])
                    except Fail:
                        pass
        # (3) a helper that is one expression, anywhere inside the statement
        self._inline_exprs(s)
        # nested statements
        if s["k"] == "CompoundStmt":
            s["ch"] = self.expand_list(kids(s))
        elif s["k"] in ("IfStmt", "ForStmt", "WhileStmt", "DoStmt", "SwitchStmt", "CaseStmt", "DefaultStmt", "AttributedStmt", "CXXForRangeStmt", "CXXTryStmt", "LabelStmt"):
            new_ch = []
            for c in kids(s):
                if c is not None and c["k"] in ("CompoundStmt", "IfStmt", "ForStmt", "WhileStmt", "DoStmt", "SwitchStmt", "CaseStmt", "DefaultStmt",
                                               "AttributedStmt", "ReturnStmt", "DeclStmt") or (c is not None and self._is_stmt_position(s, c)):
                    ex = self.expand_stmt(c)
                    new_ch.append(ex[0] if len(ex) == 1 else self.block(ex, c))
                else:
                    new_ch.append(c)
            s["ch"] = new_ch
        return [s]

    @staticmethod
    def _is_stmt_position(parent, child):
        k = parent["k"]
        ch = kids(parent)
        if k == "IfStmt":
            return child is not ch[0]
        if k == "WhileStmt":
            return child is ch[1]
        if k == "ForStmt":
            return child is ch[3]
        if k == "DoStmt":
            return child is ch[0]
        return False

    def _with_value(self, s, slot, call, value):
        def repl(n):
            if n is call:
                return value
            if n is None:
                return None
            m = dict(n)
            if "ch" in n:
                m["ch"] = [repl(c) for c in n["ch"]]
            return m
        return repl(s)

    def _inline_exprs(self, s):
        from . import dtable

        def rec(n):
            if n is None or n["k"] in ("LambdaExpr",):
                return n
            if n["k"] in ("CompoundStmt", "IfStmt", "ForStmt", "WhileStmt", "DoStmt", "SwitchStmt") and n is not s:
                return n
            if "ch" in n:
                n["ch"] = [rec(c) for c in n["ch"]]
            if "callee" in n and n["k"] in ("CallExpr", "CXXMemberCallExpr") and self.novel_callee(n) is not None:
                if n.get("member_call") and (not kids(n) or strip_casts(kids(n)[0])["k"] != "This"):
                    return n
                e = dtable.inline_call(self.fn, n)
                if e is not None and all(self.side_effect_free(a) for a in (kids(n)[1:] if n.get("member_call") else kids(n)) if a is not None):
                    self.changed = True
                    return self.simplify(self.clone(e))
            return n
        if s["k"] in ("CompoundStmt",):
            return
        if s["k"] in ("IfStmt", "WhileStmt", "SwitchStmt"):
            s["ch"][0] = rec(s["ch"][0])
        elif s["k"] == "ForStmt":
            for i in (1, 2):
                if kids(s)[i] is not None:
                    s["ch"][i] = rec(s["ch"][i])
        elif s["k"] == "DoStmt":
            s["ch"][1] = rec(s["ch"][1])
        else:
            rec(s)

    def expand_list(self, stmts):
        self.depth += 1
        try:
            if self.depth > 12:
                raise Fail("helpers nest too deep")
            out = []
            for s in stmts:
                out += self.expand_stmt(s)
            return out
        finally:
            self.depth -= 1

    # ---------------------------------------------------------------- locals
    def substitute_locals(self, body, cfg):
        """replaces novel never-written locals with a side-effect free initialiser by that initialiser wherever its
        operands are unchanged since the declaration"""
        from . import cfg as cfgm, match
        kn = known()
        names = kn["locals"].get(self.fn.qname) if kn else None
        if names is None:
            return False
        decls = {}
        for y in walk(body):
            if y["k"] == "VarDecl" and y.get("did") is not None and kids(y) and kids(y)[0] is not None and y.get("name") not in names:
                decls[y["did"]] = y
        if not decls:
            return False
        writes = {}
        whole = {}           # writes that replace the variable / field itself (not a part of it)
        addr = set()
        addr_of = set()          # locals whose address is taken explicitly: the object's identity matters, a copy is not its source
        for y in walk(body):
            w = match.unop(y, ("++", "--")) or (match.binop(y, ("=", "+=", "-=", "*=", "/=", "%=", "|=", "&=", "^=", ">>=", "<<="))
                                                if y["k"] in ("BinaryOperator", "CompoundAssignOperator", "CXXOperatorCallExpr") else None)
            if w:
                root = lvalue_root(w[1])
                if root is not None:
                    writes.setdefault(root, []).append(y)
                    t1 = strip_casts(w[1])
                    if t1 is not None and (t1["k"] == "DeclRefExpr" or (t1["k"] == "MemberExpr" and match.this_field(t1))):
                        whole.setdefault(root, []).append(y)
                else:
                    writes.setdefault("?", []).append(y)
                t0 = strip_casts(w[1])
                if t0 is not None and t0["k"] != "DeclRefExpr":
                    writes.setdefault("?mem", []).append(y)      # a store into memory: may alias what an initialiser reads
            if y["k"] == "UnaryOperator" and y.get("op") == "&" and strip_casts(kids(y)[0])["k"] == "DeclRefExpr":
                addr.add(strip_casts(kids(y)[0])["ref"]["id"])
                addr_of.add(strip_casts(kids(y)[0])["ref"]["id"])
            if "callee" in y and y["k"] == "CallExpr" and y["callee"]["name"] == "addressof" and kids(y) and \
                    strip_casts(kids(y)[-1]) is not None and strip_casts(kids(y)[-1])["k"] == "DeclRefExpr":
                addr_of.add(strip_casts(kids(y)[-1])["ref"]["id"])
            if "callee" in y and y["k"] == "CallExpr" and y["callee"]["name"] == "move" and len(kids(y)) >= 1 and \
                    (y["callee"].get("qname") or "std::move").startswith("std::"):
                # std::move(x): whoever consumes the result may empty x - a write to x at this point
                am = kids(y)[-1]
                root = lvalue_root(am) if am is not None else None
                writes.setdefault(root if root is not None else "?", []).append(y)
                if am is not None and strip_casts(am) is not None and strip_casts(am)["k"] != "DeclRefExpr":
                    writes.setdefault("?mem", []).append(y)
            if "callee" in y and y["k"] in ("CallExpr", "CXXMemberCallExpr"):
                # a non-const reference argument may be written by the callee
                for a in kids(y):
                    if a is not None and a.get("lv") and strip_casts(a)["k"] == "DeclRefExpr" and a["k"] != "ImplicitCastExpr":
                        addr.add(strip_casts(a)["ref"]["id"])

        class F2:
            pass
        f2 = F2()
        f2.cfg, f2.full = cfg, self.fn.full
        parent = {}
        byid = {}
        for n, p in _walk_parent(body):
            parent[n["id"]] = p
            byid[n["id"]] = n
        f2.parent = lambda n: parent.get(n["id"])
        f2.byid = lambda i: byid.get(i)
        g = cfgm.CFG(f2)
        # a local captured by reference by a lambda may be written inside the lambda body (a separate function):
        # it is never substituted; neither is a local that an initialiser to be substituted would read after such a write
        by_ref_captured = set()
        for y in walk(body):
            if y["k"] == "LambdaExpr":
                for c_ in y.get("captures", []):
                    if c_.get("byref") and c_.get("id") is not None:
                        by_ref_captured.add(c_["id"])
        moved = set()            # std::move(local): a const local / const reference copies, its initialiser might really move
        for y in walk(body):
            if "callee" in y and y["k"] == "CallExpr" and y["callee"]["name"] in ("move", "forward") and kids(y):
                am = strip_casts(kids(y)[-1])
                if am is not None and am["k"] == "DeclRefExpr":
                    moved.add(am["ref"]["id"])
        todo = {}
        for d, v in decls.items():
            if d in by_ref_captured or d in moved:
                continue
            if d in addr_of and not (v.get("ty") or "").rstrip().endswith("&"):
                continue             # &copy is not &original
            if any(y["k"] == "DeclRefExpr" and y["ref"]["id"] in by_ref_captured for y in walk(kids(v)[0])):
                continue
            # a snapshot of shared state (an atomic member, an atomic load) is a value in time: reading it again at
            # the use is something else, whatever this thread does in between
            if any(("atomic" in (y.get("ty") or "")) or ("callee" in y and y["callee"]["name"] in ("load", "exchange", "fetch_add", "fetch_sub", "compare_exchange_weak",
                                                                                               "compare_exchange_strong")) for y in walk(kids(v)[0])):
                continue
            ty = (v.get("ty") or "")
            is_alias = ty.rstrip().endswith("&")
            is_const = ty.startswith("const ") or ty.rstrip().endswith(" const") or "*const" in ty.replace(" ", "")
            if d in writes and not is_alias:
                continue
            if d in addr and not is_alias and not is_const:
                continue
            init = kids(v)[0]
            if not self.side_effect_free(init):
                continue
            if any(t in ty for t in GUARDISH):
                continue
            todo[d] = v
        if not todo:
            return False
        done = False

        def stable(v, use):
            pd, pu = g.pos_deep(v), g.pos_deep(use)
            if pd is None or pu is None:
                return False
            init = kids(v)[0]
            ops = set()
            for y in walk(init):
                if y["k"] == "DeclRefExpr":
                    ops.add(y["ref"]["id"])
                if y["k"] == "MemberExpr" and match.this_field(y):
                    ops.add(("field", match.this_field(y)))
            if (v.get("ty") or "").rstrip().endswith("&") and strip_casts(init).get("lv", True):
                # a reference names an object: only what determines its ADDRESS must be unchanged - the indices, and the
                # root variable / field as a whole (a store into the object itself is seen through the reference anyway)
                root = lvalue_root(init)
                if root is not None:
                    idx_ops = set()
                    e_ = strip_casts(init)
                    for _ in range(12):
                        if e_ is None:
                            break
                        ip_ = match.index_parts(e_)
                        if ip_:
                            for y in walk(ip_[1]):
                                if y["k"] == "DeclRefExpr":
                                    idx_ops.add(y["ref"]["id"])
                                if y["k"] == "MemberExpr" and match.this_field(y):
                                    idx_ops.add(("field", match.this_field(y)))
                            e_ = strip_casts(ip_[0])
                        elif e_["k"] in ("MemberExpr", "ParenExpr", "UnaryOperator") and kids(e_) and not (e_["k"] == "MemberExpr" and match.this_field(e_)):
                            e_ = strip_casts(kids(e_)[0])
                        else:
                            break
                    for o in idx_ops:
                        for w in writes.get(o, []):
                            pw = g.pos_deep(w)
                            if pw is None or (g.path_between_avoiding(pd, pw, [pd]) is not None and g.path_between_avoiding(pw, pu, [pd]) is not None):
                                return False
                    if any(isinstance(o, tuple) or o in addr for o in idx_ops):
                        # an index read from a member / an escaped variable: any call in between (a wait, a callback) may
                        # change it, through this or through another thread
                        for c in [y for y in walk(body) if "callee" in y and y["k"] in ("CallExpr", "CXXMemberCallExpr") and y["callee"]["name"] not in PURE_CALLS]:
                            pc = g.pos_deep(c)
                            if pc is not None and g.path_between_avoiding(pd, pc, [pd]) is not None and g.path_between_avoiding(pc, pu, [pd]) is not None:
                                return False
                    for w in whole.get(root, []):
                        pw = g.pos_deep(w)
                        if pw is None or (g.path_between_avoiding(pd, pw, [pd]) is not None and g.path_between_avoiding(pw, pu, [pd]) is not None):
                            # the root itself is replaced: fine for a plain variable / field (the reference follows the object),
                            # not for a pointer that is re-seated
                            if idx_ops or "*" in (strip_casts(init).get("ty") or ""):
                                return False
                    simple_root = strip_casts(init)["k"] == "DeclRefExpr" or bool(match.this_field(strip_casts(init)))
                    if simple_root or not any("*" in (y.get("ty") or "") for y in walk(init) if y["k"] in ("DeclRefExpr", "MemberExpr")):
                        return True
            calls = [y for y in walk(body) if "callee" in y and y["k"] in ("CallExpr", "CXXMemberCallExpr") and y["callee"]["name"] not in PURE_CALLS]
            fields = any(isinstance(o, tuple) for o in ops)
            reads_mem = any(y["k"] in ("MemberExpr", "ArraySubscriptExpr") or (y["k"] == "UnaryOperator" and y.get("op") == "*") or
                            (y["k"] == "CXXOperatorCallExpr" and y.get("op") in ("[]", "*", "->")) or
                            ("callee" in y and y["callee"]["name"] not in PURE_VALUE) for y in walk(init))
            for o in list(ops) + ["?"] + (["?mem"] if reads_mem else []):
                for w in writes.get(o, []):
                    pw = g.pos_deep(w)
                    if pw is None:
                        return False
                    if g.path_between_avoiding(pd, pw, [pd]) is not None and g.path_between_avoiding(pw, pu, [pd]) is not None:
                        return False
            if fields or any(o in addr for o in ops if not isinstance(o, tuple)):
                for c in calls:
                    pc = g.pos_deep(c)
                    if pc is not None and g.path_between_avoiding(pd, pc, [pd]) is not None and g.path_between_avoiding(pc, pu, [pd]) is not None:
                        return False
            return True

        def rec(n):
            nonlocal done
            if n is None:
                return None
            if n["k"] == "DeclRefExpr" and n["ref"]["id"] in todo:
                v = todo[n["ref"]["id"]]
                if stable(v, n):
                    done = True
                    return self.clone(kids(v)[0])
                return n
            for key in ("init", "condvar"):
                if key in n and isinstance(n[key], dict):
                    n[key] = rec(n[key])
            if "ch" in n:
                n["ch"] = [rec(c) for c in n["ch"]]
            return n
        rec(body)
        if done:
            # drop declarations that are no longer used
            used = {y["ref"]["id"] for y in walk(body) if y["k"] == "DeclRefExpr"}
            # a local that only a lambda captures is still used: the lambda body is a function of its own
            used |= {c_.get("id") for y in walk(body) if y["k"] == "LambdaExpr" for c_ in y.get("captures", [])}

            def prune(n):
                if n is None:
                    return None
                if "ch" in n:
                    ch = []
                    for c in n["ch"]:
                        if c is not None and c["k"] == "DeclStmt":
                            keep = [v for v in kids(c) if not (v["k"] == "VarDecl" and v.get("did") in todo and v["did"] not in used)]
                            if not keep:
                                if n["k"] == "CompoundStmt":
                                    continue
                                c = {"k": "NullStmt", "id": self.fresh(), "l": c.get("l")}
                            else:
                                c = dict(c)
                                c["ch"] = keep
                        ch.append(prune(c))
                    n["ch"] = ch
                return n
            prune(body)
        return done


def lvalue_root(t):
    """the variable (declaration id) or this-field (("field", name)) an lvalue expression lives in, through member
    accesses, subscripts and dereferences; None if it cannot be told"""
    from . import match
    e = strip_casts(t)
    for _ in range(12):
        if e is None:
            return None
        k = e["k"]
        if k == "DeclRefExpr":
            return e["ref"]["id"]
        if k == "MemberExpr":
            f = match.this_field(e)
            if f:
                return ("field", f)
            e = strip_casts(kids(e)[0]) if kids(e) else None
            continue
        if k == "ParenExpr" or (k == "UnaryOperator" and e.get("op") == "*"):
            e = strip_casts(kids(e)[0])
            continue
        ip = match.index_parts(e)
        if ip:
            e = strip_casts(ip[0])
            continue
        if k == "CXXOperatorCallExpr" and e.get("op") in ("*", "->") and kids(e):
            e = strip_casts(kids(e)[0])
            continue
        if "callee" in e and e.get("member_call") and e["callee"]["name"] in ("back", "front", "at", "top") and kids(e):
            e = strip_casts(kids(e)[0])
            continue
        return None
    return None


GUARDISH = ("std::unique_lock<", "std::lock_guard<", "std::scoped_lock<", "std::thread")


def _walk_parent(n, parent=None):
    stack = [(n, parent)]
    while stack:
        x, p = stack.pop()
        if x is None:
            continue
        yield x, p
        for key in ("init", "condvar"):
            if key in x and isinstance(x[key], dict):
                stack.append((x[key], x))
        for c in reversed(x.get("ch") or []):
            stack.append((c, x))


def normalize_fn(tu, fn):
    """rewrites fn in place if it contains novelties; returns True if rewritten"""
    if not known() or fn.body is None or fn.kind == "lambda":
        return False
    kn = known()
    has_novel_call = any("callee" in y and (y["callee"].get("qname") or "").startswith("tlx::") and y["callee"]["qname"] not in kn["functions"]
                         for y in walk(fn.body))
    names = kn["locals"].get(fn.qname)
    has_novel_local = names is not None and any(y["k"] == "VarDecl" and y.get("name") not in names and kids(y) for y in walk(fn.body))
    if not has_novel_call and not has_novel_local:
        return False
    rw = Rewriter(tu, fn)
    body = copy.deepcopy(fn.body)
    try:
        if has_novel_call:
            for _ in range(3):
                rw.changed = False
                body["ch"] = rw.expand_list(kids(body))
                if not rw.changed:
                    break
        cfg = cfgbuild.build(body)
        changed = has_novel_call
        for _ in range(4):
            if not rw.substitute_locals(body, cfg):
                break
            cfg = cfgbuild.build(body)
            changed = True
    except (cfgbuild.Unsupported, Fail, KeyError, IndexError, TypeError):
        return False
    if body == fn.body:
        return False
    fn.body = body
    fn.cfg = cfg
    fn.d = dict(fn.d)
    fn.d["body"], fn.d["cfg"] = body, cfg
    fn._byid = None
    fn._parent = None
    fn.normalized = True
    return True


def normalize_tu(tu):
    if not known():
        return 0
    n = 0
    # helpers first need no order: a novel helper that calls another novel helper is expanded when it is inlined (3 rounds)
    for fn in tu.functions:
        if (fn.qname or "").startswith("tlx::") and fn.qname in known()["functions"]:
            if normalize_fn(tu, fn):
                n += 1
    # a novel helper whose every call has been inlined is judged through its callers only
    kn = known()["functions"]
    still_called = set()
    for fn in tu.functions:
        if fn.qname in kn or not (fn.qname or "").startswith("tlx::"):
            for y in fn.nodes():
                if "callee" in y:
                    still_called.add(y["callee"].get("did"))
    gone = [f for f in tu.functions if (f.qname or "").startswith("tlx::") and f.qname not in kn and f.kind not in ("ctor", "dtor", "lambda")
            and f.did not in still_called]
    if gone:
        tu.functions = [f for f in tu.functions if f not in gone]
        tu.inlined_away = [f.qname for f in gone]
    return n
