"""Engine A3: order automata for the goto-encoded k-way merges.

The instantiated function body is read as a small goto program over k sequence
cursors.  Abstract state = (label, weak order of the k current heads including
'exhausted').  `*target = *seqX` emits head X, `++seqX` replaces it by an
arbitrary later element of the same sorted sequence (any rank >= the old one, or
exhausted), a comparison `seqX op seqY` is evaluated on the weak order with the
truth table *extracted* from the iterator class's own operator< / operator<=.
Exploration runs to a fixpoint; at every emission the emitted head must be the
stable minimum (smallest key, ties to the lowest sequence index).
"""
from . import dtable, match
from .ir import kids, strip_casts, const_int, ref_of, walk
from .dtable import Undecidable

SUP = "S"


# ------------------------------------------------------------ operator semantics
def op_table(fn):
    """truth table of a friend comparison operator(bi1, bi2) over
    (sup1, sup2, c12=comp(*bi1,*bi2), c21=comp(*bi2,*bi1)) -> bool"""
    p1, p2 = fn.params[0]["did"], fn.params[1]["did"]

    def which(e):
        r = ref_of(e)
        return 1 if r == p1 else 2 if r == p2 else None

    def atomize(n, run):
        b = match.binop(n, ("==", "!="))
        if b:
            fa, fb = match.field_of(b[1]), match.field_of(b[2])
            if fa and fb and {fa[1], fb[1]} == {"current", "end_"} and which(fa[0]) and which(fa[0]) == which(fb[0]):
                return ("sup%d" % which(fa[0]), b[0] == "!=")
        fc = match.functor_call(n)
        if fc and len(fc[1]) == 2:
            f = match.field_of(fc[0])
            if f and f[1] == "comp_":
                ws = []
                for a in fc[1]:
                    d = match.deref_of(a)
                    ws.append(which(d) if d is not None else None)
                if ws == [1, 2]:
                    return ("c12", False)
                if ws == [2, 1]:
                    return ("c21", False)
                raise Undecidable("%s: comparator applied to unexpected operands" % fn.nloc(n))
        return None
    table = {}
    for s1 in (False, True):
        for s2 in (False, True):
            for c12 in (False, True):
                for c21 in (False, True):
                    val = {"sup1": s1, "sup2": s2, "c12": c12, "c21": c21}
                    r = dtable.Run(atomize, val, fn)
                    try:
                        r.stmt(fn.body)
                        raise Undecidable("%s: comparison operator without return" % fn.loc)
                    except dtable._Stop as st:
                        if st.kind != "return":
                            raise Undecidable("%s: unexpected control flow in comparison operator" % fn.loc)
                        table[(s1, s2, c12, c21)] = r.truth(st.payload[0])
                    except dtable._Need as nd:
                        raise Undecidable("%s: unknown atom %s" % (fn.loc, nd.key))
    return table


def check_op_table(table, op, guarded):
    """required rows of a guarded/unguarded < or <= (free rows: both exhausted)"""
    bad = []
    for (s1, s2, c12, c21), v in table.items():
        if c12 and c21:
            continue
        if not guarded and (s1 or s2):
            continue
        if s1 and s2:
            continue
        if s1 or s2:
            want = s2 and not s1          # live < exhausted, live <= exhausted
        else:
            want = c12 if op == "<" else (not c21)
        if v != want:
            bad.append(((s1, s2, c12, c21), v, want))
    return bad


# ------------------------------------------------------------ configurations
def normalize(cfg):
    vals = sorted(set(v for v in cfg if v != SUP))
    m = {v: 2 * i for i, v in enumerate(vals)}
    return tuple(SUP if v == SUP else m[v] for v in cfg)


def all_configs(k, guarded):
    out = set()

    def rec(i, cur):
        if i == k:
            out.add(normalize(tuple(cur)))
            return
        for v in list(range(0, 2 * k, 2)) + ([SUP] if guarded else []):
            rec(i + 1, cur + [v])
    rec(0, [])
    return sorted(out, key=str)


def advance_choices(cfg, x, guarded):
    old = cfg[x]
    if old == SUP:
        return []
    others = [v for i, v in enumerate(cfg) if i != x and v != SUP]
    top = max(others + [old]) + 1
    outs = set()
    for v in range(old, top + 1):
        c = list(cfg)
        c[x] = v
        outs.add(normalize(tuple(c)))
    if guarded:
        c = list(cfg)
        c[x] = SUP
        outs.add(normalize(tuple(c)))
    return sorted(outs, key=str)


def stable_less(cfg, y, x):
    """head y strictly precedes head x in the stable order (key, sequence index), exhausted = +inf"""
    if cfg[y] == SUP:
        return False
    if cfg[x] == SUP:
        return True
    return cfg[y] < cfg[x] or (cfg[y] == cfg[x] and y < x)


# ------------------------------------------------------------ the goto program
class MergeProgram:
    def __init__(self, fn, tu):
        self.fn = fn
        self.tu = tu
        top = kids(fn.body)
        self.prog = []
        self.labels = {}
        for s in top:
            if s["k"] == "LabelStmt":
                self.labels[s["label"]] = len(self.prog)
                self.prog.append(("label", s["label"], s))
                self.prog.append(("stmt", kids(s)[0]))
            else:
                self.prog.append(("stmt", s))
        # sequence cursors: locals constructed from seqs_begin[i].first / .second
        self.seqvar = {}
        self.seqs_param = fn.params[0]["did"]
        self.target = fn.params[2]["did"]
        self.size = fn.params[3]["did"]
        for s in top:
            if s["k"] == "DeclStmt":
                for v in kids(s):
                    if kids(v) and "callee" in kids(v)[0] and kids(v)[0]["k"] == "CXXConstructExpr":
                        args = kids(kids(v)[0])
                        idx = []
                        for a in args[:2]:
                            f = match.field_of(a)
                            if f:
                                p = match.index_parts(f[0])
                                if p and ref_of(p[0]) == self.seqs_param and const_int(p[1]) is not None:
                                    idx.append((const_int(p[1]), f[1]))
                        if len(idx) == 2 and idx[0][0] == idx[1][0] and (idx[0][1], idx[1][1]) == ("first", "second"):
                            self.seqvar[v["did"]] = idx[0][0]
                        elif idx:
                            raise Undecidable("%s: cursor %s is not built from (seqs[i].first, seqs[i].second)" % (fn.nloc(v), v["name"]))
        self.k = len(self.seqvar)
        if sorted(self.seqvar.values()) != list(range(self.k)) or self.k < 2:
            raise Undecidable("%s: could not identify the sequence cursors" % fn.loc)
        self.ops = {}

    def op_sem(self, call):
        did = call["callee"]["did"]
        if did not in self.ops:
            f = self.tu.by_did.get(did)
            if f is None:
                raise Undecidable("%s: body of comparison operator not in IR" % self.fn.nloc(call))
            self.ops[did] = op_table(f)
        return self.ops[did]

    def seq_of(self, e):
        r = ref_of(e)
        return self.seqvar.get(r)


class Explorer:
    def __init__(self, prog, guarded, report):
        self.p = prog
        self.guarded = guarded
        self.report = report            # report(rule, sig, msg, node)
        self.seen = set()
        self.emissions = 0
        self.transitions = 0
        self.finish_checked = False

    def compare(self, call, cfg):
        a, b = kids(call)
        x, y = self.p.seq_of(a), self.p.seq_of(b)
        if x is None or y is None:
            raise Undecidable("%s: comparison of something that is not a sequence cursor: %s"
                              % (self.p.fn.nloc(call), dtable.describe(call)))
        s1, s2 = cfg[x] == SUP, cfg[y] == SUP
        c12 = (not s1 and not s2) and cfg[x] < cfg[y]
        c21 = (not s1 and not s2) and cfg[y] < cfg[x]
        return self.p.op_sem(call)[(s1, s2, c12, c21)]

    def run(self):
        fn = self.p.fn
        work = []
        for cfg in all_configs(self.p.k, self.guarded):
            work.append((0, cfg, None))
        while work:
            pc, cfg, pend = work.pop()
            key = (pc, cfg)
            if pend is None:
                if key in self.seen:
                    continue
                self.seen.add(key)
            for nxt in self.step(pc, cfg, pend):
                work.append(nxt)
        return len(self.seen)

    # executes from pc until the next label is entered (returns successor states)
    def step(self, pc, cfg, pend):
        out = []
        stack = [(cfg, pend, (("pc", pc),))]
        guard = 0
        while stack:
            guard += 1
            if guard > 200000:
                raise Undecidable("merge automaton exploration does not terminate")
            cfg, pend, cont = stack.pop()
            if not cont:
                continue
            frame = cont[-1]
            if frame and frame[0] == "pc":
                n = frame[1]
                if n >= len(self.p.prog):
                    continue
                item = self.p.prog[n]
                if item[0] == "label":
                    self.enter(item[1], cfg, pend, item[2], out)
                    continue
                s = item[1]
                newcont = cont[:-1] + (("pc", n + 1),)
            else:
                if not frame:
                    stack.append((cfg, pend, cont[:-1]))
                    continue
                s = frame[0]
                newcont = cont[:-1] + (tuple(frame[1:]),)
            for kind, a, b in self.exec_stmt(s, cfg, pend):
                if kind == "next":
                    stack.append((a, b, newcont))
                elif kind == "stmts":
                    stmts, cfg2, pend2 = a
                    stack.append((cfg2, pend2, newcont + (tuple(stmts),)))
                elif kind == "goto":
                    cfg2, pend2 = b
                    self.enter(a, cfg2, pend2, s, out)
        return out

    def enter(self, label, cfg, pend, node, out):
        if label not in self.p.labels:
            raise Undecidable("%s: goto to unknown label %s" % (self.p.fn.loc, label))
        if pend is not None and pend.get("open"):
            self.pairing_incomplete(pend, node)
        elif pend is not None and not pend.get("checked") and label not in self.finish_labels():
            self.report("MERGE34-PAIRING", "emit%d:no-length-check" % pend["x"],
                        "the next emission is reached without testing the remaining length", node)
        if label in self.finish_labels():
            self.check_finish(label)
            return
        self.transitions += 1
        out.append((self.p.labels[label] + 1, cfg, None))

    def finish_labels(self):
        if not hasattr(self, "_fin"):
            self._fin = set()
            for name, idx in self.p.labels.items():
                # a label whose block writes cursors back and returns
                j = idx + 1
                blk = []
                while j < len(self.p.prog) and self.p.prog[j][0] == "stmt":
                    blk.append(self.p.prog[j][1])
                    j += 1
                if blk and blk[-1]["k"] == "ReturnStmt" and not any(self.is_emit(s) for s in blk):
                    self._fin.add(name)
        return self._fin

    def is_emit(self, s):
        b = match.binop(s, ("=",))
        if b:
            d = match.deref_of(b[1])
            if d is not None and ref_of(d) == self.p.target:
                return True
        return False

    def check_finish(self, name):
        if self.finish_checked:
            return
        self.finish_checked = True
        idx = self.p.labels[name]
        j = idx + 1
        written = {}
        ret_ok = False
        while j < len(self.p.prog) and self.p.prog[j][0] == "stmt":
            s = self.p.prog[j][1]
            j += 1
            b = match.binop(s, ("=",))
            if b:
                f = match.field_of(b[1])
                c = match.call_named(b[2], ("iterator",))
                if f and f[1] == "first" and c:
                    p = match.index_parts(f[0])
                    if p and ref_of(p[0]) == self.p.seqs_param and const_int(p[1]) is not None:
                        written[const_int(p[1])] = self.p.seq_of(kids(c)[0])
                        continue
            if s["k"] == "ReturnStmt":
                e = strip_casts(kids(s)[0]) if kids(s) else None
                while e is not None and e["k"] == "CXXConstructExpr" and len(kids(e)) == 1:
                    e = strip_casts(kids(e)[0])
                ret_ok = e is not None and ref_of(e) == self.p.target
                continue
            raise Undecidable("%s: statement not understood in the finish block" % self.p.fn.nloc(s))
        for i in range(self.p.k):
            if written.get(i) != i:
                self.report("MERGE34-WRITEBACK", "seq%d" % i,
                            "finish block does not write cursor %d back to seqs[%d].first (writes %s)" % (i, i, written.get(i)),
                            self.p.prog[idx][2])
        if not ret_ok:
            self.report("MERGE34-WRITEBACK", "return", "finish block does not return the advanced target", self.p.prog[idx][2])

    def pairing_incomplete(self, pend, node):
        miss = [k for k in ("tgt", "size", "adv") if not pend.get(k)]
        self.report("MERGE34-PAIRING", "emit%d:missing-%s" % (pend["x"], "-".join(miss)),
                    "after emitting from sequence %d the block leaves without %s" % (pend["x"], ", ".join(
                        {"tgt": "++target", "size": "--size", "adv": "advancing that sequence"}[m] for m in miss)), node)

    def exec_stmt(self, s, cfg, pend):
        """returns list of (kind, a, b)"""
        if s is None:
            return [("next", cfg, pend)]
        p = self.p
        fn = p.fn
        k = s["k"]
        if k in ("NullStmt",):
            return [("next", cfg, pend)]
        if k in ("CXXStaticCastExpr", "CStyleCastExpr") and s.get("ty") == "void":
            return [("next", cfg, pend)]
        if k == "ConditionalOperator" and any(c.get("callee", {}).get("noreturn") for c in walk(s) if "callee" in c):
            return [("next", cfg, pend)]      # assert
        if k == "CallExpr" and s["callee"]["name"] == "unused":
            return [("next", cfg, pend)]
        if k == "DeclStmt":
            return [("next", cfg, pend)]
        if k == "CompoundStmt":
            return [("stmts", (kids(s), cfg, pend), None)]
        if k == "DoStmt":
            body, cond = kids(s)
            if const_int(cond) != 0:
                raise Undecidable("%s: loop in merge automaton" % fn.nloc(s))
            return [("stmts", ([body], cfg, pend), None)]
        if k == "GotoStmt":
            return [("goto", s["label"], (cfg, pend))]
        if k == "ReturnStmt":
            return [("stop", None, None)]
        if k == "IfStmt":
            c, t, e = kids(s)
            res = []
            b = match.binop(c, ("==", "!=", "<=", ">"))
            if b and ref_of(b[1]) == p.size and const_int(b[2]) == 0:
                # nondeterministic length: both branches
                if pend is not None:
                    pend = dict(pend, checked=True)
                    if pend.get("open") and not (pend.get("tgt") and pend.get("size") and pend.get("adv")):
                        self.pairing_incomplete(pend, s)
                        pend = dict(pend, open=False)
                    else:
                        pend = dict(pend, open=False)
                for br in (t, e):
                    if br is None:
                        res.append(("next", cfg, pend))
                    else:
                        res.append(("stmts", ([br], cfg, pend), None))
                return res
            if "callee" in strip_casts(c) and strip_casts(c).get("op") in ("<", "<=", ">", ">="):
                if pend is not None and pend.get("open"):
                    self.pairing_incomplete(pend, s)
                    pend = dict(pend, open=False)
                v = self.compare(strip_casts(c), cfg)
                br = t if v else e
                if br is None:
                    return [("next", cfg, pend)]
                return [("stmts", ([br], cfg, pend), None)]
            raise Undecidable("%s: condition not understood in merge automaton: %s" % (fn.nloc(c), dtable.describe(c)))
        # emission
        if self.is_emit(s):
            b = match.binop(s, ("=",))
            d = match.deref_of(b[2])
            x = p.seq_of(d) if d is not None else None
            if x is None:
                raise Undecidable("%s: emitted value is not the head of a sequence cursor" % fn.nloc(s))
            if pend is not None and not pend.get("checked"):
                self.report("MERGE34-PAIRING", "emit%d:no-length-check" % x,
                            "two emissions without an intervening test of the remaining length", s)
            if all(v == SUP for v in cfg):
                return [("stop", None, None)]     # unreachable when size <= total
            self.emissions += 1
            lower = [y for y in range(p.k) if y != x and stable_less(cfg, y, x)]
            if cfg[x] == SUP or lower:
                self.report("MERGE34-STABLE-MIN", "emit%d" % x,
                            "sequence %d is emitted although sequence %s holds a smaller element (stable order) in head order %s"
                            % (x, lower, fmt_cfg(cfg)), s)
                return [("stop", None, None)]
            return [("next", cfg, dict(x=x, open=True, tgt=False, size=False, adv=False, checked=False))]
        u = match.unop(s, ("++", "--"))
        if u:
            op, operand, _ = u
            r = ref_of(operand)
            if r == p.target and op == "++":
                if pend is not None:
                    pend = dict(pend, tgt=True)
                return [("next", cfg, pend)]
            if r == p.size and op == "--":
                if pend is not None:
                    pend = dict(pend, size=True)
                return [("next", cfg, pend)]
            x = p.seq_of(operand)
            if x is not None and op == "++":
                if pend is None or not pend.get("open") or pend["x"] != x:
                    self.report("MERGE34-PAIRING", "advance%d" % x,
                                "sequence %d is advanced although sequence %s was emitted" % (x, pend["x"] if pend else None), s)
                    return [("stop", None, None)]
                pend = dict(pend, adv=True)
                return [("next", c2, pend) for c2 in advance_choices(cfg, x, self.guarded)]
        raise Undecidable("%s: statement not understood in merge automaton: %s" % (fn.nloc(s), dtable.describe(s)))


def fn_loc(fn):
    return fn.loc


def fmt_cfg(cfg):
    items = sorted(range(len(cfg)), key=lambda i: (cfg[i] == SUP, cfg[i] if cfg[i] != SUP else 0, i))
    out = []
    for j, i in enumerate(items):
        if j:
            a, b = items[j - 1], i
            out.append("=" if cfg[a] == cfg[b] else "<")
        out.append("seq%d%s" % (i, "(end)" if cfg[i] == SUP else ""))
    return "".join(out)
