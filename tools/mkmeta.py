#!/usr/bin/env python3
"""writes seeded/<id>/meta.json: which property the change breaks, what it needs to manifest (taken from the
author's notes), what was run to confirm it (confirm.log), and which rules of the current checks report it
(obtained by applying the patch to a scratch copy of /repo/tlx and running the quick check against it)."""
import glob, json, os, re, subprocess, sys
HERE = os.path.dirname(os.path.dirname(os.path.abspath(__file__)))
only = sys.argv[1:]
for d in sorted(glob.glob(os.path.join(HERE, "seeded", "C*_*"))):
    sid = os.path.basename(d)
    if only and sid not in only:
        continue
    pid = sid.split("_")[0]
    notes = open(os.path.join(d, "notes.md")).read() if os.path.exists(os.path.join(d, "notes.md")) else ""
    title = notes.strip().splitlines()[0].lstrip("# ").strip() if notes.strip() else ""
    # section about what it needs
    needs = ""
    secs = re.split(r"\n(?=#+ )", notes)
    for s in secs:
        h = s.splitlines()[0].lower() if s.strip() else ""
        if any(w in h for w in ("manifest", "needs", "need", "trigger", "specific")):
            body = " ".join(x.strip() for x in s.splitlines()[1:] if x.strip() and not x.startswith("```"))
            needs = body[:900]
            break
    if not needs:
        m = re.search(r"(?is)(needs?|requires?|manifest)[^.]*\.[^.]*\.", notes)
        needs = " ".join(m.group(0).split())[:600] if m else ""
    conf = open(os.path.join(d, "confirm.log")).read().strip().splitlines() if os.path.exists(os.path.join(d, "confirm.log")) else []
    confirmed = [l for l in conf if l.startswith("CONFIRMED")]
    tests = [l for l in conf if "tests passed" in l]
    # run the check against the change: on a scratch copy of /repo/tlx (the check reads the tree named by TLX_REPO), so that
    # nothing else that happens to read /repo at the same time sees the change; `git apply --check` tells whether the
    # patch still applies to the current HEAD
    import shutil, tempfile
    ap = subprocess.run(["git", "-C", "/repo", "apply", "--check", os.path.join(d, "patch.diff")], capture_output=True, text=True)
    rules, rc, applies = [], None, ap.returncode == 0
    if applies:
        scratch = tempfile.mkdtemp(prefix="mkmeta_", dir="/var/tmp")
        try:
            shutil.copytree("/repo/tlx", os.path.join(scratch, "tlx"))
            subprocess.run(["patch", "-p1", "-s", "--no-backup-if-mismatch", "-i", os.path.join(d, "patch.diff")], cwd=scratch, check=True)
            env = dict(os.environ, TLX_REPO=scratch, VERIF_OUT=os.path.join(scratch, "_out"))
            p = subprocess.run([os.path.join(HERE, "check"), pid], capture_output=True, text=True, env=env)
            rc = p.returncode
            rules = sorted(set(re.findall(r"rule (\S+) violated in (\S+):", p.stdout)))
        finally:
            shutil.rmtree(scratch, ignore_errors=True)
    meta = {
        "id": sid,
        "property": pid,
        "breaks": title,
        "needs_to_manifest": needs,
        "what_was_run": {
            "confirmation": "tools/confirm_seed.sh in a scratch worktree of /repo: demo passes on the pristine tree, patch applies, named test executables build and pass, demo fails on the patched tree",
            "confirm_result": confirmed[-1] if confirmed else "",
            "tests": tests[-1].strip() if tests else "",
        },
        "check_result": {
            "applies_to_current_head": applies,
            "quick_check_exit": rc,
            "reported_by": [{"rule": r, "function": f} for r, f in rules],
        },
    }
    json.dump(meta, open(os.path.join(d, "meta.json"), "w"), indent=1)
    print(sid, "applies" if applies else "DOES-NOT-APPLY", rc, ",".join(sorted(set(r for r, _ in rules))))
