#!/bin/bash
# seeds_dir.sh <dir-with-patch.diff>... : quick check of the property named in the path (…_Cxx/…) against each seeded patch
for d in "$@"; do
  pid=$(echo $d | grep -o 'C[0-9][0-9]' | head -1)
  r=$(/verif/tools/scratchtest.sh $d/patch.diff $pid 2>&1 | tail -1)
  echo "$d: ${r:0:260}"
done
