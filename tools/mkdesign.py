#!/usr/bin/env python3
"""assembles DESIGN.md = docs/design_head.md + generated §5 + docs/design_mid.md + generated §8 + docs/design_tail.md"""
import os, subprocess, sys
HERE = os.path.dirname(os.path.dirname(os.path.abspath(__file__)))
gen = subprocess.run([sys.executable, os.path.join(HERE, "tools", "mkdesign_sections.py")], capture_output=True, text=True, check=True).stdout
i = gen.index("\n## 8. Seeded changes")
sec5, sec8 = gen[:i], gen[i:]
out = open(os.path.join(HERE, "docs", "design_head.md")).read() + sec5 + open(os.path.join(HERE, "docs", "design_mid.md")).read() + sec8 + open(os.path.join(HERE, "docs", "design_tail.md")).read()
open(os.path.join(HERE, "DESIGN.md"), "w").write(out)
print("DESIGN.md: %d lines" % out.count("\n"))
