#!/usr/bin/env python3
"""prints DESIGN.md §5 (per property, as built) and §8 (seeded changes) from tools/claims.py, evidence/*.json
and seeded/*/meta.json, plus the hand-maintained history tables below"""
import glob, json, os, sys
HERE = os.path.dirname(os.path.dirname(os.path.abspath(__file__)))
sys.path.insert(0, os.path.join(HERE, "tools"))
import claims
props = [json.loads(l) for l in open(os.path.join(HERE, "properties.jsonl"))]

# rules written only after a seeded change (first or second round) had shown the gap
AFTER_SEED = {
 "C01": ["round 1: ITER-WALK-STOP and NODE-CAPACITY were written with C01_A/B known (both are clauses of the first design); round 2: C01_D reported by DESCENT-SEARCH (existed), "
         "BULK-LOAD-SHAPE written with C01_C known"],
 "C02": ["round 1: UNDERFLOW-LEGAL's separator-slot clause and ASSIGN-ORDER written with C02_A/B known; round 2: C02_C (same slip as C01_B) and C02_D reported by NODE-CAPACITY / ROOT-COLLAPSE (existed)"],
 "C03": ["round 1: HOME-BEFORE-INPLACE and LCP-SLOT0 written with C03_A/B known; round 2: C03_C/D reported by DEPTH-ADVANCE and ENTRY-FORWARD/CHAR-UNSIGNED (existed)"],
 "C04": ["round 1: COPY-BACK and the memory-order clause of RMW-RESULT; round 2: C04_D reported by USE-AFTER-RELEASE (existed), PACKED-LCP-MASK written with C04_C known; "
         "STALE-DATA-POINTER written after a sub-agent's side remark, it found a genuine defect; RESULT-ARRAY written after two refactoring sub-agents reported wrong LCP values of the "
         "pristine code under tiny thresholds, it found a genuine defect"],
 "C05": ["round 1: PHASE-LENGTH-SUM, TAIL-ORDER; round 2: C05_D reported by SENTINEL-REACH (existed), C05_C by C09's REPLAY-TABLE once applied to the trees C05 instantiates"],
 "C06": ["round 1: SPLIT-INDEX-BOUND; round 2: C06_D reported by SPLIT-INDEX-BOUND (existed), C06_C by C09's REPLAY-TABLE once applied to the trees C06 instantiates"],
 "C07": ["round 2: C07_C/D sit in multisequence_partition and are reported by LEXI-TABLE / TWIN-AGREE once C08's rules are applied inside C07; the sub-agent's side remark on sampling "
         "splitting led to SLAB-LENGTH and a genuine defect"],
 "C08": ["round 1: TWIN-AGREE; round 2: COMP-THREADED and SIGN-TEST-SIGNED written with C08_C/D known (the witness gained an unsigned rank type and std::greater)"],
 "C09": ["round 2: C09_D reported by REPLAY-TABLE (existed); the padding-tie clause of REPLAY-TABLE written with C09_C known"],
 "C10": ["round 1: JOB-LIFETIME; round 2: C10_D reported by NOTIFY-KIND (existed), EXCEPTION-BALANCED written with C10_C known"],
 "C11": ["round 2: both reported by rules that existed (SEM-GUARDED-TAKE, BARRIER-ORDER)"],
 "C12": ["round 2: both reported by RC-CONSERVE (existed)"],
 "C13": ["round 1: HANDLE-GROW, CLEAR-COMPLETE; round 2: BUILD-REPLACES and the clear_all() instance of CLEAR-COMPLETE written with C13_C/D known; CLZ-WIDTH written after a "
         "sub-agent's side remark, it found a genuine defect"],
 "C14": ["round 1: the shift-width clause of SIP-TAIL; round 2: C14_C reported by FINAL-THRESHOLDS (existed), SIMD-ALIGNMENT written with C14_D known"],
 "C15": ["round 2: C15_D reported by NET-SORTS (existed); on C15_C the old CSWAP-TABLE could only say 'cannot decide' (exit 2), it now evaluates min/max formulations"],
 "C16": ["round 1: CURSOR-RESET, SV-COUPLED; round 2: C16_C reported by CURSOR-RESET (existed), CAPACITY-SPARE-SLOT written with C16_D known"],
 "C17": ["round 1: LRU-PUT-STORES, SPLAY-WRITEBACK; round 2: both reported by rules that existed (LRU-ENDS, SPLAY-ALLOC-PAIR)"],
 "C18": ["round 1: SCAN-BOUND; round 2: both exposed holes in existing rules - BYTE-ORDER-UNSIGNED did not look at hand-written char comparisons (C18_C), and GUARD-TABLES accepted any scan "
         "on an empty view (C18_D); both closed"],
 "C19": ["round 1: B64-SKIP, FORWARD-ROLES; round 2: C19_C reported by QUOTE-AGREE (existed), REPLACE-RESUME written with C19_D known"],
 "C20": ["round 1: BOOL-TOTAL, COMBINE-FORMULA; round 2: C20_D reported by NO-OVERFLOW-BEFORE-NARROW (existed); COMBINE-FORMULA evaluated `/` exactly and missed a truncating integer "
         "division (C20_C), closed"],
}
# third round (after the audit of all rule files): E and F of every property
ROUND3 = {
 "C01": ["round 3: both reported by rules that existed (DESCENT-SEARCH on the const upper_bound overload, UNDERFLOW-LEGAL's separator-slot clause in the iterator erase)"],
 "C02": ["round 3: both reported by rules that existed (NODE-CAPACITY, ROOT-COLLAPSE)"],
 "C03": ["round 3: C03_E reported by HOME-BEFORE-INPLACE (existed); C03_F (final-bucket test of the 16-bit loop ordered after the insertion-sort branch) was MISSED; DEPTH-ADVANCE now searches, on every understood path that hands a bucket of two or more strings to a sorter, for a bucket index that is a multiple of 256 and satisfies the path"],
 "C04": ["round 3: C04_F reported by USE-AFTER-RELEASE (existed); C04_E (a finished range of a flipped shadow pointer reported done without copy_back in the work-sharing twin) was MISSED: COPY-BACK only looked at insertion_sort_cache; it is now anchored at every donesize() report"],
 "C05": ["round 3: both reported by rules that existed (MERGE2-TABLE, REPLAY-TABLE)"],
 "C06": ["round 3: C06_F (same slip as C07_E) was MISSED, see C08; C06_E (destroy loop bounded by the merged instead of the constructed count) was 'cannot decide' and is now reported by TEMP-DESTROY's whole-body evaluation in fully specified worlds"],
 "C07": ["round 3: C07_F reported by STABLE-PROPAGATE (existed); C07_E (tie-break of the left-maximum scan in multisequence_partition) was MISSED by EDGE-TIEBREAK, which left ties free everywhere; found independently by two agents (C06_F); the scan whose winner is recorded together with its sequence index must keep the lexicographic maximum"],
 "C08": ["round 3: both reported by rules that existed (LEXI-TABLE, SIGN-TEST-SIGNED)"],
 "C09": ["round 3: both reported by INIT-TABLE (existed)"],
 "C10": ["round 3: both reported by rules that existed (NOTIFY-KIND; EXCEPTION-BALANCED and JOB-LIFETIME)"],
 "C11": ["round 3: both reported by rules that existed (NOTIFY-KIND, SPIN-ORDER)"],
 "C12": ["round 3: both reported by rules that existed (RC-ATOMIC-RMW, RC-CONSERVE)"],
 "C13": ["round 3: both reported by rules that existed (HANDLE-GROW, CLEAR-COMPLETE); afterwards RANK-TABLE was revived as an evaluation and BUCKET-INDEX, RADIX-VALUE, RADIX-ORDER, CLEAR-STATE were added for the value-level clauses"],
 "C14": ["round 3: both reported by rules that existed (FINAL-THRESHOLDS / PROCESS-CONSERVE, SIMD-ALIGNMENT)"],
 "C15": ["round 3: both reported by rules that existed (NET-SORTS / DISPATCH-SIZE, CSWAP-TABLE)"],
 "C16": ["round 3: C16_E reported by CURSOR-RESET (existed); C16_F (copy constructor reading the source's storage at an unmasked cursor) was 'cannot decide' and is now reported by COPY-ELEMENTS' concrete evaluation over wrapped sources"],
 "C17": ["round 3: C17_F reported by SPLAY-ALLOC-PAIR (existed); C17_E (key for the coupled index erase read from a node that was moved from) was MISSED; LRU-COUPLED now forbids reading a key or iterator argument from an object moved from earlier on the path"],
 "C18": ["round 3: both reported by rules that existed (GUARD-TABLES; BYTE-ORDER-UNSIGNED and REL-FROM-COMPARE); afterwards COMPARE-VALUE, OPERATOR-VALUE, PREFIX-SUFFIX-VALUE, ELEMENT-ACCESS-VALUE, TO-STRING-VALUE were added"],
 "C19": ["round 3: C19_E reported by QUOTE-AGREE (existed); C19_F (trim with a drop set that contains NUL / is not terminated) was MISSED: the trim family was outside the claimed clauses; TRIM-SEMANTICS and ten more helper rules now evaluate all 66 overloads of the pure helpers"],
 "C20": ["round 3: both reported by rules that existed (COMBINE-FORMULA, BOOL-TOTAL); afterwards FAMILY-VALUE, TEMPLATE-VALUE, ROTATE-FRONT, ABS-DIFF-VALUE, SGN-VALUE, DIV-CEIL-VALUE, ROUND-UP-VALUE were added"],
}
# fourth round (after the second pass): G and H of every property
ROUND4 = {
 "C04": ["round 5 (mini round, six properties): C04_I (the done-flag of the smallest splitter cleared by the level-order tree builder) MISSED: nothing checked the values of the packed splitter_lcp bytes; SPLITTER-LCP-FLAGS evaluates them; round 4: both MISSED (C04_G: scalar classifier descent `<` vs `<=` of its unrolled twin; C04_H: work sharing hands out the top instead of the bottom live level); CLASSIFY-BUCKET evaluates every descent routine of a classifier against the bucket numbering, FRONT-LEVEL ties the level handed out to the level retired"],
 "C09": ["round 4: C09_H reported by REPLAY-TABLE (existed); C09_G (sentinel taken by value, its address kept in the padding leaves) MISSED; PADDING gained a lifetime clause for every key pointer stored in a node"],
 "C10": ["round 4: C10_G reported by JOB-LIFETIME (existed); C10_H (lock-free early return testing half of the wait predicate) MISSED; WAIT-RETURN demands that every return of a waiting member has seen its full predicate under the mutex"],
 "C12": ["round 4: C12_G reported by RC-CONSERVE (existed); C12_H (unify() drops the decrement's result, wrong only if another owner releases concurrently) MISSED; RC-CONSERVE now re-runs every scenario with one step of another owner interleaved before each counter operation"],
 "C17": ["round 4: C17_G reported by LRU-PUT-STORES (existed); C17_H (`&&` for `||`: splay_erase removes the root for an absent key) MISSED; SPLAY-FOUND is a decision table of every key-equality decision after a splay"],
 "C18": ["round 4: C18_G reported by the value and byte-order rules (existed); C18_H (pointer shortcut in operator== forgets the length) MISSED because the evaluated operands never shared storage; the value rules now include aliased operands, FIND-VALUE was added"],
}
for _p in ("C01", "C02", "C03", "C05", "C06", "C07", "C08", "C11", "C13", "C14", "C15", "C16", "C19", "C20"):
    ROUND4[_p] = ["round 4: both reported by rules that existed"]
DROPPED = {
 "C03": ["INSSORT-TWINS compared the general iteration of the LCP insertion sort with its peeled last iteration as text (alpha-renamed): it fired on a behaviour-preserving restructuring of one of the two (§10) and was dropped; no semantic replacement is in reach"],
 "C08": ["TWIN-AGREE compared the decisions of multisequence_partition with those of multisequence_selection as text: it fired on one-sided behaviour-preserving edits (§10). It was replaced by rules that state the requirement directly and caught every seed it used to catch: GUARD-EXACT (a guarding edge is exactly `the element exists`, as a canonical linear inequality) and LEFT-BORDER-BOUND"],
 "C20": ["PLUS-TWINS compared operator+ with operator+= ; replaced by PLUS-COMBINES, which evaluates each of them on sample states and observes the helper calls"],
 "C07": ["LAST-SLAB-END: after the ADVANCE-EXACT fix the last slab's end is no longer a necessary condition; seed C07_A became behaviour-preserving (its demo passes) and is kept as the silent variant selftest/C07/silent_last_slab_to_end.patch"],
 "C17": ["LRU-SIBLINGS: fired on a behaviour-preserving variant (Set and Map may legitimately differ in a fast path)"],
}
FALSE_ALARMS = {
 "C01": ["UNDERFLOW-LEGAL pruned impossible situations only through atoms the region happened to test; replacing `right_parent == parent` by the equivalent `left_parent != parent` made infeasible situations look reachable. The structural atoms now always take part (silent variant kept).",
         "DESCENT-SIBLINGS first demanded the *adjacent* child of a neighbour below a different parent; the library passes `left->childid[left->slotuse - 1]`, which is harmless because such a neighbour is never a merge/shift partner (UNDERFLOW-LEGAL proves it). The rule now demands only null-ness agreement there.",
         "FRONTEND-FORWARD flagged the range insert of the set front ends, which loops over its own insert(): own-overload delegation is accepted."],
 "C02": ["NODE-ALLOC-OWNER matched `pair<InnerNode*, ...>` in bulk_load as a node allocation (substring match on the type): node types are now recognised exactly.",
         "RESULT-KEPT counted `result = erase_iter_descend(...)` (operator=) as a dropped result."],
 "C03": ["FALLBACK-FORWARD treated the unnamed third parameter of insertion_sort as a missing memory argument and the 3-parameter CE0 loop as an adapter.",
         "BKT-INDEX-BOUND: widening at non-loop-head blocks and indices fed by calls produced spurious bounds; widening is restricted to loop heads and only finite proven upper bounds >= N are reported. The three remaining reports were genuine (fixed)."],
 "C05": ["SENTINEL-REACH tracked rewrites of the algorithm tag only in front of switch(k); a correct refactor that moves the fallback into every case would have alarmed. Rewrites are now tracked per k-class (silent variant kept)."],
 "C06": ["BARRIER-PHASES: infeasible 'neither SAMPLING nor EXACT' path and .begin/.end members of the same slot: chain_waits, a blocked false edge and member-sensitive slots."],
 "C08": ["TWIN-AGREE compared multisets (loop-header counts differ between the twins): now sets. INDEX-GUARD was too strict on `> 1`."],
 "C10": ["TAKE-ATOMIC used reachability through the while(true) loop instead of dominance; floors of LOCKSET/NOTIFY-KIND were set above the confirmed instance count."],
 "C17": ["SPLAY-LINK flagged `(r ? r->left : N_left) = t` aliasing; made alias-aware."],
 "C18": ["OVERLOAD-ROLES flagged non-forwarding reimplementations; they are reported as 'own implementation'."],
}

def seeds_of(pid):
    out = []
    for d in sorted(glob.glob(os.path.join(HERE, "seeded", pid + "_*"))):
        mp = os.path.join(d, "meta.json")
        if os.path.exists(mp):
            out.append(json.load(open(mp)))
    return out

print("## 5. Per-property checks as built\n")
print("Every property is claimed at level *other* (a statically decided set of necessary conditions; the [eval] rules hold on the finite domain they name), except C15 (*proof*). "
      "For each property: the technique, what is decided, what is not, the rule instances on the current tree (quick tier), "
      "and the seeded changes with the rule that reports each. The rule ids are the ones printed by `./check`.\n")
for p in props:
    pid = p["id"]
    c = claims.CLAIMS[pid]
    ev = json.load(open(os.path.join(HERE, "evidence", pid + ".json")))
    cov = ev["coverage"]
    print("### %s — %s\n" % (pid, p["title"]))
    print("*Level:* %s. *Technique:* %s.\n" % (c["level"], c["technique"]))
    print("*Decided* ([struct] = decided over the code's structure for all values, [eval] = decided by interpreting the AST on the finite domain named, §4.1). %s\n" % c["text"])
    print("*Not decided / trusted.* %s\n" % c["note"])
    ri = cov.get("rule_instances", {})
    print("*Rule instances (quick tier, current tree):* %s — %d functions in %d translation unit(s), %.1f s.\n"
          % (", ".join("%s %d" % kv for kv in sorted(ri.items())), cov.get("functions_analysed", 0), cov.get("translation_units", 0), ev.get("wall_s", 0)))
    sd = seeds_of(pid)
    if sd:
        print("*Seeded changes:* " + "; ".join("%s → %s" % (m["id"], ", ".join(sorted(set(r["rule"] for r in m["check_result"]["reported_by"]))) or "NOT REPORTED") for m in sd) + ".\n")
    if pid in AFTER_SEED:
        print("*Seeds and rules, honestly:* " + "; ".join(AFTER_SEED[pid] + ROUND3.get(pid, []) + ROUND4.get(pid, [])) + ".\n")
    if pid in DROPPED:
        print("*Dropped:* " + "; ".join(DROPPED[pid]) + ".\n")
    if pid in FALSE_ALARMS:
        print("*False alarms met and corrected in the machinery:* " + " ".join(FALSE_ALARMS[pid]) + "\n")

print("\n## 8. Seeded changes\n")
print("| seed | what it breaks | needs | reported by |\n|---|---|---|---|")
for d in sorted(glob.glob(os.path.join(HERE, "seeded", "C*_*"))):
    mp = os.path.join(d, "meta.json")
    if not os.path.exists(mp):
        continue
    m = json.load(open(mp))
    needs = m["needs_to_manifest"].replace("|", "/").replace("\n", " ")
    print("| %s | %s | %s | %s |" % (m["id"], m["breaks"].replace("|", "/")[:150], needs[:260] + ("…" if len(needs) > 260 else ""),
                                   ", ".join(sorted(set(r["rule"] for r in m["check_result"]["reported_by"]))) or "—"))
