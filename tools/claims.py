NOTES = ("Static analysis only: every check re-extracts a typed AST + CFG of the current /repo tree with the "
         "LibTooling extractor build/tlxir and decides repository-specific rules in Python. tlx code is never compiled "
         "into a program and run; rules marked [eval] in level_claimed.text interpret the extracted AST themselves on a small finite "
         "domain that they name (bounded evidence, DESIGN.md 4.1), rules marked [struct] decide over the code's structure for all values. Exit 0 = all claimed clauses hold, 1 = VIOLATION lines, 2 = analysis broken / undecidable "
         "(anchor vanished, construct not understood). Clauses that are not decided are listed per property in level_note.")

ALLP = ['C%02d' % i for i in range(1, 21)]
ENGINES = [
    {"name": "tlxir", "path": "tools/tlxir.cc", "serves_properties": ALLP,
     "kind_free_text": "clang 14 LibTooling extractor: typed AST with resolved callees, template instantiations, constant values, clang CFG -> JSON (no tlx code is run)"},
    {"name": "cfg / cfgbuild", "path": "engine/cfg.py", "serves_properties": ["C02", "C03", "C04", "C05", "C06", "C07", "C08", "C10", "C13", "C16", "C17", "C20"],
     "kind_free_text": "CFG positions, dominance, post-dominance, path search avoiding positions / blocked edges; CFG rebuilt from a rewritten statement tree"},
    {"name": "dtable", "path": "engine/dtable.py", "serves_properties": ["C01", "C02", "C04", "C05", "C08", "C09", "C13", "C17"],
     "kind_free_text": "decision tables: a loop-free fragment explored under every consistent valuation of its boolean atoms; the 'cannot decide' exception used by all rules"},
    {"name": "order", "path": "engine/order.py", "serves_properties": ["C05"], "kind_free_text": "order automata of the goto-encoded merges, explored to fixpoint"},
    {"name": "sync", "path": "engine/sync.py", "serves_properties": ["C10", "C11"], "kind_free_text": "lock-state dataflow over the CFG, wait/notify extraction"},
    {"name": "mustfact / linear", "path": "engine/mustfact.py", "serves_properties": ["C04", "C08", "C16"], "kind_free_text": "must-fact dataflow; guards as canonical linear inequalities"},
    {"name": "intervals", "path": "engine/intervals.py", "serves_properties": ["C03", "C04"], "kind_free_text": "forward interval analysis with branch refinement and threshold widening"},
    {"name": "absexec", "path": "engine/absexec.py", "serves_properties": ["C01", "C02"], "kind_free_text": "abstract execution of node-array code: small concrete integers, opaque labels for elements, every access bounds-checked"},
    {"name": "skel", "path": "engine/skel.py", "serves_properties": ["C05", "C06", "C07", "C09", "C10", "C11", "C14", "C16", "C20"],
     "kind_free_text": "integer-skeleton evaluator: the AST fragment is interpreted on a small grid of the integers that steer it, data are labels, core calls are observed events"},
    {"name": "normalize", "path": "engine/normalize.py", "serves_properties": ALLP,
     "kind_free_text": "normalisation of novelties against data/known.json (helpers that did not exist are inlined, new never-written locals seen through where provably stable)"},
    {"name": "rule-local evaluators", "path": "rules/", "serves_properties": ["C11", "C12", "C13", "C14", "C15", "C16", "C18", "C19", "C20"],
     "kind_free_text": "small-scope abstract evaluation of member functions' ASTs on finite domains chosen by the rule (see DESIGN.md 4.1): bounded evidence"},
]

TRUST = "Trusted: clang 14 front end, tools/tlxir.cc, the Python engines and the frozen idiom tables in the rule file. "

CLAIMS = {
 "C15": dict(
    level="proof",
    technique="static analysis: comparator-network extraction from the instantiated AST (abstract interpretation of slot indices) + zero-one principle decided exhaustively; decision table for the compare-exchange functor",
    text=("Complete static decision: for all three families and n=2..16 the compare-exchange sequence is extracted from "
          "the instantiated code and shown to sort all 2^n zero-one inputs (zero-one principle => every input, every strict "
          "weak order); each size dispatcher is interpreted for sizes 0..16 and must reach a network sorting exactly slots "
          "0..n-1; CS_IfSwap is evaluated on two labelled elements for the three consistent comparator outcomes and must leave a permutation "
          "of the two elements with not(right<left) (so a min/max formulation that loses one of two equivalent elements is reported). Every input is covered because the code is data-oblivious."),
    note=(TRUST + "Assumes the comparator is a strict weak order and std::swap exchanges its arguments. "
          "Sizes above 16 (abort) are outside the property."),
 ),
}

CLAIMS["C09"] = dict(
    level="other",
    technique="static analysis: decision tables extracted from the instantiated AST of the replay loops / init_winner, enumerated over all weak-order-consistent atom valuations; idiom rules on loop ranges and stores",
    text=("Decides the local decisions of all eight loser-tree classes completely: REPLAY-TABLE (swap required when the stored loser is "
          "strictly smaller in (exhausted,key[,source]), forbidden when the challenger is; in the unguarded unstable trees also forbidden on ties, because the stored entry can be a "
          "padding leaf whose sentinel equals a live key), REPLAY-FIELDS (no mixed player), INIT-TABLE "
          "(ties to the lower index, loser stored), REPLAY-PATH (leaf parent -> root, slot 0 receives all fields), MIN-SOURCE, PADDING "
          "(all leaves beyond ik_ exhausted/sentinel), SWITCH-AGREE (copy variant iff sizeof<=2 words). These are necessary conditions of "
          "the property for every player count and history; the history-level tournament invariant follows by the usual induction, which "
          "is stated, not machine-checked."),
    note=(TRUST + "Not decided: the inductive tournament invariant over whole histories; behaviour of unguarded trees when a player runs out (outside the contract)."),
)

CLAIMS["C16"] = dict(
    level="other",
    technique="static analysis: per-mutator effect summaries with symbolic ring cursors (slot constructed/destroyed vs. slot entering/leaving [begin_,end_)), CFG dominance rules (clear before deallocate), field-completeness of moves, instantiated switch(Mode) allocation tables",
    text=("Decides the lifetime skeleton: SLOT-CURSOR (8 primitive RingBuffer mutators construct/destroy exactly the slot that enters/leaves the live "
          "range, cursors wrapped), ACCESSOR-CONVENTION (front/back/[]/size use the same convention), CLEAR-BEFORE-FREE, MOVED-EMPTY, COPY-ELEMENTS; "
          "SimpleVector SV-MODE-TABLE (new[]<->delete[], operator new<->operator delete, destructor loop only in NoInitButDestroy), SV-OWNER, "
          "SV-RESIZE-ORDER, SV-COUPLED, CURSOR-RESET, CAPACITY-SPARE-SLOT (every capacity computation keeps one slot beyond max_size: constructor, allocate, load). These are necessary conditions of 'an element is alive iff stored' on every path of every mutator; found the pop_back defect (fixed)."),
    note=(TRUST + "Not decided: equivalence with a bounded deque over whole histories, capacity preconditions (asserts), exception safety of element constructors."),
)

CLAIMS["C12"] = dict(
    level="other",
    technique="static analysis: path-sensitive effect summaries of every CountingPtr special member over a finite alias/ownership model (abstract interpretation of the instantiated AST with inlined helpers, deleter and temporaries); structural atomic-RMW rules on ReferenceCounter",
    text=("RC-CONSERVE: for all 15 special members/modifiers (+ make_counting, free swap) and every alias scenario (this in {null,A}, other in "
          "{null,A,B,same handle}, with/without external owners) the reference count equals the number of handles, the pointee is destroyed "
          "exactly once and exactly when the last handle goes, never used after destruction, moves null the source, unify clones iff shared. "
          "RC-ATOMIC-RMW: inc/dec are single atomic RMWs and the release decision is the decrement's own result with order >= acq_rel; "
          "RC-COPY-ZERO. Sequentially this decides the per-operation obligations completely; the concurrent clause is reduced to the atomic-RMW rule."),
    note=(TRUST + "Not decided: interleavings as such (argued from the atomicity of the single RMW), user-supplied pointee types that break the inc/dec protocol."),
)

CLAIMS["C05"] = dict(
    level="other",
    technique="static analysis: order automata extracted from the goto-encoded 3/4-way merges (abstract states = label x weak order of heads, explored to fixpoint), decision tables for comparison operators / two-way merge / bubble merge, event-order (typestate) rule for the loser-tree drivers, linear phase-length conservation and value-set dispatch analysis",
    text=("MERGE34-*: all four 3/4-way variants emit the stable minimum in every reachable abstract state (up to 300 states, 977 transitions), "
          "pair every emission with ++target/--size/++that sequence and a length test, and write all cursors back. GUARD-OPS-TABLE, MERGE2-TABLE, "
          "BUBBLE-TABLE: comparison and exchange decisions equal the (stable) order on all weak-order-consistent valuations. PHASE-LENGTH-SUM / TAIL-ORDER / "
          "PREPARE-BOUNDS: the combined variants emit exactly `size` elements over their two phases, merge the remaining sequences in index order and split "
          "with upper/lower_bound as stability requires. DISPATCH-TOTAL / STABLE-PROPAGATE / SENTINEL-REACH / FRONTEND-FLAGS over the four base instantiations. "
          "LT-PROTOCOL for the loser-tree drivers; COMP-THREADED (every std ordering algorithm receives the caller's comparator); the C09 replay / initialisation tables for the "
          "copy- and pointer-based loser trees instantiated here. Complete for k<=4 given sorted inputs; k>=5 rests on the tournament argument."),
    note=(TRUST + "Assumes sorted inputs, strict weak order, size <= total. Not decided: overhang arithmetic inside prepare_unguarded, k=1 copy, the "
          "tournament induction for k>=5, iterator validity of unguarded variants (sentinel contract)."),
)

CLAIMS["C13"] = dict(
    level="other",
    technique="static analysis: comparison-site decision tables with operand roles from index-variable provenance, evaluation of the extracted index arithmetic, coupled-update / reset / field-completeness rules over the instantiated AST and CFG",
    text=("HEAP-DECISION (12 sift/heapify functions of both d-ary heaps: smaller child selected, sink iff child<value, rise iff value<parent, ties free), "
          "INDEX-INVERSE (parent(left(k)+j)==k), HANDLE-COUPLED / HANDLE-RESET / HANDLE-GROW for the addressable heap's handle table (found the build_heap defect, fixed), "
          "RADIX-COUPLED (every bucket insertion/emptying keeps filled_, mins_ and size_ in step), CLEAR-COMPLETE (clear() of the heaps and clear_all() of the recursive bit array "
          "reset every mutable state field), BUILD-REPLACES (build_heap never appends to old contents), CLZ-WIDTH (the width constant of `W-1-clz(v)` equals the width of the type clz "
          "really sees, for 8..64-bit keys; found the narrow-key defect of the radix heap, fixed). "
          "Necessary conditions of top()/membership correctness on every path of every mutator."),
    note=(TRUST + "Not decided: heap order over histories (induction argued from the local decisions), the remaining radix bucket index arithmetic (row / bucket-in-row), "
          "monotonicity precondition of the radix heap. IntegerRank's sign-bit table is enforced by the library's own static_asserts (a broken table does not compile)."),
)

CLAIMS["C17"] = dict(
    level="other",
    technique="static analysis: per-path effect summaries of the LRU mutators over the atoms found/already-front; CFG must-pass-through, null-contradiction and link-overwrite rules on the splay tree functions; orientation tables",
    text=("LRU-COUPLED / LRU-ENDS / LRU-THROW-GUARD / LRU-PUT-STORES for all mutators of LruCacheSet and LruCacheMap on every path (hit and miss). "
          "SplayTree: SPLAY-WRITEBACK (the root returned by splay() is stored back on all paths), SPLAY-NULL (no dereference where the tree may be empty), "
          "SPLAY-OWNER (clear() nulls root_), SPLAY-LINK (no child link overwritten unless saved or known empty), SPLAY-ALLOC-PAIR, SPLAY-ORIENT. "
          "These rules found three genuine defects (clear(), exists() on an empty tree, multiset erase losing nodes), all fixed."),
    note=(TRUST + "Not decided: LRU order and BST order/rotations over whole histories; SplayTree::check() rejecting equal keys of a multiset is outside the property's operation list."),
)

CLAIMS["C10"] = dict(
    level="other",
    technique="static analysis: lock-state dataflow over the clang CFG (RAII guards, explicit lock/unlock, condition-variable waits) + lockset, must-pass-through (write => notify), predicate truth tables for write polarity, dominance/post-dominance ordering rules",
    text=("LOCKSET (jobs_ only under mutex_), TAKE-ATOMIC, RUN-UNLOCKED, JOB-LIFETIME, BUSY-PAIR, WRITE-NOTIFY (every enabling write to a wait-predicate variable is "
          "followed by a notify on all paths with the mutex held at the write or the notify), NOTIFY-KIND (found: cv_finished_ has two predicates but was signalled with "
          "notify_one - fixed), NO-BARE-WAIT, JOIN-UNLOCKED, EXCEPTION-BALANCED (no completion step shares the try block with the job invocation) over all ThreadPool members. Necessary conditions of exactly-once execution, quiescence of loop_until_empty and "
          "absence of lost wake-ups under every schedule."),
    note=(TRUST + "Frozen tables: jobs_ guarded by mutex_; the destructor need not notify cv_finished_. Not decided: deadlock freedom / termination over all schedules as such, done() equality, exceptions not derived from std::exception."),
)
CLAIMS["C11"] = dict(
    level="other",
    technique="static analysis: lock-state dataflow + dominance rules on Semaphore (guarded take, notify kind from the waiters' parameter-dependent predicate) and on both barriers (snapshot / arrival RMW / reset+action / release ordering, memory orders)",
    text=("Semaphore: SEM-LOCKSET, SEM-GUARDED-TAKE (value_ -= delta only after value_ >= delta+slack in the same hold), NO-BARE-WAIT, WRITE-NOTIFY, NOTIFY-KIND (found: signal() "
          "used notify_one although waiters have different demands - fixed). ThreadBarrierMutex BARRIER-ORDER and ThreadBarrierSpin SPIN-ORDER for wait and wait_yield: "
          "generation snapshot before arrival, last arriver decided by the RMW result, counter reset and action dominate the release, release/acquire orders."),
    note=(TRUST + "Not decided: liveness and fairness over all schedules; Semaphore::value() reads without the lock (not among the property's operations)."),
)

CLAIMS["C20"] = dict(
    level="other",
    technique="static analysis: overload-family and intrinsic width/guard rules over the typed AST, symbolic bit-provenance evaluation of the shift/mask fall-backs, overflow-before-narrowing rule, exact rational identity test of the extracted Aggregate formulas, pre-state purity (read-after-overwrite) rule",
    text=("FAMILY-COMPLETE, INTRINSIC-WIDTH, INTRINSIC-GUARD, SIGNED-FORWARD for nine helper families x six integer types; BIT-PROVENANCE decides bswap16/32/64_generic and "
          "rol/ror32/64_generic completely (all bits, all rotation amounts); NO-OVERFLOW-BEFORE-NARROW (found and fixed: round_down_to_power_of_two, div_ceil, round_up), BOOL-TOTAL (is_power_of_two evaluated on the extreme and small values of each type with signed-overflow detection); "
          "Aggregate PRESTATE-PURITY (found and fixed: operator+= variance), PLUS-COMBINES (operator+ and operator+= each evaluated on sample states: count added, mean/variance through the helpers on the pre-state, min/max of both), COMBINE-FORMULA (exact rational evaluation that honours C++ integer division), DIV-GUARD (found and fixed: NaN for two empty operands), ADD-ORDER."),
    note=(TRUST + "Not decided: the loop-based generic templates (clz/ctz/ffs/integer_log2), popcount SWAR arithmetic, agreement of intrinsics with their definition (trusted compiler), floating-point rounding."),
)

CLAIMS["C18"] = dict(
    level="other",
    technique="static analysis: small-model evaluation of the extracted integer guard prefixes against std::string_view's clamping rules, banned-primitive / signed-order who-may-call rules over the typed AST, scan-bound and position-flow rules, relational derivation and overload role tables",
    text=("GUARD-TABLES for at/substr/copy and the six find-family members (throw / early return / clamped scan start on all orderings of pos, size, n, argument size "
          "incl. npos wrap-around), NO-CSTR-PRIMITIVE and BYTE-ORDER-UNSIGNED (found and fixed: compare/rfind via strncmp, operator< on signed char), POS-REACHES-ACCESS "
          "(found and fixed: copy ignored pos), SCAN-BOUND, REL-FROM-COMPARE, OVERLOAD-ROLES (18 forwarding overloads). BYTE-ORDER-UNSIGNED also covers hand-written relational "
          "comparisons of two plain-char reads; the empty-view case of GUARD-TABLES accepts a scan only from the single valid position."),
    note=(TRUST + "Not decided: the values returned by the std algorithms the members delegate to (std::search, find_first_of, char_traits), i.e. search results as such; max_size(); UB cases of std::string_view."),
)

CLAIMS["C19"] = dict(
    level="other",
    technique="static analysis: table agreement (alphabet vs decode table, digit tables vs parser switches), symbolic bit provenance of the base64 encoder/decoder, scan-window guard rule, writer/reader class agreement via decision tables, end-of-input decision tables of the comparison overloads, parameter-name role rule for forwarding overloads",
    text=("B64-TABLES / B64-SKIP / B64-BITS decide that decode o encode is the identity on the bit level and that padding/whitespace are skipped; HEX-TABLES; SCAN-WINDOW "
          "(found and fixed: split/split_view missed a trailing separator and produced inverted ranges on overlapping matches); QUOTE-AGREE (found and fixed: join_quoted "
          "did not quote empty fields / leading quotes); CMP3-ORIENT and ICASE-OVERLOADS (found and fixed: compare_icase prefix sign x4, equal_icase(view,cstr)); FORWARD-ROLES; REPLACE-RESUME (replace_all resumes exactly behind what it wrote)."),
    note=(TRUST + "Not decided: line-break placement of base64_encode, values of the pure helpers (trim, pad, replace_first, erase_all, contains, starts/ends_with, levenshtein, to_lower/upper), join/split round trip beyond the scan-window conditions."),
)

CLAIMS["C14"] = dict(
    level="other",
    technique="static analysis: evaluation of the integer skeleton of process()/finalize()/the SipHash tail on a grid of buffer fills and lengths with the bytes as labels (the compression calls are observed, not executed), constant tables recomputed from their defining formulas, truth tables / GF(2) basis evaluation of the extracted word functions, switch-table and shift-width rules for the SipHash tail",
    text=("PROCESS-STREAM / PROCESS-CONSERVE for the four process() functions: for buffer fills {0, 1, B/2, B-1} x input sizes {0, 1, B-1, B, B+1, 2B, 2B+5, 3B-1} the blocks handed to the "
          "compression function are (buffered bytes ++ input) cut into blocks, the rest is in buf_[0, curlen_), length_ grows by 8B per block, nothing is written outside buf_, the loop ends "
          "(independence of the digest from the chunking); FINAL-THRESHOLDS for every buffer fill 0..B-1: blocks == buffered ++ 0x80 ++ zeros ++ bit length in the digest's byte order, "
          "one or two blocks as needed, digest == state words in the digest's byte order after the last compression; HEX-FRONTENDS; CONST-TABLES (SHA-2 K/IV from roots of "
          "primes, MD5 K from sin, schedules); BOOLFN-TABLES; ROT-SETS; SIP-TAIL for both SipHash implementations (lengths 0..16: final word == len << 56 | tail byte j << 8j, byte shifts in 64-bit unsigned arithmetic); SIMD-ALIGNMENT (no aligned vector access through the caller's byte pointers)."),
    note=(TRUST + "Not decided: the compression rounds' dataflow (covered by the suite's vectors: any slip avalanches), SSE2 == portable SipHash beyond the tail assembly, 32-bit size parameter overflow for messages >= 4 GiB."),
)

CLAIMS["C08"] = dict(
    level="other",
    technique="static analysis: decision tables of the tie-break comparators and of the edge scans, must-fact dataflow over canonical linear inequalities for the index guards (safety and exactness) and the skew context of the priority queues, structural check of the stable middle decision",
    text=("Thin by nature - the halving refinement and the returned ranks are numeric. Decided: LEXI-TABLE (x4), PQ-ORIENT, EDGE-TIEBREAK, INDEX-GUARD (32 element accesses), "
          "MIDDLE-LEXI (found and fixed: partition split runs of equal elements by key only, violating the lower-sequence-first clause on 45808 of 411879 small inputs), "
          "GUARD-EXACT (one guarding edge of every element access is exactly `the element exists` - a stronger test skips a candidate) and LEFT-BORDER-BOUND (a zero left border moves by K exactly when K <= seqlen), "
          "COMP-THREADED, SIGN-TEST-SIGNED (locals whose sign is tested are signed also for an unsigned rank type; the witness instantiates size_t ranks and std::greater)."),
    note=(TRUST + "Not decided: exactness of the returned rank, left <= right, selection's value/offset (numeric refinement)."),
)

CLAIMS["C06"] = dict(
    level="other",
    technique="static analysis: construct/destroy pairing on the raw buffer by CFG dominance, barrier-phase rule (own-slot write / barrier / cross-slot read / barrier / release) with value-set handling of the splitting-algorithm branches, fork/join and capture rules, Stable propagation through the instantiated call chain",
    text=("TEMP-DESTROY (found and fixed: temporaries were never destroyed), BARRIER-PHASES, BARRIER-BALANCE, FORK-JOIN, INDEX-BY-COPY, STABLE-PROPAGATE "
          "(stable entry point -> stable_sort + stable multiway merge), SPLIT-INDEX-BOUND, COMP-THREADED, and the C09 tables for the pointer-based loser trees the merge of the runs uses. Necessary conditions of data-race freedom, termination at the barriers, "
          "stability and the 'every temporary copy is destroyed' clause."),
    note=(TRUST + "Not decided: sortedness / permutation (values; rests on C05, C08), splitting arithmetic, full data-race freedom. The OpenMP branch is not compiled in the witness."),
)
CLAIMS["C07"] = dict(
    level="other",
    technique="static analysis: definite-initialisation rule for the split tables (no fill inside a possibly empty loop), early-return and advancement rules, resolution of the per-slab length/position expressions to integer functions checked on a small grid, fork/join and worker-effect rules, Stable propagation and front-end agreement over the instantiated AST",
    text=("SPLIT-DEFINITE-INIT, ZERO-LENGTH, ADVANCE-EXACT, SLAB-LENGTH (the per-thread length as a function of (slab size, requested size, slab position), resolved through "
          "locals or per-slab vectors, must equal max(0, min(local, size - position)); the cursors handed back must be those of the last slab that merged something). Four genuine "
          "defects found and fixed: one thread with a partial merge, size 0, inputs over-advanced, negative slab length with sampling splitting. FORK-JOIN, INDEX-BY-COPY, "
          "WORKER-WRITES, STABLE-PROPAGATE for base and all four front ends, FALLBACK-SWITCH, COMP-THREADED, and the loser-tree tables of C09 for the trees instantiated here."),
    note=(TRUST + "Not decided: equality with the sequential result and disjointness of the output windows (depend on partition values, see C08)."),
)

CLAIMS["C04"] = dict(
    level="other",
    technique="static analysis: use-after-release rule over the CFG of every member function of the self-deleting job classes (release points: substep_notify_done, delete this, own phase-counter decrement, unheld enqueue), add-before-enqueue adjacency, atomic RMW result/order rules, dominance rules for phase arming and completion barrier, must-pass-through for copy_back, writer/reader mask agreement for the packed LCP byte, may-invalidate call summaries for cached buffer pointers",
    text=("USE-AFTER-RELEASE over all member functions of PS5SmallsortJob / PS5BigSortStep / PS5SortStep in all instantiations (found and fixed two heap-use-after-free defects: "
          "distribute_finished touching bkt_ after the final notify; sample()/count_finished() re-reading parts_ after the last enqueue), ADD-BEFORE-ENQUEUE, HANDLE-PAIR, "
          "RMW-RESULT (incl. memory order), PHASE-ARM, COMPLETION-BARRIER, COPY-BACK, PACKED-LCP-MASK (every read of the packed splitter_lcp byte uses the builder's masks), "
          "STALE-DATA-POINTER (a local caching member.data() is not used after a call that may re-allocate the member; found and fixed a third heap-use-after-free in sort_sample_sort), RESULT-ARRAY (what runs after a step's sub-sorts reads the strings from the original array, i.e. shadow() of a flipped pointer; found and fixed wrong LCP values of nested sample-sort levels). Memory-safety and hand-over conditions for every schedule and every tuning of the thresholds."),
    note=(TRUST + "Frozen table: functions running under run()'s anonymous handle. Not decided: sortedness and LCP values, full data-race freedom of the bucket arrays, termination; the ThreadPool is C10."),
)

CLAIMS["C01"] = dict(
    level="other",
    technique="static analysis: truth tables of the key predicates and of both in-node search branches over the user's less() (callee bodies inlined from the instantiated AST); decision tables over sibling/fill atoms for every underflow region with legality of the chosen merge/shift and its separator-slot argument; role resolution of the erase descents' neighbour bookkeeping; small-domain evaluation of the capacity predicates; forwarding/flag tables of the four front ends; twin agreement of the 16 iterator step functions",
    text=("Decides structural necessary conditions, not the observational equality itself: KEYPRED-TABLE, SEARCH-TABLE (binary and linear branch of find_lower/"
          "find_upper, leaf and inner instantiation, mean lower/upper bound), DESCENT-SEARCH (each lookup uses one search at every level and follows "
          "childid[result]; equal_range = (lower, upper)), HIT-TEST, ITER-WALK-STOP (erase(iterator) may abandon the walk over a run of equal keys only "
          "when the separator proves the key cannot follow), DESCENT-SIBLINGS, UNDERFLOW-LEGAL (all consistent null/few/same-parent situations x 4 regions: "
          "exactly one legal action, correct argument order, parent and separator slot), NODE-CAPACITY (is_full/is_few/is_underflow fit the node's own "
          "capacity for independent leaf/inner capacities: merge fits, donors keep the minimum), FRONTEND-FLAGS, FRONTEND-FORWARD, ITER-STEP. "
          "All for 8 tree instantiations (set/multiset/map/multimap x less/greater x default/small asymmetric traits); thorough adds three more capacity/"
          "search-threshold/key-type configurations."),
    note=(TRUST + "Assumed B+ tree shape facts used to prune impossible underflow situations are listed in the evidence. Not decided: returned iterator "
          "positions and contents over operation histories, split/bulk-load arithmetic, copies; those are value-level."),
)

CLAIMS["C02"] = dict(
    level="other",
    technique="static analysis: who-may-call rules for node allocation/release with type/allocator/counter agreement per branch; CFG dominance (free before slot reuse, clear before allocator replacement, copy after); path tables for clear()/root collapse/separator maintenance; abstract execution of the leaf-chain splices on a finite alias model (symbolic successor/tail that may be null); field completeness of swap; discarded-result rule; the underflow decision tables and capacity predicates shared with C01",
    text=("Decides structural necessary conditions of the invariants and of exact allocation: NODE-ALLOC-OWNER (allocate only in allocate_leaf/inner, release only in "
          "free_node, node type = rebound allocator = counter per branch, fresh leaf has null links), FREE-ON-UNLINK, ROOT-COLLAPSE, CLEAR-RESET, CHILD-RANGE "
          "(slotuse+1 children), ASSIGN-ORDER (old nodes are released through the allocator that produced them; copy after), SWAP-COMPLETE, SIZE-PAIR, "
          "LEAFCHAIN-SPLICE (split, merge, copy, bulk load keep a consistent doubly linked chain incl. head/tail for null and non-null neighbours), "
          "SEP-UPDATE (removing a leaf's largest key writes parent->slotkey[parentslot] or hands the key upwards in every situation), RESULT-KEPT, "
          "UNDERFLOW-LEGAL, NODE-CAPACITY."),
    note=(TRUST + "Not decided: balance, minimum fill and key order after each step of a history (value-level, what verify() checks at run time); exception safety of "
          "element copies; element-range arithmetic of the split/shift/merge primitives beyond the separator-slot argument."),
)

CLAIMS["C03"] = dict(
    level="other",
    technique="static analysis: typestate of shadow string pointers (flip -> possibly away, copy_back -> home) at every hand-over to an in-place sorter, callee shadow-awareness computed from the callee's own body; path tables of every bucket dispatch with linear evaluation of rs.pos / depth / stack-size expressions; CFG post-dominance in the step constructors; prefix-sum kind vs use; call-graph acyclicity of the memory fall-backs; forward interval analysis (branch refinement, threshold widening) of the indices of fixed-size bucket arrays; lower-bound analysis of LCP fill loops; twin agreement of the duplicated LCP insertion step; forwarding tables of the 20 public overloads",
    text=("Sorted-permutation and exact LCP values are value-level and NOT decided. Decided necessary conditions over all 10 pointer/set instantiations of the five radix loops, "
          "the step constructors, multikey quicksort, insertion sort and the public overloads: HOME-BEFORE-INPLACE, BUCKET-DISPOSED (each non-empty bucket handed on exactly once as "
          "[pos, +bkt_size), position advanced once), DEPTH-ADVANCE (depth + k*stack size for the k-byte radix, final-bucket LCP run), BUCKET-RANGE, STEP-BUCKET0, PREFIX-SUM-USE, "
          "BKT-INDEX-BOUND, FALLBACK-FORWARD, FALLBACK-DAG, KEY-PACK-TABLE, CHAR-UNSIGNED, LCP-SLOT0, ENTRY-FORWARD."),
    note=(TRUST + "Thin by nature: the property itself (output order, permutation, LCP values) depends on string contents. CharStringSet (signed char) is not reachable from the public API and not analysed. "
          "BKT-INDEX-BOUND (forward interval analysis of the index variables of the fixed-size bucket arrays) found a one-past-the-end read in the LCP boundary loops of RadixStep_CE0/CE2/CI2 (fixed in /repo, 4243a1b)."),
)

NOT_APPLICABLE = {}

# Descriptions written against the rule files as they are now (data/claims/Cxx.json: technique, text, note) replace the
# texts above where present; the level category stays as declared above.
import json as _json
import os as _os
_D = _os.path.join(_os.path.dirname(_os.path.dirname(_os.path.abspath(__file__))), "data", "claims")
for _pid in list(CLAIMS):
    _f = _os.path.join(_D, _pid + ".json")
    if _os.path.exists(_f):
        _j = _json.load(open(_f))
        for _k in ("technique", "text", "note"):
            if _j.get(_k):
                CLAIMS[_pid][_k] = " ".join(_j[_k].split())
        if _j.get("engines"):
            CLAIMS[_pid]["engines"] = _j["engines"]
