#!/usr/bin/env python3
"""mkpatch.py Cxx name 'expect-kv ...' file 'old' 'new' [occurrence] [file old new occ ...]
writes selftest/Cxx/name.patch = unified diff of /repo/<file> with the n-th `old` replaced."""
import difflib, os, sys
pid, name, expect = sys.argv[1:4]
rest = sys.argv[4:]
out = ["#expect %s\n" % expect]
i = 0
while i < len(rest):
    f, old, new = rest[i:i+3]
    occ = 1
    i += 3
    if i < len(rest) and rest[i].isdigit():
        occ = int(rest[i]); i += 1
    src = open(os.path.join("/repo", f)).read()
    pos = -1
    for _ in range(occ):
        pos = src.find(old, pos + 1)
        if pos < 0:
            sys.exit("pattern not found: %r in %s" % (old, f))
    dst = src[:pos] + new + src[pos+len(old):]
    out += list(difflib.unified_diff(src.splitlines(True), dst.splitlines(True), "a/" + f, "b/" + f))
d = os.path.join(os.path.dirname(os.path.dirname(os.path.abspath(__file__))), "selftest", pid)
os.makedirs(d, exist_ok=True)
open(os.path.join(d, name + ".patch"), "w").writelines(out)
print("wrote", os.path.join(d, name + ".patch"))
