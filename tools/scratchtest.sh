#!/bin/bash
# scratchtest.sh <patch> <PID>... : applies a patch to a scratch copy of /repo/tlx under /var/tmp (never to /repo) and runs
# the quick checks against it; prints exit code and the distinct rule reports.  Used for behaviour-preserving refactorings
# (expected: exit 0) and for seeded changes.
P=$(realpath "$1"); shift
D=$(mktemp -d /var/tmp/scratch_XXXX)
cp -r /repo/tlx $D/
( cd $D && patch -p1 -s --no-backup-if-mismatch -i $P ) || { echo "PATCH-FAILED $P"; rm -rf $D; exit 3; }
for pid in "$@"; do
  out=$(TLX_REPO=$D VERIF_OUT=$D/_out /verif/check $pid 2>&1); rc=$?
  rules=$(echo "$out" | grep -o "rule [A-Z0-9-]* violated in [^:]*" | sort -u | tr '\n' ';')
  broken=$(echo "$out" | grep "ANALYSIS-BROKEN" | cut -c1-260)
  echo "$pid rc=$rc $rules $broken"
done
rm -rf $D
