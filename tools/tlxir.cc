// tlxir — LibTooling extractor: typed AST + clang CFG of every function
// definition located under a root directory (default /repo/tlx), including
// template instantiations and lambdas, as one JSON file per translation unit.
//
// usage: tlxir [--root DIR]... [--out FILE] [--match REGEX] src.cpp -- <flags>
//
// Nothing in here knows about tlx; the rules live in /verif/rules/*.py.
#include "clang/AST/ASTConsumer.h"
#include "clang/AST/ASTContext.h"
#include "clang/AST/DeclCXX.h"
#include "clang/AST/DeclTemplate.h"
#include "clang/AST/ExprCXX.h"
#include "clang/AST/RecursiveASTVisitor.h"
#include "clang/AST/StmtCXX.h"
#include "clang/Analysis/CFG.h"
#include "clang/Basic/Builtins.h"
#include "clang/Basic/SourceManager.h"
#include "clang/Frontend/CompilerInstance.h"
#include "clang/Frontend/FrontendAction.h"
#include "clang/Tooling/CommonOptionsParser.h"
#include "clang/Tooling/Tooling.h"
#include "llvm/Support/CommandLine.h"
#include "llvm/Support/JSON.h"
#include "llvm/Support/Regex.h"
#include "llvm/Support/raw_ostream.h"

#include <map>
#include <set>
#include <string>
#include <vector>

using namespace clang;
using namespace clang::tooling;
namespace json = llvm::json;

static llvm::cl::OptionCategory Cat("tlxir options");
static llvm::cl::list<std::string> Roots(
    "root", llvm::cl::desc("only functions defined under DIR"),
    llvm::cl::cat(Cat));
static llvm::cl::opt<std::string> OutFile(
    "out", llvm::cl::desc("output JSON"), llvm::cl::init("-"),
    llvm::cl::cat(Cat));
static llvm::cl::opt<std::string> Match(
    "match", llvm::cl::desc("only functions whose qualified name matches"),
    llvm::cl::init(""), llvm::cl::cat(Cat));
static llvm::cl::opt<bool> NoCFG(
    "no-cfg", llvm::cl::desc("omit CFGs"), llvm::cl::init(false),
    llvm::cl::cat(Cat));

namespace {

struct Extractor {
    ASTContext& Ctx;
    SourceManager& SM;
    PrintingPolicy PP;
    std::map<const Decl*, int> DeclIds;
    std::set<const FunctionDecl*> Done;
    std::vector<const FunctionDecl*> Work;
    std::set<const CXXRecordDecl*> RecDone;
    json::Array Functions, Records, Tables;
    std::unique_ptr<llvm::Regex> Rx;

    // per function state
    std::map<const Stmt*, int> NodeIds;
    std::map<const VarDecl*, int> VarNodeIds;
    int NextNode = 0;
    std::string CurFile;

    explicit Extractor(ASTContext& C)
        : Ctx(C), SM(C.getSourceManager()), PP(C.getLangOpts()) {
        PP.SuppressTagKeyword = true;
        PP.Bool = true;
        PP.FullyQualifiedName = true;
        PP.SuppressUnwrittenScope = true;
        if (!Match.empty()) Rx = std::make_unique<llvm::Regex>(Match);
    }

    int declId(const Decl* D) {
        if (!D) return -1;
        D = D->getCanonicalDecl();
        auto it = DeclIds.find(D);
        if (it != DeclIds.end()) return it->second;
        int id = static_cast<int>(DeclIds.size()) + 1;
        DeclIds[D] = id;
        return id;
    }

    std::string fileOf(SourceLocation L) {
        if (L.isInvalid()) return "";
        L = SM.getExpansionLoc(L);
        auto F = SM.getFilename(L);
        return F.str();
    }

    bool underRoot(SourceLocation L) {
        std::string F = fileOf(L);
        if (F.empty()) return false;
        if (Roots.empty()) return F.rfind("/repo/tlx/", 0) == 0;
        for (auto& R : Roots)
            if (F.rfind(R, 0) == 0) return true;
        return false;
    }

    void putLoc(json::Object& O, SourceLocation L) {
        if (L.isInvalid()) return;
        SourceLocation E = SM.getExpansionLoc(L);
        PresumedLoc P = SM.getPresumedLoc(E);
        if (P.isInvalid()) return;
        O["l"] = static_cast<int64_t>(P.getLine());
        O["c"] = static_cast<int64_t>(P.getColumn());
        std::string F = P.getFilename();
        if (F != CurFile) O["f"] = F;
        if (L.isMacroID()) {
            PresumedLoc S = SM.getPresumedLoc(SM.getSpellingLoc(L));
            if (S.isValid()) {
                O["ml"] = static_cast<int64_t>(S.getLine());
                std::string MF = S.getFilename();
                if (MF != CurFile) O["mf"] = MF;
            }
        }
    }

    std::string tyStr(QualType T) {
        if (T.isNull()) return "";
        return T.getCanonicalType().getAsString(PP);
    }

    // qualified name without any template arguments
    std::string plainName(const DeclContext* DC) {
        std::vector<std::string> parts;
        while (DC && !DC->isTranslationUnit()) {
            if (auto* NS = dyn_cast<NamespaceDecl>(DC)) {
                if (!NS->isAnonymousNamespace() && !NS->isInline())
                    parts.push_back(NS->getNameAsString());
                else if (NS->isAnonymousNamespace())
                    parts.push_back("(anon)");
            }
            else if (auto* RD = dyn_cast<CXXRecordDecl>(DC)) {
                if (RD->isLambda()) {
                    PresumedLoc P = SM.getPresumedLoc(
                        SM.getExpansionLoc(RD->getLocation()));
                    parts.push_back(
                        "(lambda@" + std::to_string(P.isValid() ? P.getLine() : 0) +
                        ")");
                }
                else
                    parts.push_back(RD->getNameAsString());
            }
            else if (auto* TD = dyn_cast<TagDecl>(DC)) {
                parts.push_back(TD->getNameAsString());
            }
            else if (auto* FD = dyn_cast<FunctionDecl>(DC)) {
                parts.push_back(FD->getNameAsString());
            }
            DC = DC->getParent();
        }
        std::string r;
        for (auto it = parts.rbegin(); it != parts.rend(); ++it) {
            if (!r.empty()) r += "::";
            r += *it;
        }
        return r;
    }

    std::string plainQName(const NamedDecl* D) {
        std::string ctx = plainName(D->getDeclContext());
        std::string n = D->getNameAsString();
        if (ctx.empty()) return n;
        return ctx + "::" + n;
    }

    json::Array targsOf(const TemplateArgumentList* L) {
        json::Array A;
        if (!L) return A;
        for (unsigned i = 0; i < L->size(); ++i) {
            const TemplateArgument& TA = L->get(i);
            if (TA.getKind() == TemplateArgument::Pack) {
                for (const auto& P : TA.pack_elements()) {
                    std::string s;
                    llvm::raw_string_ostream os(s);
                    P.print(PP, os, true);
                    A.push_back(os.str());
                }
                continue;
            }
            std::string s;
            llvm::raw_string_ostream os(s);
            if (TA.getKind() == TemplateArgument::Type)
                os << tyStr(TA.getAsType());
            else
                TA.print(PP, os, true);
            A.push_back(os.str());
        }
        return A;
    }

    json::Array recordTargs(const DeclContext* DC) {
        while (DC && !DC->isTranslationUnit()) {
            if (auto* S = dyn_cast<ClassTemplateSpecializationDecl>(DC))
                return targsOf(&S->getTemplateArgs());
            DC = DC->getParent();
        }
        return json::Array();
    }

    json::Object calleeObj(const FunctionDecl* FD) {
        json::Object C;
        C["qname"] = plainQName(FD);
        C["name"] = FD->getNameAsString();
        C["did"] = declId(FD);
        if (auto* TA = FD->getTemplateSpecializationArgs())
            C["targs"] = targsOf(TA);
        if (auto* MD = dyn_cast<CXXMethodDecl>(FD)) {
            const CXXRecordDecl* RD = MD->getParent();
            C["record"] = plainQName(RD);
            json::Array RT = recordTargs(RD);
            if (!RT.empty()) C["rtargs"] = std::move(RT);
            if (MD->isVirtual()) C["virtual"] = true;
            if (MD->isStatic()) C["static"] = true;
            if (MD->isConst()) C["const"] = true;
        }
        if (FD->isNoReturn()) C["noreturn"] = true;
        if (FD->getBuiltinID()) C["builtin"] = true;
        C["ret"] = tyStr(FD->getReturnType());
        return C;
    }

    const Expr* strip(const Expr* E) {
        while (E) {
            if (auto* P = dyn_cast<ParenExpr>(E)) E = P->getSubExpr();
            else if (auto* F = dyn_cast<FullExpr>(E)) E = F->getSubExpr();
            else if (auto* M = dyn_cast<MaterializeTemporaryExpr>(E))
                E = M->getSubExpr();
            else if (auto* B = dyn_cast<CXXBindTemporaryExpr>(E))
                E = B->getSubExpr();
            else if (auto* S = dyn_cast<SubstNonTypeTemplateParmExpr>(E))
                E = S->getReplacement();
            else if (auto* RW = dyn_cast<CXXRewrittenBinaryOperator>(E))
                E = RW->getSemanticForm();
            else if (auto* I = dyn_cast<ImplicitCastExpr>(E)) {
                switch (I->getCastKind()) {
                case CK_IntegralCast:
                case CK_IntegralToBoolean:
                case CK_PointerToBoolean:
                case CK_IntegralToFloating:
                case CK_FloatingToIntegral:
                case CK_FloatingCast:
                case CK_DerivedToBase:
                case CK_UncheckedDerivedToBase:
                case CK_UserDefinedConversion:
                case CK_ConstructorConversion:
                    return E;
                default: E = I->getSubExpr();
                }
            }
            else if (auto* C = dyn_cast<CallExpr>(E)) {
                if (C->getBuiltinCallee() == Builtin::BI__builtin_expect &&
                    C->getNumArgs() == 2)
                    E = C->getArg(0);
                else
                    return E;
            }
            else
                return E;
        }
        return E;
    }

    json::Value intVal(const llvm::APSInt& V) {
        if (V.isSigned() || V.getActiveBits() < 63) {
            if (V.getMinSignedBits() <= 63) return json::Value(V.getExtValue());
        }
        llvm::SmallString<32> S;
        V.toString(S, 10);
        return json::Value(S.str().str());
    }

    json::Value node(const Stmt* S) {
        if (!S) return json::Value(nullptr);
        if (auto* E = dyn_cast<Expr>(S)) {
            const Expr* R = strip(E);
            if (R != E) {
                json::Value V = node(R);
                // all elided wrappers share the id of the node they wrap
                auto it = NodeIds.find(R);
                if (it != NodeIds.end()) {
                    const Expr* W = E;
                    // register every wrapper on the chain
                    while (W && W != R) {
                        NodeIds[W] = it->second;
                        const Expr* N = nullptr;
                        if (auto* P = dyn_cast<ParenExpr>(W)) N = P->getSubExpr();
                        else if (auto* F = dyn_cast<FullExpr>(W))
                            N = F->getSubExpr();
                        else if (auto* M = dyn_cast<MaterializeTemporaryExpr>(W))
                            N = M->getSubExpr();
                        else if (auto* B = dyn_cast<CXXBindTemporaryExpr>(W))
                            N = B->getSubExpr();
                        else if (auto* SN =
                                     dyn_cast<SubstNonTypeTemplateParmExpr>(W))
                            N = SN->getReplacement();
                        else if (auto* RW = dyn_cast<CXXRewrittenBinaryOperator>(W))
                            N = RW->getSemanticForm();
                        else if (auto* I = dyn_cast<ImplicitCastExpr>(W))
                            N = I->getSubExpr();
                        else if (auto* C = dyn_cast<CallExpr>(W))
                            N = C->getArg(0);
                        W = N;
                    }
                }
                return V;
            }
        }
        json::Object O;
        int id = NextNode++;
        NodeIds[S] = id;
        O["id"] = id;
        O["k"] = S->getStmtClassName();
        putLoc(O, S->getBeginLoc());
        json::Array Ch;
        bool generic = true;

        if (auto* E = dyn_cast<Expr>(S)) {
            O["ty"] = tyStr(E->getType());
            if (E->isLValue()) O["lv"] = true;
            // compile-time integer value where clang can fold it
            if (!isa<IntegerLiteral>(E) && !isa<CXXBoolLiteralExpr>(E) &&
                !isa<CharacterLiteral>(E) && !E->isValueDependent() &&
                !E->getType().isNull() &&
                E->getType()->isIntegralOrEnumerationType() &&
                (isa<DeclRefExpr>(E) || isa<MemberExpr>(E) ||
                 isa<UnaryExprOrTypeTraitExpr>(E) || isa<BinaryOperator>(E) ||
                 isa<UnaryOperator>(E) || isa<CastExpr>(E) ||
                 isa<ConditionalOperator>(E) || isa<TypeTraitExpr>(E) ||
                 isa<CallExpr>(E) || isa<CXXNoexceptExpr>(E))) {
                Expr::EvalResult R;
                if (E->EvaluateAsInt(R, Ctx, Expr::SE_NoSideEffects))
                    O["cval"] = intVal(R.Val.getInt());
            }
        }

        if (auto* IL = dyn_cast<IntegerLiteral>(S)) {
            llvm::APSInt V(IL->getValue(),
                           IL->getType()->isUnsignedIntegerType());
            O["val"] = intVal(V);
        }
        else if (auto* BL = dyn_cast<CXXBoolLiteralExpr>(S)) {
            O["val"] = BL->getValue();
        }
        else if (auto* CL = dyn_cast<CharacterLiteral>(S)) {
            O["val"] = static_cast<int64_t>(CL->getValue());
        }
        else if (auto* FL = dyn_cast<FloatingLiteral>(S)) {
            O["val"] = FL->getValueAsApproximateDouble();
        }
        else if (auto* SL = dyn_cast<clang::StringLiteral>(S)) {
            if (SL->getCharByteWidth() == 1) {
                json::Array B;
                for (unsigned char ch : SL->getBytes())
                    B.push_back(static_cast<int64_t>(ch));
                O["bytes"] = std::move(B);
            }
        }
        else if (isa<CXXNullPtrLiteralExpr>(S) || isa<GNUNullExpr>(S)) {
            O["k"] = "NullPtr";
        }
        else if (auto* DR = dyn_cast<DeclRefExpr>(S)) {
            const ValueDecl* D = DR->getDecl();
            json::Object R;
            R["name"] = D->getNameAsString();
            R["id"] = declId(D);
            if (isa<ParmVarDecl>(D)) R["kind"] = "param";
            else if (auto* VD = dyn_cast<VarDecl>(D)) {
                if (VD->isLocalVarDecl()) {
                    R["kind"] = VD->isStaticLocal() ? "staticlocal" : "local";
                }
                else {
                    R["kind"] = "global";
                    R["qname"] = plainQName(D);
                }
                R["vty"] = tyStr(VD->getType());
            }
            else if (isa<EnumConstantDecl>(D)) {
                R["kind"] = "enumconst";
                R["qname"] = plainQName(D);
            }
            else if (auto* FD = dyn_cast<FunctionDecl>(D)) {
                R["kind"] = "fn";
                R["qname"] = plainQName(FD);
            }
            else if (isa<FieldDecl>(D)) {
                R["kind"] = "field";
                R["qname"] = plainQName(D);
            }
            else if (isa<BindingDecl>(D)) R["kind"] = "binding";
            else R["kind"] = "other";
            if (DR->refersToEnclosingVariableOrCapture()) R["captured"] = true;
            O["ref"] = std::move(R);
        }
        else if (auto* ME = dyn_cast<MemberExpr>(S)) {
            const ValueDecl* D = ME->getMemberDecl();
            O["member"] = D->getNameAsString();
            O["mid"] = declId(D);
            if (auto* RD = dyn_cast<CXXRecordDecl>(D->getDeclContext()))
                O["owner"] = plainQName(RD);
            if (ME->isArrow()) O["arrow"] = true;
            if (isa<CXXMethodDecl>(D)) O["method"] = true;
            if (auto* VD = dyn_cast<VarDecl>(D))
                if (VD->isStaticDataMember()) O["static"] = true;
        }
        else if (isa<CXXThisExpr>(S)) {
            O["k"] = "This";
        }
        else if (auto* BO = dyn_cast<BinaryOperator>(S)) {
            O["op"] = BO->getOpcodeStr().str();
            if (auto* CA = dyn_cast<CompoundAssignOperator>(BO))
                O["cty"] = tyStr(CA->getComputationResultType());
        }
        else if (auto* UO = dyn_cast<UnaryOperator>(S)) {
            O["op"] = UnaryOperator::getOpcodeStr(UO->getOpcode()).str();
            if (UO->isPostfix()) O["postfix"] = true;
        }
        else if (auto* CE = dyn_cast<CastExpr>(S)) {
            O["cast"] = CE->getCastKindName();
            if (isa<ImplicitCastExpr>(CE)) O["implicit"] = true;
            O["from"] = tyStr(CE->getSubExpr()->getType());
        }
        else if (auto* UE = dyn_cast<UnaryExprOrTypeTraitExpr>(S)) {
            O["trait"] = static_cast<int64_t>(UE->getKind());
            O["argty"] = tyStr(UE->getTypeOfArgument());
            generic = false;
        }
        else if (auto* LE = dyn_cast<LambdaExpr>(S)) {
            generic = false;
            const CXXMethodDecl* Op = LE->getCallOperator();
            json::Array Caps;
            auto initIt = LE->capture_init_begin();
            for (const LambdaCapture& C : LE->captures()) {
                json::Object CO;
                if (C.capturesThis()) {
                    CO["name"] = "this";
                    CO["byref"] = C.getCaptureKind() == LCK_This;
                }
                else if (C.capturesVariable()) {
                    CO["name"] = C.getCapturedVar()->getNameAsString();
                    CO["id"] = declId(C.getCapturedVar());
                    CO["byref"] = C.getCaptureKind() == LCK_ByRef;
                }
                if (C.isImplicit()) CO["implicit"] = true;
                Caps.push_back(std::move(CO));
                ++initIt;
            }
            O["captures"] = std::move(Caps);
            if (Op && Op->hasBody() && !Op->isDependentContext()) {
                O["fn"] = declId(Op);
                enqueue(Op, true);
            }
        }
        else if (auto* NE = dyn_cast<CXXNewExpr>(S)) {
            O["array"] = NE->isArray();
            O["alloc_ty"] = tyStr(NE->getAllocatedType());
            O["placement"] = static_cast<int64_t>(NE->getNumPlacementArgs());
            if (auto* F = NE->getOperatorNew()) O["callee"] = calleeObj(F);
            generic = false;
            for (unsigned i = 0; i < NE->getNumPlacementArgs(); ++i)
                Ch.push_back(node(NE->getPlacementArg(i)));
            if (NE->isArray() && NE->getArraySize())
                Ch.push_back(node(*NE->getArraySize()));
            if (NE->getInitializer()) Ch.push_back(node(NE->getInitializer()));
        }
        else if (auto* DE = dyn_cast<CXXDeleteExpr>(S)) {
            O["array"] = DE->isArrayForm();
            O["destroyed_ty"] = tyStr(DE->getDestroyedType());
        }
        else if (auto* PD = dyn_cast<CXXPseudoDestructorExpr>(S)) {
            O["destroyed_ty"] = tyStr(PD->getDestroyedType());
        }
        else if (auto* CC = dyn_cast<CXXConstructExpr>(S)) {
            O["callee"] = calleeObj(CC->getConstructor());
            if (CC->isElidable()) O["elidable"] = true;
            generic = false;
            for (const Expr* A : CC->arguments()) {
                if (isa<CXXDefaultArgExpr>(A)) {
                    json::Object D;
                    D["k"] = "DefaultArg";
                    D["id"] = NextNode++;
                    Ch.push_back(std::move(D));
                }
                else
                    Ch.push_back(node(A));
            }
        }
        else if (auto* Call = dyn_cast<CallExpr>(S)) {
            generic = false;
            const FunctionDecl* FD = Call->getDirectCallee();
            if (FD) {
                O["callee"] = calleeObj(FD);
                enqueueIfLocal(FD);
            }
            if (auto* OC = dyn_cast<CXXOperatorCallExpr>(Call)) {
                O["op"] = getOperatorSpelling(OC->getOperator());
            }
            if (auto* MC = dyn_cast<CXXMemberCallExpr>(Call)) {
                O["member_call"] = true;
                const Expr* Obj = MC->getImplicitObjectArgument();
                Ch.push_back(node(Obj));
                if (auto* ME = dyn_cast<MemberExpr>(
                        MC->getCallee()->IgnoreParenImpCasts())) {
                    if (ME->isArrow()) O["arrow"] = true;
                    if (ME->hasQualifier()) O["qualified"] = true;
                }
            }
            else if (!FD) {
                O["indirect"] = true;
                Ch.push_back(node(Call->getCallee()));
            }
            for (const Expr* A : Call->arguments()) {
                if (isa<CXXDefaultArgExpr>(A)) {
                    json::Object D;
                    D["k"] = "DefaultArg";
                    D["id"] = NextNode++;
                    Ch.push_back(std::move(D));
                }
                else
                    Ch.push_back(node(A));
            }
        }
        else if (auto* DS = dyn_cast<DeclStmt>(S)) {
            generic = false;
            for (const Decl* D : DS->decls()) {
                if (auto* VD = dyn_cast<VarDecl>(D)) {
                    Ch.push_back(varNode(VD));
                }
            }
        }
        else if (auto* If = dyn_cast<IfStmt>(S)) {
            generic = false;
            if (If->isConstexpr()) O["constexpr"] = true;
            if (If->getInit()) O["init"] = node(If->getInit());
            if (If->getConditionVariable())
                O["condvar"] = varNode(If->getConditionVariable());
            Ch.push_back(node(If->getCond()));
            Ch.push_back(node(If->getThen()));
            Ch.push_back(node(If->getElse()));
        }
        else if (auto* W = dyn_cast<WhileStmt>(S)) {
            generic = false;
            Ch.push_back(node(W->getCond()));
            Ch.push_back(node(W->getBody()));
        }
        else if (auto* D = dyn_cast<DoStmt>(S)) {
            generic = false;
            Ch.push_back(node(D->getBody()));
            Ch.push_back(node(D->getCond()));
        }
        else if (auto* F = dyn_cast<ForStmt>(S)) {
            generic = false;
            Ch.push_back(node(F->getInit()));
            Ch.push_back(node(F->getCond()));
            Ch.push_back(node(F->getInc()));
            Ch.push_back(node(F->getBody()));
        }
        else if (auto* FR = dyn_cast<CXXForRangeStmt>(S)) {
            generic = false;
            Ch.push_back(node(FR->getRangeInit()));
            Ch.push_back(varNode(FR->getLoopVariable()));
            Ch.push_back(node(FR->getBody()));
        }
        else if (auto* SW = dyn_cast<SwitchStmt>(S)) {
            generic = false;
            Ch.push_back(node(SW->getCond()));
            Ch.push_back(node(SW->getBody()));
        }
        else if (auto* CS = dyn_cast<CaseStmt>(S)) {
            generic = false;
            Expr::EvalResult R;
            if (CS->getLHS() && !CS->getLHS()->isValueDependent() &&
                CS->getLHS()->EvaluateAsInt(R, Ctx))
                O["val"] = intVal(R.Val.getInt());
            Ch.push_back(node(CS->getSubStmt()));
        }
        else if (auto* DF = dyn_cast<DefaultStmt>(S)) {
            generic = false;
            Ch.push_back(node(DF->getSubStmt()));
        }
        else if (auto* LS = dyn_cast<LabelStmt>(S)) {
            generic = false;
            O["label"] = LS->getDecl()->getNameAsString();
            Ch.push_back(node(LS->getSubStmt()));
        }
        else if (auto* DIE = dyn_cast<CXXDefaultInitExpr>(S)) {
            // a default member initialiser (T* p_ = nullptr;): emit the initialiser expression as the child
            generic = false;
            if (DIE->getExpr()) Ch.push_back(node(DIE->getExpr()));
        }
        else if (auto* GS = dyn_cast<GotoStmt>(S)) {
            O["label"] = GS->getLabel()->getNameAsString();
        }
        else if (auto* CT = dyn_cast<CXXCatchStmt>(S)) {
            generic = false;
            if (CT->getExceptionDecl())
                O["exc_ty"] = tyStr(CT->getCaughtType());
            Ch.push_back(node(CT->getHandlerBlock()));
        }
        else if (auto* IL2 = dyn_cast<InitListExpr>(S)) {
            generic = false;
            const InitListExpr* Sem = IL2->isSemanticForm() ? IL2 : IL2->getSemanticForm();
            if (!Sem) Sem = IL2;
            for (const Expr* I : Sem->inits()) Ch.push_back(node(I));
        }

        if (generic) {
            for (const Stmt* C : S->children()) Ch.push_back(node(C));
        }
        if (!Ch.empty()) O["ch"] = std::move(Ch);
        return json::Value(std::move(O));
    }

    json::Value varNode(const VarDecl* VD) {
        json::Object O;
        VarNodeIds[VD] = NextNode;
        O["id"] = NextNode++;
        O["k"] = "VarDecl";
        putLoc(O, VD->getLocation());
        O["name"] = VD->getNameAsString();
        O["did"] = declId(VD);
        O["ty"] = tyStr(VD->getType());
        if (VD->getType()->isReferenceType()) O["isref"] = true;
        if (VD->isStaticLocal()) O["static"] = true;
        if (VD->hasInit()) {
            json::Array Ch;
            Ch.push_back(node(VD->getInit()));
            O["ch"] = std::move(Ch);
            // the VarDecl node stands for its DeclStmt-less init in the CFG
        }
        return json::Value(std::move(O));
    }

    void enqueueIfLocal(const FunctionDecl* FD) {
        // nothing: all definitions under the roots are visited by the AST walk
        (void)FD;
    }

    void enqueue(const FunctionDecl* FD, bool force = false) {
        if (!FD->doesThisDeclarationHaveABody()) return;
        if (FD->isDependentContext()) return;
        if (!force && !underRoot(FD->getLocation())) return;
        if (Done.insert(FD).second) Work.push_back(FD);
    }

    json::Value cfgOf(const FunctionDecl* FD) {
        CFG::BuildOptions BO;
        BO.setAllAlwaysAdd();
        BO.AddImplicitDtors = true;
        BO.AddInitializers = true;
        BO.AddTemporaryDtors = false;
        BO.AddEHEdges = false;
        BO.PruneTriviallyFalseEdges = false;
        std::unique_ptr<CFG> G = CFG::buildCFG(FD, FD->getBody(), &Ctx, BO);
        if (!G) return json::Value(nullptr);
        json::Object O;
        O["entry"] = static_cast<int64_t>(G->getEntry().getBlockID());
        O["exit"] = static_cast<int64_t>(G->getExit().getBlockID());
        json::Array Blocks;
        for (const CFGBlock* B : *G) {
            json::Object BOb;
            BOb["id"] = static_cast<int64_t>(B->getBlockID());
            json::Array El;
            for (const CFGElement& E : *B) {
                if (auto CS = E.getAs<CFGStmt>()) {
                    auto it = NodeIds.find(CS->getStmt());
                    if (it != NodeIds.end()) {
                        // skip duplicates produced by elided wrappers
                        if (El.empty() || !(El.back().getAsInteger() &&
                                            *El.back().getAsInteger() == it->second))
                            El.push_back(it->second);
                    }
                    else if (auto* DS = dyn_cast<DeclStmt>(CS->getStmt())) {
                        // `T a = x, b = y;` is split by the CFG builder into synthetic single-declaration
                        // statements: the VarDecl node stands for them
                        if (DS->isSingleDecl())
                            if (auto* VD = dyn_cast<VarDecl>(DS->getSingleDecl())) {
                                auto vi = VarNodeIds.find(VD);
                                if (vi != VarNodeIds.end()) El.push_back(vi->second);
                            }
                    }
                }
                else if (auto AD = E.getAs<CFGAutomaticObjDtor>()) {
                    json::Object D;
                    D["dtor"] = declId(AD->getVarDecl());
                    D["name"] = AD->getVarDecl()->getNameAsString();
                    D["ty"] = tyStr(AD->getVarDecl()->getType());
                    El.push_back(std::move(D));
                }
                else if (auto IN = E.getAs<CFGInitializer>()) {
                    const CXXCtorInitializer* I = IN->getInitializer();
                    json::Object D;
                    if (I->isAnyMemberInitializer())
                        D["init"] = I->getAnyMember()->getNameAsString();
                    else
                        D["init"] = "(base)";
                    auto it = NodeIds.find(I->getInit());
                    if (it != NodeIds.end()) D["node"] = it->second;
                    El.push_back(std::move(D));
                }
                else if (auto MD = E.getAs<CFGMemberDtor>()) {
                    json::Object D;
                    D["memberdtor"] = MD->getFieldDecl()->getNameAsString();
                    El.push_back(std::move(D));
                }
                else if (auto BD = E.getAs<CFGBaseDtor>()) {
                    json::Object D;
                    D["basedtor"] = tyStr(BD->getBaseSpecifier()->getType());
                    El.push_back(std::move(D));
                }
            }
            BOb["el"] = std::move(El);
            if (const Stmt* T = B->getTerminatorStmt()) {
                auto it = NodeIds.find(T);
                if (it != NodeIds.end()) BOb["term"] = it->second;
                BOb["termk"] = T->getStmtClassName();
                if (const Stmt* TC = B->getTerminatorCondition()) {
                    auto it2 = NodeIds.find(TC);
                    if (it2 != NodeIds.end()) BOb["cond"] = it2->second;
                }
            }
            if (const Stmt* L = B->getLabel()) {
                auto it = NodeIds.find(L);
                if (it != NodeIds.end()) BOb["label"] = it->second;
            }
            json::Array Su;
            for (auto SI = B->succ_begin(); SI != B->succ_end(); ++SI) {
                const CFGBlock* SB = SI->getReachableBlock();
                if (!SB) SB = SI->getPossiblyUnreachableBlock();
                if (SB) Su.push_back(static_cast<int64_t>(SB->getBlockID()));
                else Su.push_back(nullptr);
            }
            BOb["succ"] = std::move(Su);
            if (B->hasNoReturnElement()) BOb["noreturn"] = true;
            Blocks.push_back(std::move(BOb));
        }
        O["blocks"] = std::move(Blocks);
        return json::Value(std::move(O));
    }

    void emitFunction(const FunctionDecl* FD) {
        NodeIds.clear();
        VarNodeIds.clear();
        NextNode = 0;
        CurFile = "";
        {
            PresumedLoc P =
                SM.getPresumedLoc(SM.getExpansionLoc(FD->getLocation()));
            if (P.isValid()) CurFile = P.getFilename();
        }
        std::string qn = plainQName(FD);
        if (Rx && !Rx->match(qn)) return;

        json::Object F;
        F["did"] = declId(FD);
        F["qname"] = qn;
        F["name"] = FD->getNameAsString();
        F["file"] = CurFile;
        {
            json::Object L;
            putLoc(L, FD->getLocation());
            if (auto l = L.getInteger("l")) F["line"] = *l;
        }
        {
            std::string full;
            llvm::raw_string_ostream os(full);
            FD->getNameForDiagnostic(os, PP, true);
            F["full"] = os.str();
        }
        if (auto* TA = FD->getTemplateSpecializationArgs())
            F["targs"] = targsOf(TA);
        F["ret"] = tyStr(FD->getReturnType());
        const char* kind = "fn";
        if (auto* MD = dyn_cast<CXXMethodDecl>(FD)) {
            const CXXRecordDecl* RD = MD->getParent();
            kind = "method";
            if (isa<CXXConstructorDecl>(MD)) kind = "ctor";
            else if (isa<CXXDestructorDecl>(MD)) kind = "dtor";
            else if (RD->isLambda()) kind = "lambda";
            else if (MD->isOverloadedOperator()) kind = "operator";
            F["record"] = plainQName(RD);
            json::Array RT = recordTargs(RD);
            if (!RT.empty()) F["rtargs"] = std::move(RT);
            if (MD->isConst()) F["const"] = true;
            if (MD->isStatic()) F["static"] = true;
            if (MD->isVirtual()) F["virtual"] = true;
            if (auto* CD = dyn_cast<CXXConstructorDecl>(MD)) {
                if (CD->isCopyConstructor()) F["copy_ctor"] = true;
                if (CD->isMoveConstructor()) F["move_ctor"] = true;
            }
            if (MD->isCopyAssignmentOperator()) F["copy_assign"] = true;
            if (MD->isMoveAssignmentOperator()) F["move_assign"] = true;
            emitRecord(RD);
        }
        else if (FD->isOverloadedOperator())
            kind = "operator";
        F["kind"] = kind;
        if (FD->isOverloadedOperator())
            F["op"] = getOperatorSpelling(FD->getOverloadedOperator());
        if (FD->isTemplateInstantiation()) F["inst"] = true;
        if (FD->isDefaulted()) F["defaulted"] = true;
        if (FD->isNoReturn()) F["noreturn"] = true;

        json::Array Params;
        for (const ParmVarDecl* P : FD->parameters()) {
            json::Object PO;
            PO["name"] = P->getNameAsString();
            PO["ty"] = tyStr(P->getType());
            PO["did"] = declId(P);
            Params.push_back(std::move(PO));
        }
        F["params"] = std::move(Params);

        if (auto* CD = dyn_cast<CXXConstructorDecl>(FD)) {
            json::Array Inits;
            for (const CXXCtorInitializer* I : CD->inits()) {
                json::Object IO;
                if (I->isAnyMemberInitializer()) {
                    IO["field"] = I->getAnyMember()->getNameAsString();
                    IO["mid"] = declId(I->getAnyMember());
                }
                else if (I->isBaseInitializer())
                    IO["base"] = tyStr(QualType(I->getBaseClass(), 0));
                else if (I->isDelegatingInitializer())
                    IO["delegating"] = true;
                if (I->isWritten()) IO["written"] = true;
                IO["e"] = node(I->getInit());
                Inits.push_back(std::move(IO));
            }
            F["inits"] = std::move(Inits);
        }
        F["body"] = node(FD->getBody());
        if (!NoCFG) F["cfg"] = cfgOf(FD);
        F["nodes"] = NextNode;
        Functions.push_back(std::move(F));
    }

    void emitRecord(const CXXRecordDecl* RD) {
        if (!RD || !RD->isCompleteDefinition() || RD->isDependentContext())
            return;
        if (RD->isLambda()) return;
        if (!RecDone.insert(RD).second) return;
        json::Object R;
        R["qname"] = plainQName(RD);
        {
            std::string full;
            llvm::raw_string_ostream os(full);
            RD->getNameForDiagnostic(os, PP, true);
            R["full"] = os.str();
        }
        json::Array RT = recordTargs(RD);
        if (!RT.empty()) R["targs"] = std::move(RT);
        json::Array Fields;
        for (const FieldDecl* FDl : RD->fields()) {
            json::Object FO;
            FO["name"] = FDl->getNameAsString();
            FO["ty"] = tyStr(FDl->getType());
            FO["mid"] = declId(FDl);
            if (FDl->hasInClassInitializer()) FO["has_init"] = true;
            Fields.push_back(std::move(FO));
        }
        R["fields"] = std::move(Fields);
        json::Array Statics;
        for (const Decl* D : RD->decls()) {
            if (auto* VD = dyn_cast<VarDecl>(D)) {
                if (!VD->isStaticDataMember()) continue;
                json::Object SO;
                SO["name"] = VD->getNameAsString();
                SO["ty"] = tyStr(VD->getType());
                if (const Expr* I = VD->getAnyInitializer()) {
                    Expr::EvalResult ER;
                    if (!I->isValueDependent() &&
                        I->getType()->isIntegralOrEnumerationType() &&
                        I->EvaluateAsInt(ER, Ctx))
                        SO["val"] = intVal(ER.Val.getInt());
                }
                Statics.push_back(std::move(SO));
            }
        }
        if (!Statics.empty()) R["statics"] = std::move(Statics);
        json::Array Bases;
        for (const auto& B : RD->bases()) Bases.push_back(tyStr(B.getType()));
        R["bases"] = std::move(Bases);
        json::Array Methods;
        for (const CXXMethodDecl* M : RD->methods()) {
            if (M->isImplicit()) continue;
            json::Object MO;
            MO["name"] = M->getNameAsString();
            MO["did"] = declId(M);
            if (M->isVirtual()) MO["virtual"] = true;
            if (M->isPure()) MO["pure"] = true;
            json::Array Ov;
            for (const CXXMethodDecl* OM : M->overridden_methods())
                Ov.push_back(declId(OM));
            if (!Ov.empty()) MO["overrides"] = std::move(Ov);
            Methods.push_back(std::move(MO));
        }
        R["methods"] = std::move(Methods);
        Records.push_back(std::move(R));
    }

    void emitTable(const VarDecl* VD) {
        if (!VD->hasInit() || VD->isLocalVarDecl()) return;
        QualType T = VD->getType();
        const ConstantArrayType* AT = Ctx.getAsConstantArrayType(T);
        if (!AT) return;
        if (VD->getDeclContext()->isDependentContext()) return;
        if (!underRoot(VD->getLocation())) return;
        const Expr* I = VD->getInit()->IgnoreParenImpCasts();
        json::Object TO;
        TO["qname"] = plainQName(VD);
        TO["elem_ty"] = tyStr(AT->getElementType());
        json::Array Vals;
        if (auto* SL = dyn_cast<clang::StringLiteral>(I)) {
            if (SL->getCharByteWidth() == 1)
                for (unsigned char ch : SL->getBytes())
                    Vals.push_back(static_cast<int64_t>(ch));
        }
        else if (auto* IL = dyn_cast<InitListExpr>(I)) {
            for (const Expr* E : IL->inits()) {
                Expr::EvalResult R;
                if (!E->isValueDependent() &&
                    E->getType()->isIntegralOrEnumerationType() &&
                    E->EvaluateAsInt(R, Ctx))
                    Vals.push_back(intVal(R.Val.getInt()));
                else
                    Vals.push_back(nullptr);
            }
        }
        TO["values"] = std::move(Vals);
        Tables.push_back(std::move(TO));
    }

    void drain() {
        while (!Work.empty()) {
            const FunctionDecl* FD = Work.back();
            Work.pop_back();
            emitFunction(FD);
        }
    }
};

class Visitor : public RecursiveASTVisitor<Visitor> {
public:
    explicit Visitor(Extractor& X) : X(X) { }
    bool shouldVisitTemplateInstantiations() const { return true; }
    bool shouldVisitImplicitCode() const { return false; }
    bool VisitFunctionDecl(FunctionDecl* FD) {
        if (FD->isImplicit() && !FD->isDefaulted()) return true;
        if (auto* MD = dyn_cast<CXXMethodDecl>(FD))
            if (MD->getParent()->isLambda()) return true; // via LambdaExpr
        X.enqueue(FD);
        return true;
    }
    bool VisitCXXRecordDecl(CXXRecordDecl* RD) {
        if (RD->isCompleteDefinition() && X.underRoot(RD->getLocation()))
            X.emitRecord(RD);
        return true;
    }
    bool VisitVarDecl(VarDecl* VD) {
        if (VD->getType()->isConstantArrayType() ||
            VD->getType()->isArrayType())
            X.emitTable(VD);
        return true;
    }

private:
    Extractor& X;
};

class Consumer : public ASTConsumer {
public:
    void HandleTranslationUnit(ASTContext& Ctx) override {
        if (Ctx.getDiagnostics().hasErrorOccurred()) {
            llvm::errs() << "tlxir: translation unit has errors\n";
            Failed = true;
            return;
        }
        Extractor X(Ctx);
        Visitor V(X);
        V.TraverseDecl(Ctx.getTranslationUnitDecl());
        X.drain();
        json::Object Top;
        Top["functions"] = std::move(X.Functions);
        Top["records"] = std::move(X.Records);
        Top["tables"] = std::move(X.Tables);
        std::error_code EC;
        if (OutFile == "-") {
            llvm::outs() << json::Value(std::move(Top)) << "\n";
        }
        else {
            llvm::raw_fd_ostream OS(OutFile, EC);
            if (EC) {
                llvm::errs() << "tlxir: cannot write " << OutFile << "\n";
                Failed = true;
                return;
            }
            OS << json::Value(std::move(Top)) << "\n";
        }
    }
    static bool Failed;
};
bool Consumer::Failed = false;

class Action : public ASTFrontendAction {
public:
    std::unique_ptr<ASTConsumer> CreateASTConsumer(CompilerInstance&,
                                                   StringRef) override {
        return std::make_unique<Consumer>();
    }
};

} // namespace

int main(int argc, const char** argv) {
    auto Opts = CommonOptionsParser::create(argc, argv, Cat);
    if (!Opts) {
        llvm::errs() << llvm::toString(Opts.takeError()) << "\n";
        return 2;
    }
    ClangTool Tool(Opts->getCompilations(), Opts->getSourcePathList());
    int rc = Tool.run(newFrontendActionFactory<Action>().get());
    if (rc != 0 || Consumer::Failed) return 2;
    return 0;
}
