#!/bin/bash
# seedtest.sh <patch> <PID>...  : apply a seeded change to /repo, run the quick checks, undo it straight afterwards
P=$(realpath $1); shift
[ -z "$(git -C /repo status --porcelain --untracked-files=no)" ] || { echo "/repo not clean"; exit 2; }
git -C /repo apply $P || { echo "patch does not apply"; exit 2; }
for pid in "$@"; do
  VERIF_OUT=/var/tmp/seedtest_out /verif/check $pid | grep -v "^  ok" | cut -c1-400 | tail -6
done
git -C /repo checkout -- .
rm -rf /var/tmp/seedtest_out
