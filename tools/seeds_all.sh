#!/bin/bash
# seeds_all.sh [PID...]: applies every seeded/<id>/patch.diff (of the given properties, default all) to a scratch copy of
# /repo/tlx and runs the owning quick check; prints one line per seed; a seed that is no longer reported (rc != 1) is marked.
cd /verif
sel="$*"
run() {
  id=$1; pid=${id%%_*}
  out=$(tools/scratchtest.sh seeded/$id/patch.diff $pid 2>&1 | tail -1)
  case "$out" in *"rc=1"*) echo "$id $out" ;; *) echo "$id $out   <<<< NOT REPORTED" ;; esac
}
export -f run
for d in seeded/*/; do id=$(basename $d); pid=${id%%_*}
  if [ -z "$sel" ] || [[ " $sel " == *" $pid "* ]]; then echo $id; fi
done | xargs -P 8 -I{} bash -c 'run {}' | sort
