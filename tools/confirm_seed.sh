#!/bin/bash
# confirm_seed.sh <PID> <LETTER> "<ninja test targets>" "<ctest regex>" [extra demo flags]
# Confirms a seeded change in a scratch worktree of /repo (never in /repo itself):
#   demo passes on the pristine tree, patch applies, tree compiles, named tests pass, demo fails on the patched tree.
# On success the seed is kept as /verif/seeded/<PID>_<LETTER>/.
set -u
PID=$1; L=$2; TARGETS=$3; REGEX=$4; XF=${5:-}
SRC=${SEEDROOT:-/tmp/seed_$PID}/$L
WT=/tmp/cs_${PID}_$L
DST=/verif/seeded/${PID}_$L
LOG=$(mktemp /var/tmp/confirm_${PID}_${L}_XXXX.log)
fail() { echo "CONFIRM-FAILED $PID/$L: $1" | tee -a $LOG; git -C /repo worktree remove --force $WT 2>/dev/null; cp $LOG $SRC/confirm_failed.log; exit 1; }
git -C /repo worktree remove --force $WT 2>/dev/null
git -C /repo worktree add --detach $WT HEAD -q || fail "worktree"
cd $WT
EXTRA=$(grep -l "thread_pool\|ThreadPool\|parallel_sample_sort\|sort_strings_parallel\|digest\|string/\|parallel_multiway_merge\|tlx/string.hpp\|die" $SRC/demo.cpp >/dev/null 2>&1 && echo yes)
LIBSRC=""
if grep -q "g++.*\.cpp.*tlx/" $SRC/notes.md 2>/dev/null || [ -n "$EXTRA" ]; then
  LIBSRC=$(ls $WT/tlx/*.cpp $WT/tlx/*/*.cpp | grep -v backtrace | tr '\n' ' ')
fi
build_demo() { g++ -std=c++20 -O1 -g $XF -I$WT $SRC/demo.cpp $LIBSRC -lpthread -o $WT/demo_bin >>$LOG 2>&1; }
run_demo() { timeout 600 $WT/demo_bin >>$LOG 2>&1; }
echo "== pristine demo" >>$LOG
build_demo || fail "demo does not build on pristine tree"
run_demo; R0=$?
[ $R0 -eq 0 ] || fail "demo fails on the pristine tree (rc=$R0)"
echo "== apply" >>$LOG
git apply $SRC/patch.diff >>$LOG 2>&1 || fail "patch does not apply to current HEAD"
echo "== patched demo" >>$LOG
build_demo || fail "demo does not build on patched tree"
R1=0
for i in 1 2 3; do run_demo; R1=$?; [ $R1 -ne 0 ] && break; done
[ $R1 -ne 0 ] || fail "demo passes on the patched tree"
echo "== tests ($TARGETS)" >>$LOG
cmake -G Ninja -S $WT -B $WT/_build -DTLX_BUILD_TESTS=ON -DCMAKE_BUILD_TYPE=RelWithDebInfo >>$LOG 2>&1 || fail "cmake"
ninja -C $WT/_build $TARGETS >>$LOG 2>&1 || fail "patched tree does not compile ($TARGETS)"
ctest --test-dir $WT/_build -R "$REGEX" --timeout 1500 -j4 >>$LOG 2>&1 || fail "existing tests fail with the patch"
grep "tests passed" $LOG | tail -1
mkdir -p $DST
git -C $WT diff > $DST/patch.diff
cp $SRC/demo.cpp $DST/demo.cpp
cp $SRC/notes.md $DST/notes.md 2>/dev/null
tail -40 $LOG > $DST/confirm.log
echo "CONFIRMED $PID/$L pristine_rc=$R0 patched_rc=$R1 tests='$REGEX'" | tee -a $DST/confirm.log
cd /; git -C /repo worktree remove --force $WT
rm -f $LOG
