import glob, json, os, re, subprocess, sys
props = [json.loads(l) for l in open('/verif/properties.jsonl')]
f2p = {}
for p in props:
    for f in p["anchors"]["files"]:
        f2p.setdefault(f, set()).add(p["id"])
extra = {"tlx/container/loser_tree.hpp": {"C05","C06","C07"}, "tlx/algorithm/multisequence_partition.hpp": {"C07","C08"},
         "tlx/algorithm/multiway_merge.hpp": {"C05","C06","C07"}, "tlx/algorithm/multiway_merge_splitting.hpp": {"C06","C07"},
         "tlx/thread_barrier_mutex.hpp": {"C06","C11"}, "tlx/container/btree.hpp": {"C01","C02"}, "tlx/thread_pool.cpp": {"C10"}, "tlx/thread_pool.hpp": {"C10"},
         "tlx/container/simple_vector.hpp": {"C16"}, "tlx/math/round_to_power_of_two.hpp": {"C20","C16"}}
keep = '--keep' in sys.argv
only = [a for a in sys.argv[1:] if a != '--keep']
for d in sorted(glob.glob(os.environ.get('REFAC_GLOB', '/tmp/refac_C*/R*'))):
    pid = d.split('/')[2].split('_')[1]; tagp = d.split('/')[2].split('_')[0]
    if only and pid not in only: continue
    pf = os.path.join(d, 'patch.diff')
    if not os.path.exists(pf): continue
    files = re.findall(r'^\+\+\+ b/(\S+)', open(pf).read(), re.M)
    pids = {pid}
    for f in files:
        pids |= f2p.get(f, set()) | extra.get(f, set())
    out = subprocess.run(['/verif/tools/scratchtest.sh', pf] + sorted(pids), capture_output=True, text=True).stdout
    rcs = re.findall(r'^(C\d+) rc=(\d)', out, re.M)
    if keep and rcs and all(rc == "0" for _, rc in rcs):
        for q, _ in rcs:
            rn = os.path.basename(d) + {'refac2': 'b', 'refac3': 'c', 'refac4': 'd', 'refac5': 'e', 'refac6': 'f'}.get(tagp, '')
            tgt = '/verif/selftest/%s/silent_refac_%s_%s.patch' % (q, pid, rn)
            if not os.path.exists(tgt):
                subprocess.run(['python3', '/verif/tools/keep_refactor.py', q, d, '%s_%s' % (pid, rn)])
    for line in out.strip().splitlines():
        m = re.match(r'(C\d+) rc=(\d)', line)
        tag = "" if m and m.group(2) == "0" else "   <<<<"
        print("%s %s: %s%s" % (pid, os.path.basename(d), line[:230], tag))
