#!/usr/bin/env python3
"""regenerates MANIFEST.json from tools/claims.py (single source for what is claimed)"""
import json, os, sys
HERE = os.path.dirname(os.path.dirname(os.path.abspath(__file__)))
sys.path.insert(0, os.path.join(HERE, "tools"))
import claims
props = [json.loads(l) for l in open(os.path.join(HERE, "properties.jsonl"))]
checks = []
na = []
for p in props:
    pid = p["id"]
    c = claims.CLAIMS.get(pid)
    if c:
        checks.append({
            "property_id": pid,
            "quick_cmd": "./check %s --tier quick" % pid,
            "thorough_cmd": "./check %s --tier thorough" % pid,
            "evidence_file": "/verif/evidence/%s.json" % pid,
            "replay_cmd_template": "./check replay {path}",
            "engine": c.get("engine", "tlxir + rules/%s.py" % pid.lower()),
            "level_claimed": {"category": c["level"], "text": c["text"], "design_ref": c.get("design_ref", "DESIGN.md §5 " + pid)},
            "level_note": c["note"],
            "technique": c["technique"],
        })
    else:
        na.append({"property_id": pid, "reason": claims.NOT_APPLICABLE.get(pid, "check not implemented yet (work in progress; planned static clauses are in DESIGN.md §5)")})
m = {
    "version": 1,
    "setup_cmd": "./setup.sh",
    "hooks": {"guard": "TLX_VERIF", "enable": "none needed: the analysis reads unmodified sources; no hook commits exist",
              "baseline_off_cmd": "cmake -G Ninja -B /repo/_build -S /repo -DTLX_BUILD_TESTS=ON -DTLX_MORE_TESTS=ON -DCMAKE_BUILD_TYPE=RelWithDebInfo && cmake --build /repo/_build && ctest --test-dir /repo/_build -j8 --timeout 900",
              "source_commits": [], "add_only": True},
    "engines": claims.ENGINES,
    "checks": checks,
    "notes": claims.NOTES,
    "not_applicable": na,
}
json.dump(m, open(os.path.join(HERE, "MANIFEST.json"), "w"), indent=1)
print("MANIFEST.json: %d checks, %d not applicable" % (len(checks), len(na)))
