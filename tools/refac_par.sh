#!/bin/bash
# refac_par.sh <glob>... : runs ALL 20 quick checks against every patch.diff under the given directories (in parallel);
# prints one line per (patch, property) whose exit code is not 0, and a summary.  Maintenance tool, not part of a check.
OUT=$(mktemp -d /var/tmp/refpar_XXXX)
ls -d $@ 2>/dev/null | while read d; do [ -f $d/patch.diff ] && echo $d; done > $OUT/list
ALL=$(seq -f 'C%02g' 1 20 | tr '\n' ' ')
cat $OUT/list | xargs -P ${PAR:-8} -I{} sh -c "/verif/tools/scratchtest.sh {}/patch.diff $ALL > $OUT/\$(echo {} | tr '/' '_').txt 2>&1"
n=0; bad=0; und=0
for d in $(cat $OUT/list); do f=$OUT/$(echo $d | tr '/' '_').txt; n=$((n+1))
  grep -v " rc=0" $f | while read l; do echo "$d: ${l:0:250}"; done
  grep -q " rc=1" $f && bad=$((bad+1)); grep -q " rc=2\|PATCH-FAILED" $f && und=$((und+1))
done
echo "patches=$n with-rc1=$bad with-rc2=$und"
rm -rf $OUT
