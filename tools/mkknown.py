#!/usr/bin/env python3
"""mkknown.py: records, from the current (reference) tree, the qualified names of all functions and the names of all locals
per function that the witness translation units contain, into data/known.json.  engine/normalize.py treats everything
else as a novelty (a helper to inline, a local to see through).  Re-run after every commit to /repo."""
import json, os, subprocess, sys
here = os.path.dirname(os.path.dirname(os.path.abspath(__file__)))
tmp = os.path.join(here, "out", "known.jsonl")
os.makedirs(os.path.dirname(tmp), exist_ok=True)
if os.path.exists(tmp):
    os.unlink(tmp)
env = dict(os.environ, VERIF_RECORD_KNOWN=tmp, VERIF_OUT=os.path.join(here, "out", "_known_run"))
props = [json.loads(l)["id"] for l in open(os.path.join(here, "properties.jsonl"))]
for tier in ("quick", "thorough"):
    for p in props:
        r = subprocess.run([os.path.join(here, "check"), p, "--tier", tier], env=env, capture_output=True, text=True)
        if r.returncode != 0:
            print("warning: %s %s exited %d" % (p, tier, r.returncode))
fns, locs = set(), {}
for line in open(tmp):
    d = json.loads(line)
    fns |= set(d["functions"])
    for k, v in d["locals"].items():
        locs.setdefault(k, set()).update(v)
os.unlink(tmp)
out = {"functions": sorted(fns), "locals": {k: sorted(v) for k, v in sorted(locs.items())}}
with open(os.path.join(here, "data", "known.json"), "w") as f:
    json.dump(out, f, indent=0, sort_keys=True)
print("known: %d functions, %d functions with locals" % (len(fns), len(locs)))
