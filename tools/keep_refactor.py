#!/usr/bin/env python3
"""keep_refactor.py <PID> <dir-with-patch.diff> <name>: stores a behaviour-preserving refactoring (written by a sub-agent in a
scratch worktree) as selftest/<PID>/silent_refac_<name>.patch; the self-test then requires the check to stay silent on it."""
import os, sys
pid, d, name = sys.argv[1:4]
here = os.path.dirname(os.path.dirname(os.path.abspath(__file__)))
src = open(os.path.join(d, "patch.diff")).read()
note = ""
np = os.path.join(d, "notes.md")
if os.path.exists(np):
    first = [l.strip() for l in open(np) if l.strip()]
    note = first[0].lstrip("# ")[:160] if first else ""
out = "#expect silent=1\n#refactoring by a sub-agent: %s\n" % note + src
p = os.path.join(here, "selftest", pid, "silent_refac_%s.patch" % name)
open(p, "w").write(out)
print("kept", p)
