"""C16 — RingBuffer cursor/slot algebra, clear-before-free, moved-from state;
SimpleVector allocation-mode table, ownership of array_, resize order.

Verdict discipline of this file: a violation is reported only on positive evidence - a counterexample of an evaluation
(cursor grid, skeleton run), a CFG path, or an effect list in which EVERY statement was classified.  A shape that is not
recognised is dtable.Undecidable, unless absence can be established in a closed world (every operation that touches the
object on the path is of a known kind and none of them has the required effect)."""
from engine import ir, dtable, match, skel, cfg as cfgm
from engine.ir import kids, strip_casts, const_int, ref_of
from engine.mustfact import MustFact

RB = "tlx::RingBuffer"
SV = "tlx::SimpleVector"
M64 = 2 ** 64
BASE = 1000            # address of data_[0] / array[0] in the evaluations

TRANSPARENT = ("move", "forward", "as_const", "move_if_noexcept")       # value-preserving wrappers
ASSIGN_OPS = ("=", "+=", "-=", "*=", "/=", "%=", "&=", "|=", "^=", "<<=", ">>=")


def is_assert_stmt(s):
    """assert() expansion: NDEBUG -> static_cast<void>(0); otherwise cond ? void(0) : __assert_fail()"""
    if s is None:
        return False
    if s["k"] in ("CXXStaticCastExpr", "CStyleCastExpr") and s.get("ty") == "void":
        return True
    if s["k"] == "ConditionalOperator":
        return any(c.get("callee", {}).get("noreturn") for c in ir.walk(s) if "callee" in c)
    return False


def unwrap(e):
    """looks through casts, converting constructions and std::move / std::forward / std::as_const"""
    e = match.strip_conv(e)
    while e is not None and e["k"] == "CallExpr" and e["callee"]["name"] in TRANSPARENT and len(kids(e)) == 1:
        e = match.strip_conv(kids(e)[0])
    return e


def self_obj(n):
    """the This node if n denotes the object itself: this, *this, (*this), std::as_const(*this), a const_cast of it; else None"""
    for _ in range(6):
        n = strip_casts(n)
        if n is None:
            return None
        if n["k"] == "This":
            return n
        if n["k"] in ("ParenExpr", "MaterializeTemporaryExpr", "ExprWithCleanups") and kids(n):
            n = kids(n)[0]
        elif n["k"] == "UnaryOperator" and n.get("op") == "*" and kids(n):
            n = kids(n)[0]
        elif n["k"] == "CallExpr" and n["callee"]["name"] in TRANSPARENT and len(kids(n)) == 1:
            n = kids(n)[0]
        else:
            return None
    return None


def is_null(e):
    e = unwrap(e)
    return e is not None and (e["k"] in ("NullPtr", "CXXNullPtrLiteralExpr", "GNUNullExpr") or const_int(e) == 0)


def P(g, n):
    """CFG position of a node (of its last evaluated part if it is not an element itself)"""
    return g.pos(n) or g.pos_deep(n)


def local_defs(fn):
    """declaration id -> VarDecl of the locals that get their value at the declaration and keep it: never assigned,
    incremented, address-taken or handed to swap/exchange"""
    decls = {v["did"]: v for v in fn.nodes() if v["k"] == "VarDecl" and v.get("did") is not None and kids(v) and kids(v)[0] is not None}
    for x in fn.nodes():
        w = match.unop(x, ("++", "--")) or (match.binop(x, ASSIGN_OPS) if x["k"] in ("BinaryOperator", "CompoundAssignOperator", "CXXOperatorCallExpr") else None)
        if w and ref_of(w[1]) is not None:
            decls.pop(ref_of(w[1]), None)
        if x["k"] == "UnaryOperator" and x.get("op") == "&" and kids(x) and ref_of(kids(x)[0]) is not None:
            decls.pop(ref_of(kids(x)[0]), None)
        if "callee" in x and x["callee"]["name"] in ("swap", "exchange", "iter_swap"):
            for a in kids(x):
                if ref_of(a) is not None:
                    decls.pop(ref_of(a), None)
    return decls


def captured_field(fn, g, e, defs, at):
    """e names a field of *this, directly or through a local that keeps the value it got at its declaration:
    -> (field name, CFG position at which the field was read) or None"""
    e = unwrap(e)
    for _ in range(4):
        f = match.this_field(e)
        if f:
            return f, at
        d = ref_of(e)
        if d is None or d not in defs:
            return None
        v = defs[d]
        if not (v.get("ty") or "").rstrip().endswith("&"):
            at = P(g, v)                     # a value copy: read where the local is declared
            if at is None:
                return None
        e = unwrap(kids(v)[0])
    return None


# ------------------------------------------------------------------ evaluation of ring-buffer members on small buffers
def _umod(v, ty):
    if isinstance(v, bool) or not isinstance(v, int):
        return v
    t = ty or ""
    if "unsigned long" in t or "size_t" in t:
        return v % M64
    if "unsigned int" in t or t == "unsigned":
        return v % (2 ** 32)
    if "unsigned short" in t:
        return v % (2 ** 16)
    return v


def unsigned_arith(e, sk):
    """C++ semantics for the operators on which unbounded integers differ from unsigned ones (division, remainder, shift,
    comparison): the operands are reduced to their unsigned type first.  + - * & | ^ commute with the final reduction."""
    if e["k"] == "BinaryOperator" and e.get("op") in ("%", "/", ">>", "<", "<=", ">", ">=", "==", "!="):
        a, b = kids(e)
        return sk.arith(e["op"], _umod(sk.ev(a), a.get("ty")), _umod(sk.ev(b), b.get("ty")), e)
    if e["k"] == "CompoundAssignOperator" and e.get("op") in ("%=", "/=", ">>="):
        a, b = kids(e)
        key = sk.lvalue(a)
        r = sk.arith(e["op"][:-1], _umod(sk.load(key), a.get("ty")), _umod(sk.ev(b), b.get("ty")), e)
        sk.store(key, r)
        return r
    return NotImplemented


def _has_update(e):
    return any((y["k"] == "UnaryOperator" and y.get("op") in ("++", "--")) or (y["k"] in ("BinaryOperator", "CompoundAssignOperator") and y.get("op") in ASSIGN_OPS)
               or (y["k"] == "CXXOperatorCallExpr" and y.get("op") in ASSIGN_OPS + ("++", "--")) for y in ir.walk(e))


def _assign_through(e, sk):
    """assignments the skeleton does not model itself: the target is the result of another update ((++end_) &= mask_,
    (end_ += 1) &= mask_): the inner update is performed first, then the outer one on the same object.  An assignment whose
    target the skeleton cannot name is Undecidable (it would be dropped silently)."""
    if e["k"] == "UnaryOperator" and e.get("op") in ("++", "--"):
        if sk.lvalue(kids(e)[0]) is None:
            raise dtable.Undecidable("%s: target of %s not understood: %s" % (sk.fn.nloc(e), e["op"], dtable.describe(e)))
        return NotImplemented
    if e["k"] not in ("BinaryOperator", "CompoundAssignOperator") or e.get("op") not in ASSIGN_OPS:
        return NotImplemented
    l = strip_casts(kids(e)[0])
    while l is not None and l["k"] == "ParenExpr":
        l = strip_casts(kids(l)[0])
    inner_update = l is not None and ((l["k"] == "UnaryOperator" and l.get("op") in ("++", "--") and not l.get("postfix")) or
                                      (l["k"] in ("BinaryOperator", "CompoundAssignOperator") and l.get("op") in ASSIGN_OPS))
    if not inner_update:
        if _has_update(l) or sk.lvalue(l) is None:
            raise dtable.Undecidable("%s: assignment target not understood: %s" % (sk.fn.nloc(e), dtable.describe(e)))
        return NotImplemented
    sk.ev(l)
    t = l
    while t is not None and ((t["k"] == "UnaryOperator" and t.get("op") in ("++", "--")) or
                             (t["k"] in ("BinaryOperator", "CompoundAssignOperator") and t.get("op") in ASSIGN_OPS) or t["k"] == "ParenExpr"):
        t = strip_casts(kids(t)[0])
    key = sk.lvalue(t) if t is not None and not _has_update(t) else None
    if key is None:
        raise dtable.Undecidable("%s: assignment target not understood: %s" % (sk.fn.nloc(e), dtable.describe(e)))
    rhs = sk.ev(kids(e)[1])
    if e["op"] == "=":
        v = rhs
    else:
        v = sk.arith(e["op"][:-1], _umod(sk.load(key), kids(e)[0].get("ty")), _umod(rhs, kids(e)[1].get("ty")), e)
    sk.store(key, v)
    return v


def _address(v):
    """element address of an evaluated pointer: data_ + i is an integer, &data_[i] is ('ptr', ('mem', a))"""
    if isinstance(v, int) and not isinstance(v, bool):
        return v
    if isinstance(v, tuple) and len(v) == 2 and v[0] == "ptr":
        s = _slot_of_key(v[1])
        return None if s is None else BASE + s
    return None


def _slot_of_key(key):
    """index of the data_ slot an evaluated lvalue names: ('mem', address) or ('elem', data_, index) (data_ seen as `T* const`)"""
    if isinstance(key, tuple) and len(key) == 2 and key[0] == "mem" and isinstance(key[1], int) and not isinstance(key[1], bool):
        return key[1] - BASE
    if isinstance(key, tuple) and len(key) == 3 and key[0] == "elem" and key[1] == ("field", "data_") and isinstance(key[2], int) and not isinstance(key[2], bool):
        return key[2]
    return None


def _return_ids(fn):
    """ids of the expressions returned by fn (through the wrappers the skeleton looks through)"""
    out = set()
    for r in ir.walk(fn.body):
        if r["k"] == "ReturnStmt" and kids(r):
            n = kids(r)[0]
            for _ in range(8):
                if n is None:
                    break
                out.add(n["id"])
                m = match.strip_conv(n)
                if m is None:
                    break
                out.add(m["id"])
                if m["k"] in ("ParenExpr", "ExprWithCleanups", "MaterializeTemporaryExpr", "CXXBindTemporaryExpr", "ConstantExpr") and kids(m):
                    n = kids(m)[0]
                else:
                    break
    return out


def _bare_type(ty):
    t = (ty or "").strip()
    while t.startswith("const ") or t.startswith("volatile "):
        t = t.split(" ", 1)[1].strip()
    return t


def aggregate_value(e, sk):
    """values that travel as a small aggregate of pointers / integers (struct Run { first, last }; std::array<Run, 2>):
    a braced initialiser of a plain struct of this translation unit is ("agg", member ids, values), one of an array (and of
    std::array, whose only member is such an array) is ("seq", values); v.member of a local that holds an aggregate is its
    component.  Anything else is left to the caller (NotImplemented)."""
    k = e["k"]
    if k == "InitListExpr" and kids(e) and all(x is not None for x in kids(e)) and sk.tu is not None:
        ty = _bare_type(e.get("ty"))
        if ty.endswith("]"):
            return ("seq", tuple(sk.ev(x) for x in kids(e)))
        if ty.startswith("std::array<") and len(kids(e)) == 1:
            inner = strip_casts(kids(e)[0])
            if inner is not None and inner["k"] == "InitListExpr" and _bare_type(inner.get("ty")).endswith("]"):
                return sk.ev(inner)
            return NotImplemented
        rec = [r for r in sk.tu.records if r.get("full") == ty]
        if len(rec) == 1 and not rec[0].get("bases") and len(rec[0].get("fields") or []) == len(kids(e)) and \
                all(f_.get("mid") is not None for f_ in rec[0]["fields"]):
            return ("agg", tuple(f_["mid"] for f_ in rec[0]["fields"]), tuple(sk.ev(x) for x in kids(e)))
        return NotImplemented
    if k == "MemberExpr" and kids(e) and not e.get("arrow") and e.get("mid") is not None and match.this_field(e) is None:
        b_ = strip_casts(kids(e)[0])
        while b_ is not None and b_["k"] == "ParenExpr" and kids(b_):
            b_ = strip_casts(kids(b_)[0])
        d_ = ref_of(b_)
        if d_ is not None:
            v_ = sk.load(sk.alias.get(d_, d_))
            if isinstance(v_, tuple) and len(v_) == 3 and v_[0] == "agg" and e["mid"] in v_[1]:
                return v_[2][v_[1].index(e["mid"])]
    return NotImplemented


class RangeSkel(skel.Skel):
    """the skeleton, with `for (const X& x : range)` over a range whose value is a sequence (aggregate_value): the body is run
    once per element with the loop variable holding that element.  The loop variable must be a copy or a const reference
    (nothing is written back into the sequence); every other range-for stays 'cannot decide'."""

    def stmt(self, s):
        if s is None or s["k"] != "CXXForRangeStmt" or self.stop is not None or len(kids(s)) != 3:
            return skel.Skel.stmt(self, s)
        rng, var, body = kids(s)
        ty = (var.get("ty") or "").strip() if var is not None and var["k"] == "VarDecl" else None
        seq = self.ev(rng) if ty is not None and rng is not None else None
        if not (isinstance(seq, tuple) and len(seq) == 2 and seq[0] == "seq") or var.get("did") is None or \
                (ty.endswith("&") and not ty.startswith("const ")):
            raise dtable.Undecidable("%s: CXXForRangeStmt in the skeleton at line %s" % (self.fn.full, s.get("l")))
        n = 0
        for v in seq[1]:
            n += 1
            if n > self.MAX_ITER:
                ex = skel.TooLong("%s: loop at line %s does not end within %d rounds of the skeleton" % (self.fn.full, s.get("l"), self.MAX_ITER))
                ex.loop = s
                raise ex
            self.alias.pop(var["did"], None)
            self.env[var["did"]] = v
            try:
                self.stmt(body)
            except skel._Break:
                break
            except skel._Continue:
                pass


def ring_event(on_make, on_gone, rk=None):
    """the event handler of an evaluation of ring-buffer code: element constructions (allocator construct / construct_at /
    placement new) and destructions are reported to on_make(address, value expressions, sk, node) / on_gone(address, sk, node);
    updates through the result of another update and unsigned division / comparison are evaluated exactly.  Closed world: a
    call that is neither of these, a value wrapper, nor a function whose body the skeleton enters is Undecidable."""
    rets = {}

    def event(e, sk):
        if rk is not None:
            if sk.fn.did not in rets:
                rets[sk.fn.did] = _return_ids(sk.fn)
            if e["id"] in rets[sk.fn.did]:
                k_ = sk.lvalue(e)                  # the element a return names; a forwarding `return front();` takes it from the callee
                if k_ is not None:
                    rk[0] = k_
        if is_assert_stmt(e):
            return None
        r = _assign_through(e, sk)
        if r is not NotImplemented:
            return r
        r = unsigned_arith(e, sk)
        if r is not NotImplemented:
            return r
        r = aggregate_value(e, sk)
        if r is not NotImplemented:
            return r
        if e["k"] == "CXXNewExpr" and e.get("placement") == 1 and not e.get("array") and kids(e):
            a = _address(sk.ev(kids(e)[0]))               # ::new (address) T(...)
            if a is None:
                raise dtable.Undecidable("%s: address of the placement new cannot be evaluated: %s" % (sk.fn.nloc(e), dtable.describe(kids(e)[0])))
            on_make(a, kids(e)[1:], sk, e)
            return ("ptr", ("mem", a))
        if e["k"] in ("CXXNewExpr", "CXXDeleteExpr", "LambdaExpr"):
            raise dtable.Undecidable("%s: %s is not evaluated in a ring-buffer member" % (sk.fn.nloc(e), e["k"]))
        if "callee" in e:
            nm = e["callee"]["name"]
            args = kids(e)
            if nm in ("addressof", "__addressof") and args:
                key = sk.lvalue(args[-1])
                return ("ptr", key) if key is not None else None
            if nm in ("construct", "construct_at", "destroy", "destroy_at") and len(args) >= 1:
                with_alloc = nm in ("construct", "destroy")
                if with_alloc and len(args) < 2:
                    raise dtable.Undecidable("%s: %s call not understood" % (sk.fn.nloc(e), nm))
                a = _address(sk.ev(args[1] if with_alloc else args[0]))
                if a is None:
                    raise dtable.Undecidable("%s: address of the %sed element cannot be evaluated: %s"
                                             % (sk.fn.nloc(e), nm.split("_")[0], dtable.describe(args[1] if with_alloc else args[0])))
                if nm.startswith("construct"):
                    on_make(a, args[2:] if with_alloc else args[1:], sk, e)
                else:
                    on_gone(a, sk, e)
                return None
            if e["k"] == "CXXOperatorCallExpr" and args:
                th = self_obj(args[0])
                cal = sk.tu.by_did.get(e["callee"].get("did")) if sk.tu is not None else None
                if th is not None and cal is not None and cal.record == sk.fn.record:
                    # (*this)[i], (*this)(...): the member operator is entered like a named member call
                    r = sk.inline({"k": "CXXMemberCallExpr", "member_call": True, "callee": e["callee"], "id": e["id"], "ch": [th] + args[1:]},
                                  [th] + args[1:])
                    if r is NotImplemented:
                        raise dtable.Undecidable("%s: call of %s on *this is not understood" % (sk.fn.nloc(e), nm))
                    return r
                return NotImplemented
            if nm in TRANSPARENT or nm in ("min", "max"):
                return NotImplemented
            if e["k"] in ("CXXConstructExpr", "CXXTemporaryObjectExpr"):
                return None                               # an element value
            cal = sk.tu.by_did.get(e["callee"].get("did")) if sk.tu is not None else None
            th = self_obj(args[0]) if e.get("member_call") and args else None
            on_this = th is not None
            if cal is not None and cal.body is not None and cal.did != sk.fn.did and cal.kind not in ("ctor", "dtor", "lambda") and sk.depth < 5 \
                    and (on_this or not e.get("member_call")) and len(args) - (1 if on_this else 0) == len(cal.params):
                if on_this and strip_casts(args[0])["k"] != "This":
                    # (*this).f(...), std::as_const(*this).f(...): entered like this->f(...)
                    e2 = dict(e)
                    e2["ch"] = [th] + args[1:]
                    r = sk.inline(e2, [a_ for a_ in e2["ch"] if a_ is not None and a_["k"] != "DefaultArg"])
                    if r is NotImplemented:
                        raise dtable.Undecidable("%s: call of %s on *this is not understood" % (sk.fn.nloc(e), nm))
                    return r
                return NotImplemented                     # the skeleton enters the body
            raise dtable.Undecidable("%s: call of %s is not understood in a ring-buffer member" % (sk.fn.nloc(e), nm))
        return NotImplemented
    return event


def ring_run(fn, b_, e_, m_, i_=None):
    """evaluates the body of a RingBuffer member for one cursor position (begin_, end_) of a buffer with capacity m_+1:
    -> (returned value, key of the returned lvalue, final environment, constructed slots, destroyed slots).
    Closed world: see ring_event."""
    made, gone, rk = [], [], [None]
    event = ring_event(lambda a, vals, sk, e: made.append(a - BASE), lambda a, sk, e: gone.append(a - BASE), rk)
    env = {("field", "begin_"): b_, ("field", "end_"): e_, ("field", "mask_"): m_, ("field", "capacity_"): m_ + 1,
           ("field", "data_"): BASE, ("field", "max_size_"): m_}
    if fn.params and i_ is not None:
        env[fn.params[0]["did"]] = i_
    sk = RangeSkel(fn, env, None, event, max_iter=64)
    ret = None
    try:
        sk.run(kids(fn.body))
    except skel.Return as r_:
        ret = r_.v
    except skel.Diverges as d_:
        raise dtable.Undecidable("%s: loop does not end for begin_=%d end_=%d mask_=%d" % (fn.nloc(d_.loop), b_, e_, m_))
    return ret, rk[0], sk.env, made, gone


# ------------------------------------------------------------------ cursor algebra
class Cursor:
    """symbolic ring index: base cursor ('b' | 'e') + integer offset (+ optional param)"""

    def __init__(self, base, off=0, param=None, masked=True):
        self.base, self.off, self.param, self.masked = base, off, param, masked

    def key(self):
        return (self.base, self.off, self.param)

    def __repr__(self):
        s = {"b": "begin_", "e": "end_"}[self.base]
        if self.off:
            s += "%+d" % self.off
        if self.param:
            s += "+" + self.param
        return s


def eval_index(n, st, fn):
    """index expression over begin_/end_/mask_ -> Cursor (relative to the pre-state), or None"""
    n = strip_casts(n)
    f = match.this_field(n)
    if f == "begin_":
        return Cursor("b", st["b"], masked=st.get("bm", True))
    if f == "end_":
        return Cursor("e", st["e"], masked=st.get("em", True))
    b = match.binop(n, ("&", "%", "+", "-"))
    if b:
        op, l, r = b
        if op == "&" and (match.this_field(r) == "mask_" or match.this_field(l) == "mask_"):
            inner = l if match.this_field(r) == "mask_" else r
            c = eval_index(inner, st, fn)
            if c:
                c.masked = True
            return c
        if op == "%" and match.this_field(r) == "capacity_":
            c = eval_index(l, st, fn)
            if c:
                c.masked = True
            return c
        if op in ("+", "-"):
            c = eval_index(l, st, fn)
            k = const_int(r)
            if c and k is not None:
                return Cursor(c.base, c.off + (k if op == "+" else -k), c.param, masked=False)
            if c and op == "+" and ref_of(r) is not None and fn.param_index(ref_of(r)) is not None:
                return Cursor(c.base, c.off, ir.ref_name(r), masked=False)
            if op == "+":
                c2 = eval_index(r, st, fn)
                k2 = const_int(l)
                if c2 and k2 is not None:
                    return Cursor(c2.base, c2.off + k2, c2.param, masked=False)
                if c2 and ref_of(l) is not None and fn.param_index(ref_of(l)) is not None:
                    return Cursor(c2.base, c2.off, ir.ref_name(l), masked=False)
    return None


def slot_of_address(a, st, fn):
    """address expression of a data_ slot -> Cursor"""
    a = strip_casts(a)
    c = match.call_named(a, ("addressof", "__addressof"))
    if c:
        return slot_of_lvalue(kids(c)[-1], st, fn)
    if a["k"] == "UnaryOperator" and a["op"] == "&":
        return slot_of_lvalue(kids(a)[0], st, fn)
    b = match.binop(a, ("+",))
    if b and match.this_field(b[1]) == "data_":
        return eval_index(b[2], st, fn)
    if b and match.this_field(b[2]) == "data_":
        return eval_index(b[1], st, fn)
    return None


def slot_of_lvalue(e, st, fn):
    p = match.index_parts(e)
    if p and match.this_field(p[0]) == "data_":
        return eval_index(p[1], st, fn)
    d = match.deref_of(e)
    if d is not None:
        return slot_of_address(d, st, fn)
    return None


def cursor_update(s, st, fn):
    """recognises ++end_ &= mask_, --begin_ &= mask_, end_ = (end_+1) & mask_, ++end_, end_ += 1, end_ &= mask_ ...;
    returns (cursor name, new offset, wrapped) or None.  A cursor may be advanced and wrapped in two statements."""
    b = match.binop(s, ("&=", "%=", "=", "+=", "-="))
    if b:
        op, l, r = b
        if op in ("&=", "%="):
            wraps = (op == "&=" and match.this_field(r) == "mask_") or (op == "%=" and match.this_field(r) == "capacity_")
            if not wraps:
                return None
            tgt = match.this_field(l)
            if tgt in ("begin_", "end_"):
                return tgt, st[tgt[0]], True
            inner = cursor_update(l, st, fn)          # (++end_) &= mask_ / (end_ += 1) &= mask_
            if inner and strip_casts(l)["k"] != "BinaryOperator":
                return inner[0], inner[1], True
            return None
        if op in ("+=", "-="):
            tgt = match.this_field(l)
            k = const_int(r)
            if tgt in ("begin_", "end_") and k is not None:
                return tgt, st[tgt[0]] + (k if op == "+=" else -k), False
            return None
        tgt = match.this_field(l)
        if tgt in ("begin_", "end_"):
            c = eval_index(r, st, fn)
            if c and c.base == tgt[0] and c.param is None:
                return tgt, c.off, c.masked
        return None
    u = match.unop(s, ("++", "--"))
    if u and match.this_field(u[1]) in ("begin_", "end_"):
        tgt = match.this_field(u[1])
        return tgt, st[tgt[0]] + (1 if u[0] == "++" else -1), False
    return None


EXPECT = {  # public mutator -> (delta begin, delta end)
    "push_back": (0, 1), "emplace_back": (0, 1), "push_front": (-1, 0), "emplace_front": (-1, 0),
    "pop_front": (1, 0), "pop_back": (0, -1),
}


def mutator_effects(fn):
    """the mutator as an effect list over symbolic cursors: -> ("ok", delta, constructed keys, destroyed keys) or
    ("violation", sig, msg, loc); Undecidable when a statement is of no known kind (nothing is concluded from it)"""
    st = {"b": 0, "e": 0, "bm": True, "em": True}
    last = {}
    constructed, destroyed = [], []
    for s in kids(fn.body):
        if is_assert_stmt(s) or s["k"] == "NullStmt":
            continue
        c = match.call_named(s, ("construct", "construct_at"))
        placed = s["k"] == "CXXNewExpr" and s.get("placement") == 1 and not s.get("array") and kids(s)      # ::new (address) T(...)
        if c or placed:
            addr = kids(s)[0] if placed else kids(c)[1] if c["callee"]["name"] == "construct" else kids(c)[0]
            slot = slot_of_address(addr, st, fn)
            if slot is None:
                raise dtable.Undecidable("%s: constructed address not understood: %s" % (fn.nloc(s), dtable.describe(addr)))
            constructed.append((slot, s))
            continue
        d = match.call_named(s, ("destroy", "destroy_at"))
        if d:
            addr = kids(d)[1] if d["callee"]["name"] == "destroy" else kids(d)[0]
            slot = slot_of_address(addr, st, fn)
            if slot is None:
                raise dtable.Undecidable("%s: destroyed address not understood: %s" % (fn.nloc(s), dtable.describe(addr)))
            destroyed.append((slot, s))
            continue
        u = cursor_update(s, st, fn)
        if u:
            tgt, off, masked = u
            st[tgt[0]] = off
            st[tgt[0] + "m"] = masked
            last[tgt] = s
            continue
        raise dtable.Undecidable("%s: statement not understood in ring-buffer mutator: %s" % (fn.nloc(s), dtable.describe(s)))
    for tgt in ("begin_", "end_"):
        if not st[tgt[0] + "m"]:
            return ("violation", "unmasked:" + tgt, "cursor %s is updated without wrapping (& mask_)" % tgt, fn.nloc(last[tgt]))
    exp = EXPECT.get(fn.name)
    delta = (st["b"], st["e"])
    if exp is not None and delta != exp:
        return ("violation", "delta", "%s moves (begin_,end_) by %s, a %s must move them by %s" % (fn.name, delta, fn.name, exp), fn.loc)
    if delta not in ((0, 1), (-1, 0), (1, 0), (0, -1)):
        raise dtable.Undecidable("%s: unexpected cursor movement %s" % (fn.loc, delta))
    want_c = {(0, 1): [("e", 0, None)], (-1, 0): [("b", -1, None)]}.get(delta, [])
    want_d = {(1, 0): [("b", 0, None)], (0, -1): [("e", -1, None)]}.get(delta, [])
    got_c = [c.key() for c, _ in constructed]
    got_d = [c.key() for c, _ in destroyed]
    for slot, s in constructed + destroyed:
        if not slot.masked:
            return ("violation", "unmasked-index", "slot index %r is not wrapped (& mask_)" % slot, fn.nloc(s))
    if got_c != want_c or got_d != want_d:
        def f(l):
            return "[" + ",".join(repr(Cursor(*k)) for k in l) + "]"
        return ("violation", "slot",
                "live range [begin_,end_) changes by %s: must construct %s / destroy %s (pre-state cursors), but constructs %s / destroys %s"
                % (delta, f(want_c), f(want_d), f(got_c), f(got_d)), fn.loc)
    return ("ok", delta, got_c, got_d)


def mutator_grid(fn):
    """the mutator evaluated on every cursor position (within its precondition) of buffers with mask 1, 3, 7: -> None if it always constructs /
    destroys exactly the slot that enters / leaves [begin_, end_) and leaves both cursors wrapped, else a counterexample"""
    db, de = EXPECT[fn.name]
    for m_ in (1, 3, 7):
        for b_ in range(m_ + 1):
            for e_ in range(m_ + 1):
                size_ = (e_ - b_) & m_
                if (de - db == 1 and size_ + 1 > m_) or (de - db == -1 and size_ < 1):
                    continue                      # outside the documented precondition (not full / not empty; max_size_ = mask_)
                _, _, env, made, gone = ring_run(fn, b_, e_, m_)
                nb, ne = env.get(("field", "begin_")), env.get(("field", "end_"))
                if not isinstance(nb, int) or not isinstance(ne, int):
                    raise dtable.Undecidable("%s: cursors cannot be evaluated" % fn.loc)
                want = ((b_ + db) & m_, (e_ + de) & m_,
                        [e_] if (db, de) == (0, 1) else [(b_ - 1) & m_] if (db, de) == (-1, 0) else [],
                        [b_] if (db, de) == (1, 0) else [(e_ - 1) & m_] if (db, de) == (0, -1) else [])
                got = (nb % M64, ne % M64, made, gone)
                if got != want:
                    return dict(b=b_, e=e_, m=m_, got=got, want=want)
    return None


def check_mutator(ck, fn):
    where = "%s(%s)" % (fn.qname, ",".join(p["ty"] for p in fn.params))
    try:
        res = mutator_effects(fn)
    except dtable.Undecidable:
        res = None
    if res is not None and res[0] == "ok":
        _, delta, got_c, got_d = res
        ck.ok("SLOT-CURSOR", where, "delta(begin_,end_)=%s constructs %s destroys %s" % (delta, got_c, got_d),
              sample=dict(rule="SLOT-CURSOR", fn=where, delta=delta, constructed=got_c, destroyed=got_d))
        return
    # not the usual statement shapes (or an effect list that breaks the rule): decide on all cursor positions of small buffers
    try:
        cex = mutator_grid(fn)
    except dtable.Undecidable:
        if res is None:
            raise
        cex = False                       # the effect list is complete and stands on its own
    if res is not None:
        if cex is None:
            raise dtable.Undecidable("%s: effect list and evaluation of %s disagree (%s)" % (fn.loc, fn.name, res[1]))
        ck.violation("SLOT-CURSOR", fn.qname, res[1], res[2], res[3])
        return
    if cex:
        g_, w_ = cex["got"], cex["want"]
        ck.violation("SLOT-CURSOR", fn.qname, "grid",
                     "for begin_=%d end_=%d mask_=%d %s constructs slots %s / destroys slots %s and leaves begin_=%d end_=%d; the live range "
                     "convention requires constructing %s / destroying %s and begin_=%d end_=%d"
                     % (cex["b"], cex["e"], cex["m"], fn.name, g_[2], g_[3], g_[0], g_[1], w_[2], w_[3], w_[0], w_[1]), fn.loc)
        return
    ck.ok("SLOT-CURSOR", where, "constructs/destroys the slot entering/leaving [begin_,end_) on every cursor position of buffers with mask 1..7",
          sample=dict(rule="SLOT-CURSOR", fn=where, evaluated="mask 1,3,7"))


def check_accessor(ck, fn):
    rets = [x for x in ir.walk(fn.body) if x["k"] == "ReturnStmt"]
    where = fn.qname + (" const" if fn.d.get("const") else "")
    st = {"b": 0, "e": 0}
    e = kids(rets[0])[0] if len(rets) == 1 and kids(rets[0]) else None
    plain = e is not None and all(is_assert_stmt(s) or s is rets[0] for s in kids(fn.body))      # asserts and one return
    if fn.name == "size":
        okk = False
        b = match.binop(e, ("&", "%")) if plain else None
        if b and (match.this_field(b[2]) in ("mask_", "capacity_")):
            bb = match.binop(b[1], ("-",))
            okk = bool(bb and match.this_field(bb[1]) == "end_" and match.this_field(bb[2]) == "begin_")
        if not okk:
            cex = accessor_grid(fn, lambda b_, e_, m_, i_: (e_ - b_) & m_, index=False)
            if cex:
                ck.violation("ACCESSOR-CONVENTION", fn.qname, "size", "size() is not (end_ - begin_) wrapped: %s gives %s for begin_=%d end_=%d mask_=%d"
                             % (dtable.describe(e) if e is not None else "it", cex[3], cex[0], cex[1], cex[2]), fn.loc)
                return
        ck.ok("ACCESSOR-CONVENTION", where, "(end_ - begin_) & mask_")
        return
    slot = slot_of_lvalue(e, st, fn) if plain else None
    want = {"front": ("b", 0, None), "back": ("e", -1, None), "operator[]": ("b", 0, fn.params[0]["name"] if fn.params else None)}[fn.name]
    if slot is None or slot.key() != want or not slot.masked:
        # not the usual spelling: decide on all cursor positions of small buffers
        spec = {"front": lambda b_, e_, m_, i_: b_ & m_, "back": lambda b_, e_, m_, i_: (e_ - 1) & m_,
                "operator[]": lambda b_, e_, m_, i_: (b_ + i_) & m_}[fn.name]
        cex = accessor_grid(fn, spec, index=True)
        if cex:
            ck.violation("ACCESSOR-CONVENTION", fn.qname, "slot", "%s returns %s: slot %s for begin_=%d end_=%d mask_=%d%s, the live range convention requires data_[%r & mask_]"
                         % (fn.name, dtable.describe(e) if e is not None else "an element", cex[3], cex[0], cex[1], cex[2], (" i=%d" % cex[4]) if fn.params else "",
                            Cursor(*want)), fn.loc)
            return
        ck.ok("ACCESSOR-CONVENTION", where, "returns the slot of the convention on every cursor position of buffers with mask 0..15")
        return
    ck.ok("ACCESSOR-CONVENTION", where, "returns data_[%r]" % slot)


def accessor_grid(fn, spec, index):
    """evaluates the accessor (the slot of the element it returns if `index`, else its value) for every (begin_, end_, mask_, i)
    of small ring buffers: -> None if it always equals spec, else a counterexample (b, e, m, got, i); Undecidable if the
    body cannot be evaluated"""
    for m_ in (0, 1, 3, 7, 15):
        for b_ in range(m_ + 1):
            for e_ in range(m_ + 1):
                for i_ in (range(m_ + 1) if fn.params else [0]):
                    if index and ((e_ - b_) & m_) <= i_:
                        continue                  # outside the documented precondition (!empty() / i < size())
                    ret, key, _, made, gone = ring_run(fn, b_, e_, m_, i_)
                    if made or gone:
                        raise dtable.Undecidable("%s: accessor constructs or destroys elements" % fn.loc)
                    if index:
                        got = _slot_of_key(key)
                        if got is None:
                            raise dtable.Undecidable("%s: returned element not understood" % fn.loc)
                    else:
                        got = ret
                        if isinstance(got, bool) or not isinstance(got, int):
                            raise dtable.Undecidable("%s: returned value cannot be evaluated" % fn.loc)
                    got %= M64
                    if got != spec(b_, e_, m_, i_) % M64:
                        return (b_, e_, m_, got, i_)
    return None


def this_calls(fn, names):
    out = []
    for x in ir.walk(fn.body):
        if "callee" in x and (names is None or x["callee"]["name"] in names) and x.get("member_call") and kids(x):
            if self_obj(kids(x)[0]) is not None:
                out.append(x)
    return out


RB_OBSERVERS = ("size", "empty", "max_size", "capacity", "front", "back", "operator[]", "copy_to", "save")   # do not change the buffer


def dealloc_calls(fn):
    """the storage releases of fn: [(call, pointer argument, count argument)] for alloc_.deallocate(p, n) and
    alloc_traits::deallocate(alloc_, p, n); a deallocate call of another shape is Undecidable"""
    out = []
    for x in ir.walk(fn.body):
        if "callee" not in x or x["callee"]["name"] != "deallocate":
            continue
        a = kids(x)
        if len(a) == 3 and match.this_field(a[0]) == "alloc_":
            out.append((x, a[1], a[2]))
        elif x.get("member_call") and a and self_obj(a[0]) is not None:
            continue                                     # RingBuffer::deallocate() itself: judged in its own body
        else:
            raise dtable.Undecidable("%s: deallocate call not understood: %s" % (fn.nloc(x), dtable.describe(x)))
    return out


def _this_call(n, nm):
    n = strip_casts(n)
    return bool(n is not None and "callee" in n and n["callee"]["name"] == nm and n.get("member_call") and kids(n) and self_obj(kids(n)[0]) is not None)


def empty_test(cond):
    """the truth value of `cond` under which the ring buffer holds no element, or None: empty(), begin_ == end_, size() == 0 and
    their negations / mirror images, size() as a condition"""
    c = strip_casts(cond)
    if c is None:
        return None
    if c["k"] == "UnaryOperator" and c.get("op") == "!" and kids(c):
        inner = empty_test(kids(c)[0])
        return None if inner is None else not inner
    if _this_call(c, "empty"):
        return True
    b = match.binop(c, ("==", "!=", ">", "<"))
    if b:
        op, l, r = b
        if op in ("==", "!=") and {match.this_field(l), match.this_field(r)} == {"begin_", "end_"}:
            return op == "=="
        if _this_call(l, "size") and const_int(r) == 0:
            return {"==": True, "!=": False, ">": False}.get(op)
        if _this_call(r, "size") and const_int(l) == 0:
            return {"==": True, "!=": False, "<": False}.get(op)
        return None
    if _this_call(c, "size"):
        return False
    return None


def drain_loops(fn):
    """loops that pop until the buffer is empty (clear() written out): while (!empty()) pop_front(); and the other spellings
    of the condition; -> [(loop, condition)]"""
    out = []
    for lp in ir.walk(fn.body):
        if lp["k"] not in ("WhileStmt", "ForStmt"):
            continue
        init, cond, inc, body = match.loop_parts(lp)
        if init is not None or inc is not None or cond is None:
            continue
        stmts = [s for s in (kids(body) if body is not None and body["k"] == "CompoundStmt" else [body]) if s is not None and s["k"] != "NullStmt"]
        if len(stmts) == 1 and (_this_call(stmts[0], "pop_front") or _this_call(stmts[0], "pop_back")) and empty_test(cond) is False:
            out.append((lp, cond))
    return out


def check_clear_before_free(ck, fn):
    g = cfgm.CFG(fn)
    defs = local_defs(fn)
    clears = this_calls(fn, ("clear",)) + [cond for _, cond in drain_loops(fn)]      # a drain loop has emptied the buffer when its condition fails
    pushes = this_calls(fn, ("push_back", "push_front", "emplace_back", "emplace_front"))

    def effect(n):
        if "callee" in n and n.get("member_call") and kids(n) and self_obj(kids(n)[0]) is not None:
            if n["callee"]["name"] == "clear":
                return "gen"
            if n["callee"]["name"] in ("push_back", "push_front", "emplace_back", "emplace_front", "load", "allocate") or \
                    (not n["callee"].get("const") and n["callee"]["name"] not in RB_OBSERVERS + ("pop_front", "pop_back", "deallocate", "move_to")):
                return "kill"
        return None
    # "no live element": after clear(), or on the edge of a test that found the buffer empty (if (!empty()) clear(); / a drain loop)
    emptied = MustFact(fn, g, lambda c, truth: empty_test(c) is not None and empty_test(c) == truth, effect)
    for d, parg, narg in dealloc_calls(fn):
        pd = P(g, d)
        ck.require(pd is not None, "%s: deallocate not in CFG" % fn.nloc(d))
        cp, cn = captured_field(fn, g, parg, defs, pd), captured_field(fn, g, narg, defs, pd)
        if cp is None or cn is None:
            raise dtable.Undecidable("%s: arguments of deallocate not understood: %s" % (fn.nloc(d), dtable.describe(d)))
        if cp[0] != "data_" or cn[0] != "capacity_":
            ck.violation("CLEAR-BEFORE-FREE", fn.qname, "dealloc-args", "deallocate is not called with (data_, capacity_): %s" % dtable.describe(d), fn.nloc(d))
            continue
        doms = [c for c in clears if P(g, c) and g.dominates(P(g, c), pd)]
        if not doms and emptied.before(d) is True:
            doms = [c for c in clears if P(g, c) and g.reachable(P(g, c), pd)]          # emptied on every path, by a clear() or by a test
        elif not doms:
            # absence only in a closed world: nothing that could destroy elements lies on a path to the release
            may = [c for c in clears if P(g, c) and g.reachable(P(g, c), pd)]
            may += [c for c in this_calls(fn, None) if c["callee"]["name"] not in RB_OBSERVERS + ("clear",) and not c["callee"].get("const")
                    and P(g, c) and g.reachable(P(g, c), pd)]
            may += [c for c in ir.walk(fn.body) if (match.call_named(c, ("destroy", "destroy_at", "destroy_n")) or c["k"] == "CXXPseudoDestructorExpr"
                                                   or ("callee" in c and c["callee"]["name"].startswith("~")))
                    and P(g, c) and g.reachable(P(g, c), pd)]
            if may:
                # a path to the release that passes none of them and no edge on which the buffer was found empty - and on which every
                # branch that decides whether one of them runs is an understood emptiness test - is a counterexample
                empty_edges = []
                for bid, blk in g.blocks.items():
                    cnd = fn.byid(blk["cond"]) if blk.get("cond") is not None else None
                    t_ = empty_test(cnd) if cnd is not None else None
                    if t_ is not None and len(blk.get("succ", [])) == 2 and blk["succ"][0 if t_ else 1] is not None:
                        empty_edges.append((bid, blk["succ"][0 if t_ else 1]))
                mpos = [P(g, c) for c in may]
                path = g.path_between_avoiding((g.entry, -1), pd, mpos, blocked_edges=empty_edges)
                understood = path is not None
                for b1, b2 in zip(path or [], (path or [])[1:]):
                    succ = [s for s in g.succ[b1] if s != b2]
                    if succ and {m[0] for m in mpos} & g.reach_blocks(succ):
                        cnd = fn.byid(g.blocks[b1]["cond"]) if g.blocks[b1].get("cond") is not None else None
                        if cnd is None or empty_test(cnd) is None:
                            understood = False
                if not understood:
                    raise dtable.Undecidable("%s: no clear() on every path to deallocate, but %s may destroy the elements: not understood"
                                             % (fn.nloc(d), dtable.describe(may[0])))
            ck.violation("CLEAR-BEFORE-FREE", fn.qname, "no-clear", "storage is released without destroying the live elements first (no clear() on every path to deallocate)", fn.nloc(d))
            continue
        bad = [p for p in pushes if P(g, p) and any(g.reachable(P(g, c), P(g, p)) for c in doms) and g.reachable(P(g, p), pd)]
        if bad and emptied.before(d) is not True:
            ck.violation("CLEAR-BEFORE-FREE", fn.qname, "push-between", "elements are inserted between clear() and deallocate", fn.nloc(bad[0]))
            continue
        # capacity_/data_ must still describe the block being released: a write that reaches the point where the argument
        # is read is stale, unless the block is re-allocated in between
        def assigns(fld):
            return [x for x in ir.walk(fn.body) if match.binop(x, ("=",)) and match.this_field(match.binop(x, ("=",))[1]) == fld and P(g, x)]
        real = []
        for x in assigns("data_"):
            if g.reachable(P(g, x), cp[1]) and not match.call_named(unwrap(match.binop(x, ("=",))[2]), ("allocate",)):
                real.append(x)
        for x in assigns("capacity_"):
            if not g.reachable(P(g, x), cn[1]):
                continue
            # fine if data_ is re-allocated after it and before the deallocate
            re_ = [y for y in assigns("data_") if match.call_named(unwrap(match.binop(y, ("=",))[2]), ("allocate",))
                   and g.dominates(P(g, x), P(g, y)) and g.dominates(P(g, y), pd)]
            if not re_:
                real.append(x)
        if real:
            ck.violation("CLEAR-BEFORE-FREE", fn.qname, "stale-capacity", "%s is overwritten before the old block is released with it"
                         % match.this_field(match.binop(real[0], ("=",))[1]), fn.nloc(real[0]))
            continue
        ck.ok("CLEAR-BEFORE-FREE", "%s @%s" % (fn.qname, fn.nloc(d)), "clear() dominates deallocate(data_, capacity_), no insertion between")


FIELDS_MOVED = ("max_size_", "capacity_", "mask_", "data_", "begin_", "end_")

# calls that only read what they are given (by value or const reference)
READ_ONLY_CALLS = ("deallocate", "allocate", "min", "max", "round_up_to_power_of_two", "create_array", "destroy_array", "construct", "destroy",
                   "construct_at", "destroy_at", "addressof", "__addressof", "fill", "fill_n", "copy", "copy_n", "move_n", "uninitialized_move",
                   "uninitialized_copy", "move", "move_backward", "copy_backward", "operator new", "operator delete", "operator==", "operator!=",
                   "size", "empty", "max_size", "capacity", "front", "back", "operator[]", "at", "data", "begin", "end", "cbegin", "cend")


def _bare_record(ty):
    """the class named by a (reference / pointer) type or a qualified record name, without template arguments and cv"""
    t = (ty or "").split("<")[0].replace("const ", "").replace("&", "").replace("*", "").strip()
    return t.split("::")[-1]


def branch_free(fn2):
    """the body is a straight line: every statement runs whenever the function is called"""
    return fn2 is not None and fn2.body is not None and not any(
        y["k"] in ("IfStmt", "ForStmt", "WhileStmt", "DoStmt", "SwitchStmt", "ConditionalOperator", "CXXForRangeStmt", "GotoStmt", "CXXTryStmt", "LambdaExpr",
                   "BinaryConditionalOperator") or (y["k"] == "BinaryOperator" and y.get("op") in ("&&", "||")) for y in fn2.nodes() if not is_assert_stmt(y))


class FieldOps:
    """what a function does to the fields of *this ("this") and of named objects (declaration id):
    .seq      ordered (who, field, value expression) of the assignments, constructor initialisers and std::exchange calls;
              ("swap", (target a, target b), (expression a, expression b)) for std::swap of two fields;
              std::tie(f, g) = p writes f and g (component i of p, a TupleGet node if p is not a written-out pair)
    .w        {(who, field): [value expressions]}
    .unknown  {(who, field)} touched by an operation of no known kind (compound assignment, passed to a call that may write it)
    .whole    {who} objects handed as a whole to a call that may change them (swap(rb), helper(rb), *this = ...)
    A straight-line member of the same class that is handed another object (swap(v), the constructor of a local:
    T tmp(std::move(v))) is followed: its operations appear in .seq with its parameters bound to the caller's objects."""

    def __init__(self, fn, me="this", depth=0):
        self.fn = fn
        self.me = me
        self.depth = depth
        self.seq, self.unknown, self.whole = [], set(), set()
        self.field_alias, self.obj_alias = {}, {}      # reference locals: T& f = obj.field;  /  Obj& o = obj;
        handled = set()                                # nodes whose effect was recorded by an enclosing node
        keeps = None
        for x in fn.nodes():
            if x["k"] == "VarDecl" and x.get("did") is not None and kids(x) and kids(x)[0] is not None and (x.get("ty") or "").rstrip().endswith("*"):
                # Obj* p = &obj; that keeps this value and is only used as p->field / *p: another name of obj
                a0 = unwrap(kids(x)[0])
                keeps = local_defs(fn) if keeps is None else keeps
                if a0 is not None and a0["k"] == "UnaryOperator" and a0.get("op") == "&" and kids(a0) and ref_of(kids(a0)[0]) is not None and x["did"] in keeps:
                    uses_ok = True
                    for y in fn.nodes():
                        if y["k"] == "DeclRefExpr" and y["ref"]["id"] == x["did"]:
                            par = fn.parent(y)
                            while par is not None and par["k"] in ("ImplicitCastExpr", "ParenExpr"):
                                par = fn.parent(par)
                            if not (par is not None and ((par["k"] == "MemberExpr" and par.get("arrow")) or (par["k"] == "UnaryOperator" and par.get("op") == "*"))):
                                uses_ok = False
                    if uses_ok:
                        d0 = ref_of(kids(a0)[0])
                        self.obj_alias[x["did"]] = self.obj_alias.get(d0, d0)
                        handled.add(a0["id"])
        for x in fn.nodes():
            if x["k"] == "VarDecl" and x.get("did") is not None and kids(x) and kids(x)[0] is not None and (x.get("ty") or "").rstrip().endswith("&"):
                t = self.target(kids(x)[0])
                if t:
                    self.field_alias[x["did"]] = t
                elif self_obj(kids(x)[0]) is not None:
                    self.obj_alias[x["did"]] = self.me
                elif ref_of(unwrap(kids(x)[0])) is not None:
                    d0 = ref_of(unwrap(kids(x)[0]))
                    self.obj_alias[x["did"]] = self.obj_alias.get(d0, d0)
            if x["k"] == "UnaryOperator" and x.get("op") == "&" and kids(x) and ref_of(kids(x)[0]) is not None and x["id"] not in handled:
                par = fn.parent(x)
                while par is not None and par["k"] in ("ImplicitCastExpr", "ParenExpr"):
                    par = fn.parent(par)
                if not (par is not None and par["k"] in ("BinaryOperator", "CXXOperatorCallExpr") and par.get("op") in ("==", "!=")):
                    self.whole.add(ref_of(kids(x)[0]))       # the object's address escapes
        for i in fn.inits:
            if i.get("field") and i.get("e") is not None:
                self.seq.append((self.me, i["field"], i["e"]))
            elif i.get("e") is not None and not i.get("field"):
                self.whole.add(self.me)                # delegating / base initialiser
        for x in fn.nodes():
            if x["id"] in handled:
                continue
            if x["k"] == "VarDecl" and x.get("did") is not None and kids(x) and kids(x)[0] is not None:
                if x["did"] not in self.field_alias and x["did"] not in self.obj_alias:
                    c = kids(x)[0]
                    while c is not None and c["k"] in ("ExprWithCleanups", "MaterializeTemporaryExpr", "CXXBindTemporaryExpr") and kids(c):
                        c = kids(c)[0]
                    if c is not None and c["k"] == "CXXConstructExpr" and self.follow(c, kids(c), x["did"]):
                        handled.add(c["id"])               # T tmp(std::move(v)): the constructor's effects on v and tmp are in .seq
                        continue
                    self.seq.append(("local", x["did"], kids(x)[0]))
                continue
            b = match.binop(x, ("=",))
            if b:
                t = self.target(b[1])
                tie = match.call_named(unwrap(b[1]), ("tie",)) if t is None else None
                if t:
                    rhs = b[2]
                    while match.binop(rhs, ("=",)):       # chained assignment: value is that of the innermost rhs
                        rhs = match.binop(rhs, ("=",))[2]
                    self.seq.append((t[0], t[1], rhs))
                elif tie is not None and tie["k"] == "CallExpr":
                    # std::tie(f, g) = p: component i of p goes to the i-th reference
                    rhs = unwrap(b[2])
                    parts = None
                    if rhs is not None and ((rhs["k"] in ("CallExpr", "CXXConstructExpr", "CXXTemporaryObjectExpr") and rhs["callee"]["name"] in ("make_pair", "make_tuple", "pair", "tuple"))
                                            or rhs["k"] == "InitListExpr") and len(kids(rhs)) == len(kids(tie)):
                        parts = kids(rhs)
                    for j, a_ in enumerate(kids(tie)):
                        tj = self.target(a_)
                        if tj:
                            self.seq.append((tj[0], tj[1], parts[j] if parts else
                                             {"k": "TupleGet", "idx": j, "id": -(x["id"] * 8 + j + 8), "ch": [b[2]], "l": x.get("l"), "f": x.get("f")}))
                    handled.add(tie["id"])
                elif self_obj(b[1]) is not None and strip_casts(b[1])["k"] != "This":
                    self.whole.add(self.me)            # *this = ...
                continue
            w = match.unop(x, ("++", "--")) or (match.binop(x, ASSIGN_OPS[1:]) if x["k"] in ("CompoundAssignOperator", "CXXOperatorCallExpr") else None)
            if w:
                t = self.target(w[1])
                if t:
                    self.unknown.add(t)
                continue
            if x["k"] in ("CXXConstructExpr", "CXXTemporaryObjectExpr"):
                # T tmp(std::move(obj)) / T(std::move(obj.f)): a move construction may empty what it is given
                for a in kids(x):
                    raw = match.strip_conv(a)
                    if raw is not None and raw["k"] == "CallExpr" and raw["callee"]["name"] in TRANSPARENT and raw["callee"]["name"] != "as_const":
                        t = self.target(raw)
                        if t:
                            self.unknown.add(t)
                        elif ref_of(unwrap(raw)) is not None:
                            d0 = ref_of(unwrap(raw))
                            self.whole.add(self.obj_alias.get(d0, d0))
                        elif self_obj(unwrap(raw)) is not None:
                            self.whole.add(self.me)
                continue
            if "callee" not in x or x["k"] not in ("CallExpr", "CXXMemberCallExpr", "CXXOperatorCallExpr"):
                continue
            nm = x["callee"]["name"]
            args = kids(x)
            if nm in TRANSPARENT and len(args) == 1:
                continue
            if nm == "exchange" and len(args) == 2:
                t = self.target(args[0])
                if t:
                    self.seq.append((t[0], t[1], args[1]))
                    continue
            if nm in ("swap", "iter_swap") and len(args) == 2 and not x.get("member_call"):
                ta, tb = self.target(args[0]), self.target(args[1])
                if ta and tb:
                    self.seq.append(("swap", (ta, tb), (args[0], args[1])))
                    continue
            if x["k"] == "CXXOperatorCallExpr" and x.get("op") in ("==", "!=", "<", ">", "<=", ">=", "[]", "*", "->"):
                continue
            cal = fn.tu.by_did.get(x["callee"].get("did")) if getattr(fn, "tu", None) is not None else None
            if x["k"] == "CXXMemberCallExpr" and args and len(args) > 1:
                who = self.me if self_obj(args[0]) is not None else self.obj_alias.get(ref_of(unwrap(args[0])), ref_of(unwrap(args[0])))
                if who is not None and self.follow(x, args[1:], who):
                    continue                           # swap(v) and the like: the member's effects are in .seq
            for j, a in enumerate(args):
                if a is None:
                    continue
                if x.get("member_call") and j == 0:
                    # the object of a member call
                    if x["callee"].get("const") or nm in READ_ONLY_CALLS:
                        continue
                    t = self.target(a)
                    if t:
                        if not (t == (self.me, "alloc_")):
                            self.unknown.add(t)
                    elif ref_of(unwrap(a)) is not None:
                        self.whole.add(self.obj_alias.get(ref_of(unwrap(a)), ref_of(unwrap(a))))
                    continue
                if nm in READ_ONLY_CALLS:
                    continue
                if cal is not None:
                    pj = j - (1 if x.get("member_call") else 0)
                    ty = (cal.params[pj].get("ty") or "").rstrip() if 0 <= pj < len(cal.params) else "&"
                    if not ty.endswith("&") and not ty.endswith("*"):
                        continue                       # by value
                    if ty.endswith("&") and not ty.endswith("&&") and ty.startswith("const "):
                        continue                       # const reference
                t = self.target(a)
                if t:
                    self.unknown.add(t)
                    continue
                a0 = unwrap(a)
                if a0 is not None and a0["k"] == "UnaryOperator" and a0.get("op") in ("&", "*") and kids(a0):
                    t = self.target(kids(a0)[0])
                    if t:
                        self.unknown.add(t)
                        continue
                    a0 = unwrap(kids(a0)[0])
                if a0 is not None and a0["k"] == "This":
                    self.whole.add(self.me)
                elif ref_of(a0) is not None:
                    self.whole.add(self.obj_alias.get(ref_of(a0), ref_of(a0)))
        self.w = {}
        for who, f, v in self.seq:
            if who == "swap":
                self.w.setdefault(f[0], []).append(v[1])
                self.w.setdefault(f[1], []).append(v[0])
            else:
                self.w.setdefault((who, f), []).append(v)

    def follow(self, call, actual, who):
        """a straight-line member / constructor of the class of fn, called on `who` with other objects of the class as
        arguments: its operations are appended to .seq, its object parameters named after the caller's objects.
        -> False if the call is not of that kind (the caller then treats it as an operation of unknown kind)"""
        fn = self.fn
        cal = fn.tu.by_did.get(call["callee"].get("did")) if getattr(fn, "tu", None) is not None else None
        actual = [a for a in actual if a is not None and a["k"] != "DefaultArg"]
        if cal is None or cal.body is None or self.depth >= 2 or cal.did == fn.did or cal.record != fn.record or cal.kind in ("dtor", "lambda") \
                or len(actual) != len(cal.params) or not actual or not branch_free(cal):
            return False
        binds, objs = {}, 0
        for p_, a in zip(cal.params, actual):
            ty = (p_.get("ty") or "").rstrip()
            if ty.endswith("&") or ty.endswith("*"):
                a0 = unwrap(a)
                if a0 is not None and a0["k"] == "UnaryOperator" and a0.get("op") == "&" and ty.endswith("*") and kids(a0):
                    a0 = unwrap(kids(a0)[0])
                if self_obj(a0) is not None and (a0["k"] != "This" or ty.endswith("*")):
                    binds[p_["did"]] = self.me
                elif ref_of(a0) is not None and _bare_record(ty) == _bare_record(fn.record):
                    binds[p_["did"]] = self.obj_alias.get(ref_of(a0), ref_of(a0))
                else:
                    return False
                objs += 1
            else:
                return False
        if not objs or any(q_["did"] in self.obj_alias for q_ in cal.params):
            return False                               # followed once only: a second call would need a second set of names
        sub = FieldOps(cal, me=who, depth=self.depth + 1)
        if any(d_ in sub.whole for d_ in binds) or who in sub.whole:
            return False
        self.obj_alias.update(binds)

        def ren(w_):
            return binds.get(w_, w_)
        for who_, f_, v_ in sub.seq:
            if who_ == "swap":
                self.seq.append(("swap", tuple((ren(t_[0]), t_[1]) for t_ in f_), v_))
            else:
                self.seq.append((ren(who_), f_, v_))
        self.unknown |= {(ren(w_), f_) for w_, f_ in sub.unknown}
        self.whole |= {ren(w_) for w_ in sub.whole}
        self.field_alias.update({d_: (ren(t_[0]), t_[1]) for d_, t_ in sub.field_alias.items()})
        self.obj_alias.update({d_: ren(o_) for d_, o_ in sub.obj_alias.items()})
        return True

    def target(self, e):
        """(who, field) of an lvalue that is a field of *this / of a named object, through reference locals"""
        e = unwrap(e)
        d = ref_of(e)
        if d is not None and d in self.field_alias:
            return self.field_alias[d]
        f = match.field_of(e)
        if not f:
            return None
        base = unwrap(f[0])
        if base is not None and base["k"] == "UnaryOperator" and base.get("op") == "*" and kids(base):
            base = unwrap(kids(base)[0])               # (*this).f
        if base is None:
            return None
        if base["k"] == "This":
            return (self.me, f[1])
        if base["k"] == "DeclRefExpr":
            return (self.obj_alias.get(base["ref"]["id"], base["ref"]["id"]), f[1])
        return None

    def opaque(self, who, field=None):
        """an operation of unknown kind may have written who.field"""
        return who in self.whole or (field is not None and (who, field) in self.unknown)

    def values(self, defs=None):
        """the straight-line value of every written field after the function, as a term:
        ("c", k) constant | ("null",) | ("init", who, field) value the field had on entry | ("?", n) not understood"""
        env = {}

        def term(e):
            e = unwrap(e)
            if e is None:
                return ("?", 0)
            if e["k"] == "CallExpr" and e["callee"]["name"] == "exchange" and len(kids(e)) == 2:
                return term(kids(e)[0])
            if e["k"] in ("NullPtr", "CXXNullPtrLiteralExpr", "GNUNullExpr"):
                return ("null",)
            k = const_int(e)
            if k is not None:
                return ("c", k)
            if e["k"] in ("InitListExpr", "CXXScalarValueInitExpr", "ImplicitValueInitExpr") and not kids(e):
                return ("c", 0)
            t = self.target(e)
            if t:
                return env.get(t, ("init",) + t)
            d = ref_of(e)
            if d is not None and defs and d in defs and ("local", d) in env:
                return env[("local", d)]                       # a local that keeps the value it got at its declaration
            return ("?", e["id"])
        # std::exchange(a, v) used as a value reads a before it writes it: handle the pair value-then-write in walk order
        for who, f, v in self.seq:
            if who == "swap":
                va, vb = env.get(f[0], ("init",) + f[0]), env.get(f[1], ("init",) + f[1])
                env[f[0]], env[f[1]] = vb, va
            else:
                env[(who, f)] = term(v)
        return env


def check_moved(ck, fn):
    rb = fn.params[0]["did"]
    ops = FieldOps(fn)
    w = ops.w
    defs = local_defs(fn)
    miss = [f for f in FIELDS_MOVED if ("this", f) not in w]
    if miss:
        if any(ops.opaque("this", f) or ops.opaque(rb, f) for f in miss):
            raise dtable.Undecidable("%s: %s not assigned, but handed to an operation that is not understood" % (fn.loc, miss))
        ck.violation("MOVED-EMPTY", fn.qname, "takes:" + ",".join(miss), "move does not take over %s from the source" % miss, fn.loc)
        return
    val = ops.values(defs)
    for f in FIELDS_MOVED:
        v = val[("this", f)]
        if v == ("init", rb, f):
            continue
        if v[0] == "?" or ops.opaque("this", f):
            raise dtable.Undecidable("%s: value given to %s in the move not understood: %s" % (fn.loc, f, dtable.describe(w[("this", f)][-1])))
        ck.violation("MOVED-EMPTY", fn.qname, "takes:" + f, "%s is not taken from the source's %s (%s)" % (f, f, dtable.describe(w[("this", f)][-1])), fn.loc)
        return
    # state the source is left in
    d = val.get((rb, "data_"))
    if d is None or d[0] == "?" or (d not in (("null",), ("c", 0)) and ops.opaque(rb, "data_")):
        if d is None and not ops.opaque(rb, "data_"):
            ck.violation("MOVED-EMPTY", fn.qname, "src-data", "moved-from buffer keeps its data_ pointer (double ownership)", fn.loc)
            return
        raise dtable.Undecidable("%s: what the move leaves in the source's data_ is not understood" % fn.loc)
    if d not in (("null",), ("c", 0)):
        ck.violation("MOVED-EMPTY", fn.qname, "src-data", "moved-from buffer keeps its data_ pointer (double ownership)", fn.loc)
        return
    bg, en = val.get((rb, "begin_"), ("init", rb, "begin_")), val.get((rb, "end_"), ("init", rb, "end_"))
    if bg != en:
        if bg[0] == "?" or en[0] == "?" or ops.opaque(rb, "begin_") or ops.opaque(rb, "end_"):
            raise dtable.Undecidable("%s: cursors the move leaves in the source are not understood" % fn.loc)
        ck.violation("MOVED-EMPTY", fn.qname, "src-cursors", "moved-from buffer is not left empty (begin_ == end_)", fn.loc)
        return
    if bg[0] == "?":
        raise dtable.Undecidable("%s: cursors the move leaves in the source are not understood" % fn.loc)
    ck.ok("MOVED-EMPTY", fn.full.split("::")[-1] + ("(move-ctor)" if fn.kind == "ctor" else "(move-assign)"),
          "takes all 6 fields; source: data_=nullptr, begin_==end_")


SRC_BASE = 500000        # address of the source's data_[0] in the evaluation of a copy
RB_MUTATORS = tuple(EXPECT)


def copy_label(v):
    if isinstance(v, tuple) and v and v[0] == "RB":
        return "rb[%d]" % v[1]
    if isinstance(v, tuple) and v and v[0] == "IDX":
        return "rb[%d] (beyond rb.size())" % v[1]
    if isinstance(v, tuple) and v and v[0] == "SLOT":
        return "storage slot %d of rb (%s), which holds no element of that position" % (v[1], v[2])
    if isinstance(v, tuple) and v and v[0] == "OLD":
        return "old element %d" % v[1]
    return "?"


def copy_run(fn, S, T, choice):
    """one evaluation of the copy constructor / copy assignment.  S = (mask, begin, n, data): the source holds n elements in a
    block of mask+1 slots, the first one at cursor `begin` (so the live range wraps for begin near the capacity); T describes
    *this the same way (its elements are the old ones), None for a constructor, whose member initialisers are evaluated.
    The six primitive mutators act on *this by their specification (SLOT-CURSOR establishes it), the accessors of the source
    by theirs (ACCESSOR-CONVENTION); a direct read of the source's storage is the element that lives in that slot, if any.
    Everything else is evaluated (ring_event: closed world).
    -> dict(verdict 'ok' | 'bad' | '?', seq, text, old, asked)"""
    rb = fn.params[0]["did"]
    m, b, n, sdata = S
    src = {"mask_": m, "capacity_": (m + 1) if sdata else 0, "begin_": b, "end_": (b + n) & m, "max_size_": m, "data_": sdata}
    live, notes, blocks = {}, [], {}
    fresh, asked = [0], [0]
    env = {}
    for k in range(n + 3):
        env[("elem", rb, k)] = ("RB", k) if k < n else ("IDX", k)          # rb[i] handed on by reference
    if T is not None:
        m0, b0, n0, d0 = T
        env.update({("field", "mask_"): m0, ("field", "capacity_"): (m0 + 1) if d0 else 0, ("field", "begin_"): b0, ("field", "end_"): (b0 + n0) & m0,
                    ("field", "max_size_"): m0, ("field", "data_"): d0})
        if d0:
            blocks[d0] = m0 + 1
        for k in range(n0):
            live[d0 + ((b0 + k) & m0)] = ("OLD", k)

    def is_src(o, sk):
        o = strip_casts(o)
        while o is not None and o["k"] == "ParenExpr" and kids(o):
            o = strip_casts(kids(o)[0])
        d = ref_of(o)
        return d is not None and sk.alias.get(d, d) == rb

    def src_slot(a, e):
        s_ = a - SRC_BASE
        if sdata and 0 <= s_ <= m and ((s_ - b) & m) < n:
            return ("RB", (s_ - b) & m)
        return ("SLOT", s_, "%s; the block has %d slots" % (dtable.describe(e)[:60] if e is not None else "read through a pointer", src["capacity_"]))

    def src_elem(i_):
        if isinstance(i_, bool) or not isinstance(i_, int):
            return None
        i_ = _umod(i_, "size_t")
        return ("RB", i_) if i_ < n else ("IDX", i_)

    def value(vals, sk):
        vals = [v for v in vals if v is not None and v["k"] != "DefaultArg"]
        return sk.ev(vals[0]) if len(vals) == 1 else None

    def make(a, v, sk, e):
        if a in live:
            notes.append("%s: constructs an element in a slot that still holds %s" % (sk.fn.nloc(e), copy_label(live[a])))
        live[a] = v

    def gone(a, sk, e):
        if a not in live:
            notes.append("%s: destroys a slot that holds no element" % sk.fn.nloc(e))
        live.pop(a, None)

    def cur(f, sk, e):
        v = sk.env.get(("field", f))
        if isinstance(v, bool) or not isinstance(v, int):
            raise dtable.Undecidable("%s: %s of *this cannot be evaluated where %s is called" % (sk.fn.nloc(e), f, e["callee"]["name"]))
        return v % M64

    ring = ring_event(lambda a, vals, sk, e: make(a, value(vals, sk), sk, e), gone)

    def not_in_source(what):
        def f(a, *rest):
            sk, e = rest[-2], rest[-1]
            raise dtable.Undecidable("%s: a member called on the source of the copy %s: not understood" % (sk.fn.nloc(e), what))
        return f
    ring_src = ring_event(not_in_source("constructs an element"), not_in_source("destroys an element"))
    closures, nest = {}, [0]

    def in_source(sk):
        return getattr(sk, "of_source", False)

    def by_value(p):
        ty = (p.get("ty") or "").rstrip()
        return not (ty.endswith("&") and not ty.endswith("&&") and "const" not in ty.split("<")[0])

    def enter_source(e, args, sk):
        """rb.f(...) for a const member f of the class with a body: the body is evaluated with the source as *this - its fields
        and its storage are those of S - in a skeleton of its own; arguments are handed over by value (a lambda as a closure of
        the calling skeleton).  Closed world: the event handler below refuses in this context everything that constructs,
        destroys, allocates or calls a mutator, and nothing of the source may have changed afterwards."""
        nm = e["callee"]["name"]
        cal = sk.tu.by_did.get(e["callee"].get("did")) if sk.tu is not None else None
        actual = [a for a in args[1:] if a is not None and a["k"] != "DefaultArg"]
        if cal is None or cal.body is None or cal.kind != "method" or not cal.d.get("const") or cal.record != fn.record or in_source(sk) \
                or nest[0] >= 4 or len(actual) != len(args) - 1 or len(actual) != len(cal.params) or not all(by_value(p) for p in cal.params):
            raise dtable.Undecidable("%s: call of %s on the source of the copy is not understood" % (sk.fn.nloc(e), nm))
        env2 = {("field", f_): v_ for f_, v_ in src.items()}
        if sdata:
            for k_ in range(m + 24):
                env2[("elem", ("field", "data_"), k_)] = src_slot(SRC_BASE + k_, None)
        before = dict(env2)
        for p, a in zip(cal.params, actual):
            env2[p["did"]] = sk.ev(a)
        sk2 = RangeSkel(cal, env2, None, event, mem_default=mem, max_iter=16, tu=sk.tu)
        sk2.of_source = True
        sk2.depth = sk.depth + 1
        sk2.unknown_cond = sk.unknown_cond
        nest[0] += 1
        ret = None
        try:
            sk2.run(kids(cal.body))
        except skel.Return as r_:
            ret = r_.v
        except skel.Diverges as d_:
            raise dtable.Undecidable("%s: loop over the source of the copy does not end for a source of %d elements (begin_=%d end_=%d mask_=%d)"
                                     % (cal.nloc(d_.loop), n, b, src["end_"], m))
        finally:
            nest[0] -= 1
        for k_, v_ in sk2.env.items():
            if isinstance(k_, tuple) and k_ and (k_[0] in ("field", "mem") or (k_[0] == "elem" and isinstance(k_[1], tuple))) and \
                    (k_ not in before or before[k_] != v_):
                raise dtable.Undecidable("%s: %s, called on the source of the copy, writes to the source (%s): not understood"
                                         % (sk.fn.nloc(e), nm, k_[1] if k_[0] == "field" else "storage"))
        return ret

    def make_closure(e, sk):
        """a lambda expression: the closure is run where it is called, in the skeleton that created it (`this` and the variables
        captured by reference are those of that skeleton; one captured by value must still hold the value it had here)"""
        lam = sk.tu.by_did.get(e.get("fn")) if sk.tu is not None else None
        if lam is None or lam.body is None or in_source(sk):
            raise dtable.Undecidable("%s: lambda expression is not understood" % sk.fn.nloc(e))
        held = {}
        for c in e.get("captures") or []:
            if c.get("byref"):
                continue
            d = c.get("id")
            key = sk.alias.get(d, d)
            if d is None or (key not in sk.env and d not in sk.alias):
                raise dtable.Undecidable("%s: lambda capture of %s by value is not understood" % (sk.fn.nloc(e), c.get("name")))
            held[d] = sk.load(key)
        closures[lam.did] = (sk, held)
        return ("closure", lam.did)

    def call_closure(c, e, args, sk):
        home, held = closures.get(c[1], (None, None))
        lam = sk.tu.by_did.get(c[1]) if sk.tu is not None else None
        actual = [a for a in args if a is not None and a["k"] != "DefaultArg"]
        if home is None or lam is None or e["callee"].get("did") != c[1] or nest[0] >= 4 or len(actual) != len(lam.params) or \
                not all(by_value(p) for p in lam.params) or any(home.load(home.alias.get(d, d)) != v for d, v in held.items()):
            raise dtable.Undecidable("%s: call of a lambda is not understood" % sk.fn.nloc(e))
        vals = [sk.ev(a) for a in actual]
        for p, v in zip(lam.params, vals):
            home.env[p["did"]] = v
        saved = home.fn, home.depth, dict(home.alias)
        home.fn, home.depth = lam, max(home.depth, sk.depth) + 1
        nest[0] += 1
        ret = None
        try:
            home.run(kids(lam.body))
        except skel.Return as r_:
            ret = r_.v
        finally:
            nest[0] -= 1
            home.fn, home.depth, home.alias = saved
        if any(home.load(home.alias.get(d, d)) != v for d, v in held.items()):
            raise dtable.Undecidable("%s: the lambda writes to a variable it captured by value: not understood" % sk.fn.nloc(e))
        return ret

    def event(e, sk):
        if is_assert_stmt(e):
            return None
        k = e["k"]
        if k == "LambdaExpr":
            return make_closure(e, sk)
        if k == "CXXOperatorCallExpr" and e.get("op") == "()" and kids(e):
            c = sk.ev(kids(e)[0])
            if isinstance(c, tuple) and len(c) == 2 and c[0] == "closure":
                return call_closure(c, e, kids(e)[1:], sk)
        if in_source(sk):
            return source_event(e, sk)
        if k == "MemberExpr" and kids(e) and is_src(kids(e)[0], sk):
            if e.get("member") in src:
                return src[e["member"]]
            if e.get("member") == "alloc_":
                return None
            raise dtable.Undecidable("%s: member %s of the source of the copy is not understood" % (sk.fn.nloc(e), e.get("member")))
        if k == "ArraySubscriptExpr" and not _has_update(e):
            a_, i_ = sk.ev(kids(e)[0]), sk.ev(kids(e)[1])
            if isinstance(a_, int) and isinstance(i_, int) and not isinstance(a_, bool) and not isinstance(i_, bool) and a_ >= SRC_BASE - 1000:
                return src_slot(a_ + _umod(i_, kids(e)[1].get("ty")), e)           # rb.data_[...]: the source's storage, read directly
            return NotImplemented
        if k in ("BinaryOperator", "CXXOperatorCallExpr") and e.get("op") in ("==", "!=") and len(kids(e)) == 2 and \
                any(strip_casts(x) is not None and strip_casts(x)["k"] == "This" for x in kids(e)):
            return e["op"] == "!="                     # this != &rb: the copy of another object is evaluated
        if "callee" in e:
            nm = e["callee"]["name"]
            args = kids(e)
            if nm in TRANSPARENT and len(args) == 1:
                return sk.ev(args[0])
            if k == "CXXOperatorCallExpr" and e.get("op") == "[]" and len(args) == 2 and is_src(args[0], sk):
                return src_elem(sk.ev(args[1]))
            if e.get("member_call") and args and is_src(args[0], sk):
                if nm == "size":
                    return n
                if nm == "empty":
                    return n == 0
                if nm == "max_size":
                    return src["max_size_"]
                if nm == "capacity":
                    return src["capacity_"]
                if nm in ("operator[]", "at") and len(args) == 2:
                    return src_elem(sk.ev(args[1]))
                if nm == "front" and len(args) == 1:
                    return src_elem(0)
                if nm == "back" and len(args) == 1:
                    return src_elem(n - 1) if n > 0 else ("IDX", -1)
                return enter_source(e, args, sk)
            if nm in ("allocate", "deallocate") and args and match.this_field(args[0]) == "alloc_" and len(args) == (2 if nm == "allocate" else 3):
                if nm == "allocate":
                    fresh[0] += 10000
                    blocks[fresh[0]] = sk.ev(args[1])
                    return fresh[0]
                blocks.pop(sk.ev(args[1]), None)
                sk.ev(args[2])
                return None
            if e.get("member_call") and args and self_obj(args[0]) is not None and nm in RB_MUTATORS:
                v = value(args[1:], sk) if nm not in ("pop_front", "pop_back") else None
                b_, e_, m_, d_ = cur("begin_", sk, e), cur("end_", sk, e), cur("mask_", sk, e), cur("data_", sk, e)
                if nm in ("push_back", "emplace_back"):
                    make(d_ + e_, v, sk, e)
                    sk.env[("field", "end_")] = (e_ + 1) & m_
                elif nm in ("push_front", "emplace_front"):
                    sk.env[("field", "begin_")] = (b_ - 1) & m_
                    make(d_ + ((b_ - 1) & m_), v, sk, e)
                elif nm == "pop_front":
                    gone(d_ + b_, sk, e)
                    sk.env[("field", "begin_")] = (b_ + 1) & m_
                else:
                    gone(d_ + ((e_ - 1) & m_), sk, e)
                    sk.env[("field", "end_")] = (e_ - 1) & m_
                return None
        return ring(e, sk)

    def source_event(e, sk):
        """inside a member that runs with the source as *this: reads of its fields and slots, arithmetic, its const members
        (entered by the skeleton) and calls of closures are evaluated; everything that could change an object is refused"""
        k = e["k"]
        if k == "ArraySubscriptExpr" and not _has_update(e):
            a_, i_ = sk.ev(kids(e)[0]), sk.ev(kids(e)[1])
            if isinstance(a_, int) and isinstance(i_, int) and not isinstance(a_, bool) and not isinstance(i_, bool) and a_ >= SRC_BASE - 1000:
                return src_slot(a_ + _umod(i_, kids(e)[1].get("ty")), e)
            return NotImplemented
        if k in ("BinaryOperator", "CXXOperatorCallExpr") and e.get("op") in ("==", "!=") and len(kids(e)) == 2 and \
                any(strip_casts(x) is not None and strip_casts(x)["k"] == "This" for x in kids(e)):
            raise dtable.Undecidable("%s: comparison of the address of the source of the copy is not understood" % sk.fn.nloc(e))
        if "callee" in e:
            nm = e["callee"]["name"]
            args = kids(e)
            if nm in TRANSPARENT and len(args) == 1:
                return sk.ev(args[0])
            if nm in ("allocate", "deallocate"):
                raise dtable.Undecidable("%s: a member called on the source of the copy calls %s: not understood" % (sk.fn.nloc(e), nm))
            if e.get("member_call") and args and self_obj(args[0]) is not None:
                cal = sk.tu.by_did.get(e["callee"].get("did")) if sk.tu is not None else None
                if nm in RB_MUTATORS or cal is None or not cal.d.get("const"):
                    raise dtable.Undecidable("%s: a member called on the source of the copy calls %s, which is not a const member: not understood"
                                             % (sk.fn.nloc(e), nm))
        return ring_src(e, sk)

    def mem(a):
        return src_slot(a, None) if a >= SRC_BASE - 1000 else live.get(a)
    sk = RangeSkel(fn, env, None, event, mem_default=mem, max_iter=16)

    def cond(c, sk_):
        asked[0] += 1
        return choice
    sk.unknown_cond = cond
    try:
        if fn.kind == "ctor":
            for i in fn.inits:
                x = i.get("e")
                if not i.get("field"):
                    if x is not None:
                        raise dtable.Undecidable("%s: the copy constructor delegates to another constructor: not evaluated" % fn.loc)
                    continue
                if x is not None and x["k"] == "CXXDefaultInitExpr":
                    x = kids(x)[0] if kids(x) else None
                sk.env[("field", i["field"])] = sk.ev(x) if x is not None else None
        sk.run(kids(fn.body))
    except skel.Return:
        pass
    except skel.Diverges as d_:
        raise dtable.Undecidable("%s: loop of the copy does not end for a source of %d elements" % (fn.nloc(d_.loop), n))
    except skel.TooLong as t_:
        # a loop is still running after 16 rounds (the source has at most 3 elements): nothing is concluded from that alone,
        # but an element already constructed from storage of the source that holds no element is a counterexample by itself
        junk = [v for v in live.values() if isinstance(v, tuple) and v and v[0] in ("SLOT", "IDX")]
        if not junk:
            raise
        return dict(asked=asked[0], seq=[], old=False, verdict="bad",
                    text="an element of the copy is constructed from %s (the loop at line %s is still running after %d rounds)"
                         % (copy_label(junk[0]), (t_.loop or {}).get("l", "?"), sk.MAX_ITER))
    f = {k: sk.env.get(("field", k)) for k in ("begin_", "end_", "mask_", "data_")}
    res = dict(asked=asked[0], seq=[], text="", old=False, verdict="?")
    if any(isinstance(v, bool) or not isinstance(v, int) for v in f.values()):
        res["text"] = "begin_/end_/mask_/data_ of the copy cannot be evaluated"
        return res
    nb, ne, nm_, nd = (f[k] % M64 for k in ("begin_", "end_", "mask_", "data_"))
    size = (ne - nb) & nm_
    if size > 64:
        res["text"] = "size of the copy cannot be evaluated"
        return res
    slots = [nd + ((nb + k) & nm_) for k in range(size)]
    seq = [live.get(a_) for a_ in slots]
    stray = sorted((a_, v) for a_, v in live.items() if a_ not in slots)
    res["seq"] = seq
    res["old"] = any(isinstance(v, tuple) and v and v[0] == "OLD" for v in list(live.values()))
    labelled = all(isinstance(v, tuple) and v and v[0] in ("RB", "IDX", "SLOT", "OLD") for v in list(live.values())) and \
        all(a_ in live for a_ in slots)
    outside = [a_ for a_ in slots if not any(isinstance(c_, int) and b0_ <= a_ < b0_ + c_ for b0_, c_ in blocks.items())]
    if any(not isinstance(c_, int) or isinstance(c_, bool) for c_ in blocks.values()):
        res["text"] = "size of an allocated block cannot be evaluated"
        return res
    if seq == [("RB", i) for i in range(n)] and not stray and not notes and not outside:
        res["verdict"] = "ok"
        return res
    if not labelled and not res["old"] and not notes:
        res["text"] = "the value of an element of the copy cannot be evaluated"
        return res
    res["verdict"] = "bad"
    parts = []
    if seq != [("RB", i) for i in range(n)]:
        parts.append("the copy holds [%s]" % ", ".join(copy_label(v) if v is not None else "a slot that was never constructed" for v in seq))
    if stray:
        parts.append("outside its live range [begin_=%d, end_=%d) it keeps constructed: %s" % (nb, ne, ", ".join(copy_label(v) for _, v in stray)))
    if outside:
        parts.append("its live range covers %d slot(s) outside the allocated block" % len(outside))
    parts.extend(notes[:2])
    res["text"] = "; ".join(parts)
    return res


def check_copy_loop(ck, fn, tu=None):
    """COPY-ELEMENTS: the copy constructor / copy assignment is evaluated for sources of 0..3 elements at every cursor
    position of small blocks (so also for live ranges that wrap around the end of the block), the assignment on targets that
    hold old elements in a block of the same and of another capacity, with both outcomes of every branch on data: afterwards
    the live range of *this must hold rb[0] ... rb[n-1] in this order, nothing else may be left constructed (the old elements
    are destroyed), and the live range lies in the allocated block."""
    sources = [(0, 0, 0, 0)]                              # a buffer without storage
    for m in (1, 3, 7):
        for b in range(m + 1):
            for n in range(min(m, 3) + 1):
                sources.append((m, b, n, SRC_BASE))
    targets = [None] if fn.kind == "ctor" else [(0, 0, 0, 0), (3, 3, 2, BASE), (7, 6, 3, BASE)]
    definite = unclear = None
    for S in sources:
        for T in targets:
            outs = []
            for choice in (True, False):
                r = copy_run(fn, S, T, choice)
                outs.append(r)
                if not r["asked"]:
                    break
            if all(r["verdict"] == "bad" for r in outs) and definite is None:
                definite = (S, T, outs[0])
            for r in outs:
                if r["verdict"] != "ok" and unclear is None:
                    unclear = (S, T, r)
    if definite:
        S, T, r = definite
        state = "a source of %d elements (begin_=%d end_=%d mask_=%d)" % (S[2], S[1], (S[1] + S[2]) & S[0], S[0])
        if T is not None:
            state += " assigned to a buffer of %d elements (begin_=%d mask_=%d)" % (T[2], T[1], T[0])
        if r["old"]:
            ck.violation("COPY-ELEMENTS", fn.qname, "reset-before-clear", "old elements are not destroyed before the cursors are reset / the block is replaced: for %s %s"
                         % (state, r["text"]), fn.loc)
        else:
            ck.violation("COPY-ELEMENTS", fn.qname, "loop", "copy does not reproduce rb[i] for every i in [0, rb.size()): for %s %s" % (state, r["text"]), fn.loc)
        return
    if unclear:
        S, T, r = unclear
        raise dtable.Undecidable("%s: what the copy holds for a source of %d elements (begin_=%d mask_=%d) depends on a branch or a value that is not understood%s"
                                 % (fn.loc, S[2], S[1], S[0], (": " + r["text"]) if r["text"] else ""))
    ck.ok("COPY-ELEMENTS", fn.qname + ("(copy-ctor)" if fn.kind == "ctor" else "(copy-assign)"),
          "live range holds rb[0..n) in order, old elements destroyed: sources of 0..3 elements at every cursor position of blocks with 2, 4, 8 slots")


RB_NO_RESET = tuple(EXPECT) + RB_OBSERVERS + ("clear", "deallocate")      # members of *this that do not re-establish cursors for a new capacity


def check_cursor_reset(ck, fn):
    """a function that installs a new mask_ (capacity change) must also re-establish both cursors:
    cursors left over from the old capacity may lie outside the new block"""
    ops = FieldOps(fn)
    if ("this", "mask_") not in ops.w or fn.kind == "ctor":
        return
    val = ops.values(local_defs(fn))
    src = val[("this", "mask_")]
    from_obj = src[1] if src[0] == "init" and src[2] == "mask_" and src[1] != "this" else None
    missing, unclear = [], []
    for c in ("begin_", "end_"):
        v = val.get(("this", c))
        if v is None:
            other = [x for x in this_calls(fn, None) if x["callee"]["name"] not in RB_NO_RESET and not x["callee"].get("const")]
            if ops.opaque("this", c) or other:
                unclear.append(c)
            else:
                missing.append(c)
        elif v == ("c", 0) or (from_obj is not None and v == ("init", from_obj, c)):
            pass
        elif v[0] == "?" or ops.opaque("this", c):
            unclear.append(c)
        else:
            missing.append(c)
    if missing:
        ck.violation("CURSOR-RESET", fn.qname, "mask-without:" + ",".join(missing),
                     "%s installs a new mask_/capacity but keeps the old %s: a cursor beyond the new capacity indexes outside the block"
                     % (fn.name, " and ".join(missing)), fn.loc)
    elif unclear:
        raise dtable.Undecidable("%s: %s installs a new mask_; what it does to %s is not understood" % (fn.loc, fn.name, " and ".join(unclear)))
    else:
        ck.ok("CURSOR-RESET", "%s(%s)" % (fn.qname, ",".join(p["ty"] for p in fn.params)), "new mask_ comes with begin_/end_ re-established")


def sv_block_cex(fn):
    """evaluates a SimpleVector member on its skeleton for every old size and every integer argument in 0..3 (with a block of
    that size in array_, and without a block for size 0): afterwards size_ must be the number of elements of the block in
    array_ (0 for nullptr).  -> None if that holds everywhere, else (old size_, ((parameter, value), ...), size_, elements of
    the block); Undecidable if a value cannot be evaluated"""
    import itertools
    ints = [p_ for p_ in fn.params if not (p_.get("ty") or "").rstrip().endswith(("&", "*")) and any(t_ in (p_.get("ty") or "") for t_ in ("long", "int", "size_t", "short"))]
    if len(ints) != len(fn.params) or len(ints) > 2:
        raise dtable.Undecidable("%s: parameters of %s are not evaluated" % (fn.loc, fn.name))
    for s0, a0 in [(0, 0)] + [(k_, BASE) for k_ in range(4)]:
        for vals in itertools.product(range(4), repeat=len(ints)):
            blocks = {BASE: s0} if a0 else {}
            fresh = [5000]

            def event(e, sk):
                c_ = match.call_named(e, ("create_array",))
                if c_ is not None and e is strip_casts(e) and kids(c_):
                    fresh[0] += 1000
                    blocks[fresh[0]] = sk.ev(kids(c_)[-1])
                    return fresh[0]
                if e["k"] in ("NullPtr", "CXXNullPtrLiteralExpr", "GNUNullExpr"):
                    return 0
                return NotImplemented
            env = {("field", "array_"): a0, ("field", "size_"): s0}
            env.update({p_["did"]: v_ for p_, v_ in zip(ints, vals)})
            sk = skel.Skel(fn, env, None, event, max_iter=16)
            try:
                sk.run(kids(fn.body))
            except skel.Return:
                pass
            except skel.Diverges as d_:
                raise dtable.Undecidable("%s: loop does not end in the evaluation" % fn.nloc(d_.loop))
            a_, z_ = sk.env.get(("field", "array_")), sk.env.get(("field", "size_"))
            have = 0 if a_ == 0 else blocks.get(a_) if isinstance(a_, int) and not isinstance(a_, bool) else None
            if isinstance(z_, bool) or not isinstance(z_, int) or isinstance(have, bool) or not isinstance(have, int):
                raise dtable.Undecidable("%s: size_ / the block left in array_ cannot be evaluated" % fn.loc)
            if z_ % M64 != have % M64:
                return (s0, tuple((p_["name"], v_) for p_, v_ in zip(ints, vals)), z_ % M64, have % M64)
    return None


def check_sv_coupled(ck, fn):
    """size_ and array_ describe one block: every write to one is accompanied on the same paths by a write of the other,
    with agreeing values (create_array(X) <-> X, nullptr <-> 0, both from the same source object)"""
    if fn.kind == "ctor":
        return
    g = cfgm.CFG(fn)
    ops = FieldOps(fn)
    writes = {"size_": [], "array_": []}
    for x in ir.walk(fn.body):
        b = match.binop(x, ("=",))
        if b:
            t = ops.target(b[1])
            if t and t[1] in writes:
                rhs = b[2]
                while match.binop(rhs, ("=",)):
                    rhs = match.binop(rhs, ("=",))[2]
                writes[t[1]].append((x, t[0], rhs))
        c = match.call_named(x, ("exchange",))
        if c and len(kids(c)) == 2:
            t = ops.target(kids(c)[0])
            if t and t[1] in writes:
                writes[t[1]].append((x, t[0], kids(c)[1]))
        c = match.call_named(x, ("swap", "iter_swap"))
        if c and len(kids(c)) == 2:
            fa, fb = ops.target(kids(c)[0]), ops.target(kids(c)[1])
            if fa and fb and fa[1] == fb[1] and fa[1] in writes:
                writes[fa[1]].append((x, "swap", None))
    if not writes["size_"] and not writes["array_"]:
        def changes(c):
            cal = fn.tu.by_did.get(c["callee"].get("did"))
            if c["callee"].get("const") or cal is None or cal.body is None or cal.record != fn.record or cal.kind != "method":
                return False
            sub = FieldOps(cal)
            return any(k_[1] in ("size_", "array_") for k_ in list(sub.w) + list(sub.unknown) if isinstance(k_, tuple) and len(k_) == 2)
        via = [c for c in ir.walk(fn.body) if "callee" in c and c.get("member_call") and any(self_obj(a_) is not None for a_ in kids(c)) and changes(c)]
        if via and not ops.unknown & {("this", "size_"), ("this", "array_")}:
            # no write of its own: size_/array_ change only inside other members, each of which is judged here on its own
            ck.ok("SV-COUPLED", "%s %s/%d" % (fn.qname, fn.kind, len(fn.params)), "size_/array_ are changed only through %s"
                  % ", ".join(sorted({c["callee"]["name"] for c in via})))
        return
    okall = True
    for a, b in (("size_", "array_"), ("array_", "size_")):
        for (x, who, rhs) in writes[a]:
            px = P(g, x)
            if px is None:
                raise dtable.Undecidable("%s: write of %s has no place in the CFG" % (fn.nloc(x), a))
            mates = [(y, w2, r2) for (y, w2, r2) in writes[b] if w2 == who and P(g, y)]
            mpos = [P(g, y) for (y, _, _) in mates if P(g, y) != px]
            same = [m for m in mates if P(g, m[0]) == px]
            # a path through this write on which the other field is never written
            lonely = not same and g.path_between_avoiding((g.entry, -1), px, mpos) is not None and g.path_avoiding(px, mpos) is not None
            if lonely:
                others = [w2 for (_, w2, _) in writes[b] if w2 != who]
                if who == "swap":
                    unclear = bool(others) or any(k[1] == b for k in ops.unknown)
                else:
                    unclear = ops.opaque(who, b) or "swap" in others
                if unclear:
                    raise dtable.Undecidable("%s: %s is written; whether %s changes with it is not understood" % (fn.nloc(x), a, b))
                ck.violation("SV-COUPLED", fn.qname, "%s-without-%s" % (a, b),
                             "%s is changed on a path that does not change %s: the stored element count and the live block disagree "
                             "(elements stay constructed although no longer stored, or vice versa)" % (a, b), fn.nloc(x))
                okall = False
                continue
            if a == "size_" and who != "swap":
                # the value of array_ that is in force with this size_: the write that dominates / post-dominates it
                near = [m for m in mates if P(g, m[0]) == px or g.dominates(P(g, m[0]), px) or g.postdominates(P(g, m[0]), px)]
                if not near:
                    continue                       # several writes of array_ on different branches: each is judged from its own side
                y, _, r2 = near[-1]
                r2u, rhsu = unwrap(r2), unwrap(rhs)
                ca = match.call_named(r2u, ("create_array",))
                if ca is not None:
                    arg = unwrap(kids(ca)[-1])
                    if match.same_expr(arg, rhsu):
                        continue
                    if match.this_field(arg) == "size_" and P(g, y) and g.dominates(px, P(g, y)) and \
                            not any(z is not x and w_ == who and P(g, z) and g.reachable(px, P(g, z)) and g.reachable(P(g, z), P(g, y)) for (z, w_, _) in writes["size_"]):
                        continue                       # the block is created with the size_ just stored
                    # not the same expression: evaluate the function for old sizes / integer arguments 0..3 and compare the size_
                    # it leaves with the number of elements of the block it leaves in array_
                    try:
                        cex = sv_block_cex(fn)
                    except dtable.Undecidable:
                        cex = False
                    if cex is None:
                        continue
                    if cex:
                        ck.violation("SV-COUPLED", fn.qname, "size-vs-create", "size_ = %s but the block is created with %s elements: for size_=%d%s the function "
                                     "leaves size_=%d with a block of %d elements" % (dtable.describe(rhs), dtable.describe(kids(ca)[-1]), cex[0],
                                                                                     "".join(" %s=%d" % kv for kv in cex[1]), cex[2], cex[3]), fn.nloc(x))
                        okall = False
                        continue

                    # both linear in one by-value parameter that is never written (or constant): they differ for some call unless a
                    # branch condition on the way relates them
                    written = {ref_of(w_[1]) for z in ir.walk(fn.body) for w_ in [match.unop(z, ("++", "--")) or match.binop(z, ASSIGN_OPS)] if w_} - {None}

                    def plain_leaf(l_):
                        if l_ is None:
                            return True
                        d_ = ref_of(l_)
                        return d_ is not None and fn.param_index(d_) is not None and d_ not in written and \
                            (fn.params[fn.param_index(d_)].get("ty") or "").rstrip()[-1:] not in ("&", "*")
                    la, lr = linear_in_one(arg), linear_in_one(rhsu)
                    if la is not None and lr is not None and plain_leaf(la[0]) and plain_leaf(lr[0]):
                        if (ref_of(la[0]) if la[0] is not None else None, la[1]) == (ref_of(lr[0]) if lr[0] is not None else None, lr[1]):
                            continue
                        leaves = {ref_of(l_) for l_ in (la[0], lr[0]) if l_ is not None}
                        guarded = False
                        for site in (x, y):
                            par = fn.parent(site)
                            while par is not None:
                                if par["k"] in ("IfStmt", "WhileStmt", "ForStmt", "DoStmt", "ConditionalOperator", "SwitchStmt", "CaseStmt"):
                                    cnd = match.loop_parts(par)[1] if par["k"] in ("WhileStmt", "ForStmt", "DoStmt") else (kids(par)[0] if kids(par) else None)
                                    if any(ref_of(z) in leaves for z in ir.walk(cnd)):
                                        guarded = True
                                par = fn.parent(par)
                        returns_before = any(z["k"] == "ReturnStmt" for z in ir.walk(fn.body))      # an early return guards what follows it
                        if not guarded and not returns_before:
                            ck.violation("SV-COUPLED", fn.qname, "size-vs-create", "size_ = %s but the block is created with %s elements"
                                         % (dtable.describe(rhs), dtable.describe(kids(ca)[-1])), fn.nloc(x))
                            okall = False
                            continue
                    raise dtable.Undecidable("%s: size_ = %s and create_array(%s): whether they agree is not understood"
                                             % (fn.nloc(x), dtable.describe(rhs), dtable.describe(kids(ca)[-1])))
                elif is_null(r2u):
                    if const_int(rhsu) is None:
                        raise dtable.Undecidable("%s: array_ = nullptr with size_ = %s: value not understood" % (fn.nloc(x), dtable.describe(rhs)))
                    if const_int(rhsu) != 0:
                        ck.violation("SV-COUPLED", fn.qname, "null-vs-size", "array_ = nullptr but size_ = %s" % dtable.describe(rhs), fn.nloc(x))
                        okall = False
    if okall:
        ck.ok("SV-COUPLED", "%s %s/%d" % (fn.qname, fn.kind, len(fn.params)), "%d size_ / %d array_ writes paired on all paths with agreeing values"
              % (len(writes["size_"]), len(writes["array_"])))


# ------------------------------------------------------------------ SimpleVector
def sv_mode(fn):
    m = fn.rtargs[1] if len(fn.rtargs) > 1 else ""
    return m.split("::")[-1]


def reached_in_switch(fn):
    """the nodes executed in this instantiation: branches whose condition is a compile-time constant (switch (Mode),
    if (Mode == ...), if constexpr) contribute only the side that is taken"""
    out = []

    class Done(Exception):
        pass

    def run(s):
        if s is None:
            return
        k = s["k"]
        if k == "CompoundStmt":
            for c in kids(s):
                run(c)
            return
        if k == "IfStmt":
            c = const_int(kids(s)[0])
            if c is None:
                out.extend(ir.walk(kids(s)[0]))
                for br in kids(s)[1:]:
                    try:
                        run(br)
                    except Done:
                        pass
                return
            run(kids(s)[1] if c else (kids(s)[2] if len(kids(s)) > 2 else None))
            return
        if k == "SwitchStmt":
            c = const_int(kids(s)[0])
            if c is None:
                raise dtable.Undecidable("%s: switch condition is not a compile-time constant" % fn.loc)
            from rules.c15 import flatten_switch
            flat = flatten_switch(kids(s)[1])
            pos = [i for i, e in enumerate(flat) if e[0] == "case" and e[1] == c] or [i for i, e in enumerate(flat) if e[0] == "default"]
            if pos:
                for e in flat[pos[0]:]:
                    if e[0] != "stmt":
                        continue
                    if e[1]["k"] == "BreakStmt":
                        return
                    run(e[1])
            return
        if k in ("ReturnStmt",):
            out.extend(ir.walk(s))
            raise Done()
        if k in ("ForStmt", "WhileStmt", "DoStmt"):
            out.append(s)
            init, cond, inc, body = match.loop_parts(s)
            for part in (init, cond, inc):
                if part is not None:
                    out.extend(ir.walk(part))
            try:
                run(body)
            except Done:
                pass
            return
        out.extend(ir.walk(s))
    try:
        run(fn.body)
    except Done:
        pass
    return out


def sv_entry(fs):
    """of the instantiated functions of one name and mode, those the other members call: not called by one of the others
    (a function that only forwards to an overload of the same name is the entry, the overload is followed from it)"""
    called = {x["callee"].get("did") for f in fs for x in f.nodes() if "callee" in x}
    return [f for f in fs if f.did not in called]


def reached_closure(fn, tu):
    """reached_in_switch(fn) together with the nodes reached in the members of the same class (same instantiation) it calls -
    an overload selected by a tag argument, a private helper: -> (nodes, functions followed, python ids of the followed calls).
    A call of anything else is left as it is: a node of unknown kind for the caller."""
    nodes, fns, followed = [], [], set()
    todo, seen = [fn], {fn.did}
    while todo:
        f = todo.pop(0)
        fns.append(f)
        r = reached_in_switch(f)
        nodes.extend(r)
        for x in r:
            if "callee" in x and x["k"] in ("CallExpr", "CXXMemberCallExpr"):
                cal = tu.by_did.get(x["callee"].get("did"))
                if cal is not None and cal.body is not None and cal.kind == "method" and cal.record == fn.record and cal.rtargs == fn.rtargs:
                    followed.add(id(x))
                    if cal.did not in seen:
                        seen.add(cal.did)
                        todo.append(cal)
    return nodes, fns, followed


def check_sv_modes(ck, tu):
    for mode in ("Normal", "NoInitButDestroy", "NoInitNoDestroy"):
        # the function the other members call: overloads / helpers of the same name it forwards to (tag dispatch on the mode)
        # are followed from it, see reached_closure
        cr = sv_entry([f for f in tu.find(name="create_array", record=SV) if sv_mode(f) == mode])
        de = sv_entry([f for f in tu.find(name="destroy_array", record=SV) if sv_mode(f) == mode])
        ck.require(len(cr) == 1 and len(de) == 1, "SimpleVector<%s>: create/destroy_array not instantiated" % mode)
        cr, de = cr[0], de[0]
        ptr_size = len(de.params) == 2 and (de.params[0].get("ty") or "").rstrip().endswith("*") and \
            not (de.params[1].get("ty") or "").rstrip().endswith(("*", "&"))
        if not ptr_size:
            raise dtable.Undecidable("%s: SimpleVector<%s>: destroy_array is not called with (block, size): not understood" % (de.loc, mode))
        alloc = set()
        reached_cr, fns_cr, followed_cr = reached_closure(cr, tu)
        reached_de, fns_de, _ = reached_closure(de, tu)
        for s in reached_cr:
            for x in [s]:
                if x["k"] == "CXXNewExpr":
                    alloc.add("new[]" if x.get("array") else "new")
                elif "callee" in x and x["callee"]["name"] == "operator new":
                    alloc.add("operator new")
        free = set()
        dtor_loop = False
        for s in reached_de:
            for x in [s]:
                if x["k"] == "CXXDeleteExpr":
                    free.add("delete[]" if x.get("array") else "delete")
                elif "callee" in x and x["callee"]["name"] == "operator delete":
                    free.add("operator delete")
        # which elements get their destructor run explicitly: destroy_array(array, n) evaluated for n = 0..3
        cover = []
        opaque = []            # calls of unknown kind that receive the block (they may run destructors)
        def holds_block(y, sk):
            """y names the block: the first parameter, or a variable whose value is an address in it"""
            d_ = ref_of(unwrap(y)) if y is not None and y["k"] in ("DeclRefExpr", "ImplicitCastExpr") else None
            if d_ is None:
                return False
            v_ = sk.load(sk.alias.get(d_, d_))
            return d_ == de.params[0]["did"] or (isinstance(v_, int) and not isinstance(v_, bool) and BASE <= v_ <= BASE + 16)
        for n_ in range(4):
            hit = []

            def event(e, sk):
                is_dtor = ("callee" in e and e["callee"]["name"].startswith("~")) or e["k"] == "CXXPseudoDestructorExpr"
                if is_dtor and kids(e):
                    obj = kids(e)[0]
                    if obj["k"] == "MemberExpr" and kids(obj):
                        obj = kids(obj)[0] if not obj.get("arrow") else {"k": "UnaryOperator", "op": "*", "id": -41, "ch": [kids(obj)[0]]}
                    if e.get("arrow") and e["k"] == "CXXPseudoDestructorExpr":
                        obj = {"k": "UnaryOperator", "op": "*", "id": -42, "ch": [obj]}
                    key = sk.lvalue(obj)
                    if not (isinstance(key, tuple) and key[0] == "mem"):
                        a_ = sk.ev(obj)
                        key = ("mem", a_) if isinstance(a_, int) else None
                    hit.append(key[1] if key else None)
                    return None
                if "callee" in e and e["callee"]["name"] in ("destroy", "destroy_n", "destroy_at") and "std" in (e["callee"].get("qname") or ""):
                    a_ = [sk.ev(x) for x in kids(e)]
                    if e["callee"]["name"] == "destroy" and len(a_) == 2 and all(isinstance(x, int) for x in a_):
                        hit.extend(range(a_[0], a_[1]))
                    elif e["callee"]["name"] == "destroy_n" and len(a_) == 2 and all(isinstance(x, int) for x in a_):
                        hit.extend(range(a_[0], a_[0] + a_[1]))
                    elif e["callee"]["name"] == "destroy_at" and isinstance(a_[0], int):
                        hit.append(a_[0])
                    else:
                        hit.append(None)
                    return None
                if "callee" in e and e["callee"]["name"] not in ("operator delete", "operator delete[]", "free", "abort") + TRANSPARENT \
                        and e["k"] in ("CallExpr", "CXXMemberCallExpr", "CXXOperatorCallExpr"):
                    if any(holds_block(y, sk) for a_ in kids(e) if a_ is not None for y in ir.walk(a_)):
                        if e["k"] != "CXXOperatorCallExpr":
                            # a function of the project whose body the skeleton enters (an overload chosen by a mode tag, a
                            # helper): evaluated like the statements written here, its own calls are judged by this handler
                            r_ = sk.inline(e, [a_ for a_ in kids(e) if a_ is not None and a_["k"] != "DefaultArg"])
                            if r_ is not NotImplemented:
                                return r_
                        opaque.append(e)
                if e["k"] == "LambdaExpr":
                    opaque.append(e)
                if e["k"] in ("NullPtr", "CXXNullPtrLiteralExpr", "GNUNullExpr"):
                    return 0
                return NotImplemented
            sk = skel.Skel(de, {de.params[0]["did"]: BASE, de.params[1]["did"]: n_}, None, event, max_iter=16)
            try:
                sk.run(kids(de.body))
            except skel.Return:
                pass
            cover.append((n_, hit))
        if any(None in h for _, h in cover):
            raise dtable.Undecidable("%s: object of an explicit destructor call not understood" % de.loc)
        if all(not h for _, h in cover):
            dtor_loop = False
        elif all(sorted(h) == list(range(BASE, BASE + n_)) for n_, h in cover):
            dtor_loop = True
        else:
            n_, h = [c for c in cover if sorted(c[1]) != list(range(BASE, BASE + c[0]))][0]
            if opaque:
                raise dtable.Undecidable("%s: destructors are run for elements %s of %d and the block is handed to %s: not understood"
                                         % (de.nloc(opaque[0]), [x - BASE for x in h], n_, dtable.describe(opaque[0])[:80]))
            ck.violation("SV-MODE-TABLE", de.qname, mode + ":loop-range", "destructor loop does not cover [0, size): for size %d it destroys elements %s"
                         % (n_, [x - BASE for x in h]), de.loc)
            continue
        pair = {"new[]": "delete[]", "operator new": "operator delete", "new": "delete"}
        sig = mode
        builds = [y for y in reached_cr if (y["k"] == "CXXNewExpr" and not y.get("array"))
                  or match.call_named(y, ("construct_at", "construct", "uninitialized_default_construct", "uninitialized_default_construct_n",
                                          "uninitialized_value_construct", "uninitialized_value_construct_n", "uninitialized_fill", "uninitialized_fill_n"))
                  or y["k"] in ("ForStmt", "WhileStmt", "DoStmt", "CXXForRangeStmt")]
        if mode == "Normal" and "operator new" in alloc and builds:
            raise dtable.Undecidable("%s: default mode builds its elements by hand (%s): construction/destruction of every element is not evaluated"
                                     % (cr.nloc(builds[0]), builds[0]["k"]))
        if not alloc or not free:
            # nothing recognised is not "allocates with nothing": the block is obtained / released in a way this rule does not know
            raise dtable.Undecidable("%s: SimpleVector<%s>: how the block is %s is not understood (no new[] / operator new / delete[] / operator delete reached)"
                                     % ((cr if not alloc else de).loc, mode, "allocated" if not alloc else "released"))
        if len(alloc) > 1 or len(free) > 1:
            # several kinds are reached together only if a branch could not be decided at compile time: which one runs in this mode?
            for f_, kinds_, fns_ in ((cr, alloc, fns_cr), (de, free, fns_de)):
                open_branch = [y for g_ in fns_ for y in g_.nodes() if y["k"] in ("IfStmt", "ConditionalOperator") and kids(y) and const_int(kids(y)[0]) is None]
                if len(kinds_) > 1 and open_branch:
                    raise dtable.Undecidable("%s: SimpleVector<%s>: %s are all reached behind a branch that is not a compile-time constant: %s"
                                             % (f_.nloc(open_branch[0]), mode, sorted(kinds_), dtable.describe(kids(open_branch[0])[0])[:60]))
        if len(alloc) != 1 or len(free) != 1 or pair.get(next(iter(alloc))) != next(iter(free)):
            ck.violation("SV-MODE-TABLE", de.qname, sig + ":pair", "mode %s allocates with %s but releases with %s" % (mode, sorted(alloc), sorted(free)), de.loc)
            continue
        want_loop = mode == "NoInitButDestroy"
        if want_loop and not dtor_loop and opaque:
            raise dtable.Undecidable("%s: the block is handed to %s: whether that runs the element destructors is not understood"
                                     % (de.nloc(opaque[0]), dtable.describe(opaque[0])[:80]))
        if dtor_loop != want_loop:
            ck.violation("SV-MODE-TABLE", de.qname, sig + ":dtor-loop",
                         "mode %s %s run the element destructors explicitly" % (mode, "must" if want_loop else "must not"), de.loc)
            continue
        if mode == "Normal" and alloc != {"new[]"}:
            helpers = [y for y in reached_cr if "callee" in y and y["k"] in ("CallExpr", "CXXMemberCallExpr") and y["callee"]["name"] not in ("operator new", "abort")
                       and id(y) not in followed_cr]
            if helpers:
                raise dtable.Undecidable("%s: default mode allocates raw memory and calls %s: whether that constructs the elements is not understood"
                                         % (cr.nloc(helpers[0]), helpers[0]["callee"]["name"]))
            ck.violation("SV-MODE-TABLE", cr.qname, sig + ":default-mode", "default mode must construct/destroy every element (new[]/delete[])", cr.loc)
            continue
        ck.ok("SV-MODE-TABLE", "SimpleVector<%s>" % mode, "%s <-> %s, destructor loop: %s" % (next(iter(alloc)), next(iter(free)), dtor_loop))


def null_test(cond, is_ptr):
    """the truth value of `cond` under which the pointer recognised by is_ptr is null, or None:
    p -> False, !p -> True, p == nullptr -> True, p != nullptr -> False (either operand order)"""
    pt = match.ptr_truth(cond)
    if pt is not None and is_ptr(pt):
        return False
    c = strip_casts(cond) if cond is not None and cond["k"] != "ImplicitCastExpr" else cond
    if c is not None and c["k"] == "UnaryOperator" and c.get("op") == "!" and kids(c):
        inner = null_test(kids(c)[0], is_ptr)
        return None if inner is None else not inner
    b = match.binop(cond, ("==", "!="))
    if b:
        for p_, n_ in ((b[1], b[2]), (b[2], b[1])):
            if is_ptr(p_) and is_null(n_):
                return b[0] == "=="
    return None


def releases_array(fn2):
    """a member of SimpleVector that hands array_ to destroy_array on every path"""
    if fn2 is None or fn2.body is None or not fn2.cfg:
        return False
    g2 = cfgm.CFG(fn2)
    ds = [P(g2, c) for c in ir.walk(fn2.body) if match.call_named(c, ("destroy_array",)) and kids(c) and match.this_field(unwrap(kids(c)[0])) == "array_"]
    ds = [p for p in ds if p is not None]
    return bool(ds) and g2.path_between_avoiding((g2.entry, -1), (g2.exit, 0), ds) is None


def check_sv_owner(ck, fn):
    """array_ must not be overwritten while it owns a block"""
    g = cfgm.CFG(fn)
    writes = []
    for x in ir.walk(fn.body):
        b = match.binop(x, ("=",))
        if b and match.this_field(b[1]) == "array_":
            writes.append(x)
    where = "%s %s" % (fn.qname, fn.kind)
    if fn.kind == "ctor":
        ck.ok("SV-OWNER", fn.full + "/%d" % len(fn.params), "constructor: nothing owned before", nontrivial=False)
        return True

    def is_array(e):
        return match.this_field(unwrap(e)) == "array_"
    # must-fact "array_ is null": established by the null edge of a test of array_ or by array_ = nullptr, ended by any other write
    def effect(n):
        b_ = match.binop(n, ("=",)) if n["k"] in ("BinaryOperator", "CXXOperatorCallExpr") else None
        if b_ and match.this_field(b_[1]) == "array_":
            return "gen" if is_null(b_[2]) else "kill"
        return None
    known_null = MustFact(fn, g, lambda c, truth: null_test(c, is_array) is not None and null_test(c, is_array) == truth, effect)
    for wnode in writes:
        pw = g.pos(wnode)
        if pw is None:
            pw = g.pos_deep(wnode)
        # (a) destroy_array(array_, ...) dominates the write - directly or in a member of *this that releases the block on every path
        ok_a = False
        saved = None
        for x in ir.walk(fn.body):
            c = match.call_named(x, ("destroy_array",))
            if c and is_array(kids(c)[0]) and P(g, c) and g.dominates(P(g, c), pw):
                ok_a = True
            if x["k"] == "VarDecl" and kids(x) and is_array(kids(x)[0]) and not (x.get("ty") or "").rstrip().endswith("&"):
                saved = x
        for c in this_calls(fn, None):
            if P(g, c) and g.dominates(P(g, c), pw) and releases_array(fn.tu.by_did.get(c["callee"].get("did"))):
                ok_a = True
        # (b) saved to a local that is destroyed on every path after the write
        ok_b = False
        if saved is not None:
            ds = [c for c in ir.walk(fn.body) if match.call_named(c, ("destroy_array",)) and ref_of(unwrap(kids(c)[0])) == saved["did"]]
            # a path on which the saved pointer was tested null has nothing to destroy
            null_edges = []
            for y in ir.walk(fn.body):
                if y["k"] == "IfStmt":
                    t_ = null_test(kids(y)[0], lambda e: ref_of(unwrap(e)) == saved["did"])
                    if t_ is not None:
                        for bid, blk in g.blocks.items():
                            if blk.get("term") == y["id"] and len(blk.get("succ", [])) == 2 and blk["succ"][0 if t_ else 1] is not None:
                                null_edges.append((bid, blk["succ"][0 if t_ else 1]))
            if ds and all(P(g, d) for d in ds) and g.path_avoiding(pw, [P(g, d) for d in ds], blocked_edges=null_edges) is None:
                ok_b = True
        # (d) saved to a local that is handed to another object's array_ on every path after the write (exchange)
        ok_d = False
        if saved is not None:
            hand = []
            for y in ir.walk(fn.body):
                b_ = match.binop(y, ("=",))
                f_ = match.field_of(b_[1]) if b_ else None
                if b_ and f_ and f_[1] == "array_" and strip_casts(f_[0])["k"] != "This" and ref_of(unwrap(b_[2])) == saved["did"]:
                    hand.append(y)
            ph = [g.pos_deep(h) for h in hand if g.pos_deep(h)]
            if ph and g.path_avoiding(pw, ph) is None:
                ok_d = True
        # (c) array_ known null at the write: every path to it takes the null edge of a test of array_ (else branch, negated
        #     condition, early return) with no other write in between
        ok_c = known_null.before(wnode) is True
        if ok_a or ok_b or ok_c or ok_d:
            continue
        # nothing recognised.  That is a lost block only in a closed world: nothing before the write reads array_ or may change it
        if saved is not None:
            uses = [y for y in ir.walk(fn.body) if y["k"] == "DeclRefExpr" and y["ref"]["id"] == saved["did"]]
            for y in uses:
                par = fn.parent(y)
                while par is not None and par["k"] in ("ImplicitCastExpr", "ParenExpr", "BinaryOperator", "ArraySubscriptExpr", "UnaryOperator") \
                        and par.get("op") in (None, "+", "-", "*", "!", "==", "!="):
                    par = fn.parent(par)
                if par is not None and "callee" in par and par["callee"]["name"] in ("destroy_array", "move", "copy", "move_n", "copy_n", "uninitialized_move",
                                                                                     "uninitialized_copy", "min", "max"):
                    continue
                if par is not None and par["k"] in ("IfStmt", "CompoundStmt"):
                    continue
                raise dtable.Undecidable("%s: array_ is overwritten; the old block is kept in '%s', whose use in %s is not understood"
                                         % (fn.nloc(wnode), saved.get("name"), dtable.describe(par)[:60] if par is not None else "?"))
        else:
            # reads of array_ of a recognised kind: null tests and destroy_array(array_, ...); members of *this that release the block
            tested = set()
            for y in ir.walk(fn.body):
                if y["k"] in ("IfStmt", "WhileStmt", "ForStmt", "DoStmt", "ConditionalOperator"):
                    cnd = match.loop_parts(y)[1] if y["k"] in ("WhileStmt", "ForStmt", "DoStmt") else kids(y)[0]
                    if cnd is not None and null_test(cnd, is_array) is not None:
                        tested |= {z["id"] for z in ir.walk(cnd)}
            destroys = [c for c in ir.walk(fn.body) if match.call_named(c, ("destroy_array",)) and kids(c) and is_array(kids(c)[0]) and P(g, c)]
            for c in destroys:
                tested |= {z["id"] for z in ir.walk(kids(c)[0])}
            releasing = [c for c in this_calls(fn, None) if P(g, c) and releases_array(fn.tu.by_did.get(c["callee"].get("did")))]
            lhs = strip_casts(match.binop(wnode, ("=",))[1])
            before = [y for y in ir.walk(fn.body) if y["k"] == "MemberExpr" and is_array(y) and y is not lhs and y["id"] not in tested
                      and P(g, y) and (g.reachable(P(g, y), pw) or P(g, y) == pw)
                      and not any(y is strip_casts(match.binop(w2, ("=",))[1]) for w2 in writes)]
            before += [c for c in this_calls(fn, None) if not c["callee"].get("const") and c not in releasing and P(g, c) and g.reachable(P(g, c), pw)]
            before += [y for y in ir.walk(fn.body) if match.call_named(y, ("swap", "exchange")) and any(is_array(a_) for a_ in kids(y))]
            if before:
                raise dtable.Undecidable("%s: array_ is overwritten; what %s before it does to the old block is not understood"
                                         % (fn.nloc(wnode), dtable.describe(before[0])[:60]))
            # closed world: a path to the write that passes no release and no edge on which array_ was found null is the counterexample
            null_edges = []
            for bid, blk in g.blocks.items():
                cnd = fn.byid(blk["cond"]) if blk.get("cond") is not None else None
                t_ = null_test(cnd, is_array) if cnd is not None else None
                if t_ is not None and len(blk.get("succ", [])) == 2 and blk["succ"][0 if t_ else 1] is not None:
                    null_edges.append((bid, blk["succ"][0 if t_ else 1]))
            stops = [P(g, c) for c in destroys + releasing] + [P(g, w2) for w2 in writes if w2 is not wnode and is_null(match.binop(w2, ("=",))[2]) and P(g, w2)]
            if g.path_between_avoiding((g.entry, -1), pw, stops, blocked_edges=null_edges) is None:
                raise dtable.Undecidable("%s: array_ is overwritten; every path releases the block or finds it null, but not in a way this rule understands"
                                         % fn.nloc(wnode))
        ck.violation("SV-OWNER", fn.qname, "overwrite", "array_ is overwritten while it may still own a block (old block neither destroyed nor saved)", fn.nloc(wnode))
        return False
    ck.ok("SV-OWNER", where, "%d writes to array_, old block destroyed/saved/known null at each" % len(writes))
    return True


def check_sv_resize(ck, fn):
    g = cfgm.CFG(fn)
    defs = local_defs(fn)
    newp = fn.params[0]["did"]
    ok_all = True
    for x in ir.walk(fn.body):
        c = match.call_named(x, ("destroy_array",))
        if c and ref_of(unwrap(kids(c)[0])) is not None:     # destroying the saved old block
            szarg = kids(c)[1]
            pc = P(g, c)
            cap = captured_field(fn, g, szarg, defs, pc)
            if cap is None or pc is None:
                s0 = unwrap(szarg)
                if const_int(s0) is not None or (ref_of(s0) is not None and fn.param_index(ref_of(s0)) is not None):
                    cap = ("?", pc)                          # a constant / a parameter: certainly not the old size_
                else:
                    raise dtable.Undecidable("%s: size the old block is destroyed with not understood: %s" % (fn.nloc(c), dtable.describe(szarg)))
            if cap[0] != "size_":
                ck.violation("SV-RESIZE-ORDER", fn.qname, "old-size", "old block is destroyed with %s instead of the old size_" % dtable.describe(szarg), fn.nloc(c))
                ok_all = False
                continue
            # no write to size_ may reach the point where the size is read
            for y in ir.walk(fn.body):
                b = match.binop(y, ("=",))
                if b and match.this_field(b[1]) == "size_" and P(g, y) and g.reachable(P(g, y), cap[1]):
                    ck.violation("SV-RESIZE-ORDER", fn.qname, "size-before-destroy", "size_ is updated before the old block is destroyed with it", fn.nloc(y))
                    ok_all = False
    # moved count = min(size_, new_size): the range handed to the move is evaluated for old sizes / new sizes 0..3
    for x in ir.walk(fn.body):
        c = match.call_named(x, ("move", "copy", "move_n", "copy_n", "uninitialized_move", "uninitialized_copy", "uninitialized_move_n", "uninitialized_copy_n"))
        if c and len(kids(c)) == 3 and x is strip_casts(x):
            cex = moved_count_cex(fn, c, newp)
            if cex:
                ck.violation("SV-RESIZE-ORDER", fn.qname, "move-count", "resize moves %s elements, must move min(size_, new_size): for size_=%d new_size=%d it moves %d"
                             % (dtable.describe(kids(c)[1]), cex[0], cex[1], cex[2]), fn.nloc(c))
                ok_all = False
    if ok_all:
        ck.ok("SV-RESIZE-ORDER", fn.full, "old block destroyed with the old size_; min(size_, new_size) elements carried over")


def moved_count_cex(fn, c, newp):
    """the number of elements handed to the move/copy call c, evaluated on the skeleton of resize for every old size and new
    size in 0..3 (with a block present): -> (size_, new_size, count) where it is not min(size_, new_size), else None"""
    by_count = c["callee"]["name"].endswith("_n")
    reached = False
    for s_ in range(4):
        for n_ in range(4):
            fresh = [5000]

            def event(e, sk):
                if match.call_named(e, ("create_array",)) and e is strip_casts(e):
                    fresh[0] += 1000
                    return fresh[0]
                if e["k"] in ("NullPtr", "CXXNullPtrLiteralExpr", "GNUNullExpr"):
                    return 0
                return NotImplemented
            sk = skel.Skel(fn, {("field", "array_"): BASE, ("field", "size_"): s_, newp: n_}, None, event, stop=c, max_iter=16)
            try:
                sk.run(kids(fn.body))
                continue                                     # the call is not reached for these sizes
            except skel.Return:
                continue
            except skel.Stop:
                pass
            reached = True
            first, second = sk.ev(kids(c)[0]), sk.ev(kids(c)[1])
            if by_count:
                count = second
            else:
                count = (second - first) if isinstance(first, int) and isinstance(second, int) else None
            if isinstance(count, bool) or not isinstance(count, int):
                raise dtable.Undecidable("%s: number of elements moved cannot be evaluated: %s" % (fn.nloc(c), dtable.describe(kids(c)[1])))
            if count != min(s_, n_):
                return (s_, n_, count)
    if not reached:
        raise dtable.Undecidable("%s: the move of the old elements is not reached in the evaluation" % fn.nloc(c))
    return None


def check_sv_move(ck, fn):
    v = fn.params[0]["did"]
    ops = FieldOps(fn)
    val = ops.values(local_defs(fn))
    a = val.get((v, "array_"))
    s = val.get((v, "size_"))
    if a not in (("null",), ("c", 0)):
        if (a is None and not ops.opaque(v, "array_")) or (a is not None and a[0] != "?" and not ops.opaque(v, "array_")):
            ck.violation("SV-OWNER", fn.qname, "src-array", "moved-from vector keeps its array_ (double ownership)", fn.loc)
            return
        raise dtable.Undecidable("%s: what the move leaves in the source's array_ is not understood" % fn.loc)
    if s != ("c", 0):
        if (s is None and not ops.opaque(v, "size_")) or (s is not None and s[0] != "?" and not ops.opaque(v, "size_")):
            ck.violation("SV-OWNER", fn.qname, "src-size", "moved-from vector keeps a non-zero size_", fn.loc)
            return
        raise dtable.Undecidable("%s: what the move leaves in the source's size_ is not understood" % fn.loc)
    for f in ("array_", "size_"):
        r = val.get(("this", f))
        if r == ("init", v, f):
            continue
        if (r is None or r[0] != "?") and not ops.opaque("this", f) and not ops.opaque(v, f):
            ck.violation("SV-OWNER", fn.qname, "takes:" + f, "move does not take %s from the source" % f, fn.loc)
            return
        raise dtable.Undecidable("%s: value given to %s in the move not understood" % (fn.loc, f))
    ck.ok("SV-OWNER", fn.full + (" move-ctor" if fn.kind == "ctor" else " move-assign"), "takes (size_, array_), source nulled")


def linear_in_one(e):
    """e == leaf + k for one non-constant leaf: -> (leaf expression, k); a constant -> (None, k); else None"""
    e = unwrap(e)
    if e is None:
        return None
    k = const_int(e)
    if k is not None:
        return None, k
    b = match.binop(e, ("+", "-")) if e["k"] == "BinaryOperator" else None
    if b:
        l, r = linear_in_one(b[1]), linear_in_one(b[2])
        if l is None or r is None:
            return None
        if l[0] is not None and r[0] is not None:
            return None
        if b[0] == "-" and r[0] is not None:
            return None
        return (l[0] if l[0] is not None else r[0]), l[1] + (r[1] if b[0] == "+" else -r[1])
    if e["k"] in ("DeclRefExpr", "MemberExpr"):
        return e, 0
    return None


def round_up_pow2(v):
    """tlx::round_up_to_power_of_two on size_t (its own property is C20's): the smallest power of two >= v; 0 for 0"""
    v %= M64
    return 0 if v == 0 else (1 << (v - 1).bit_length()) % M64


def pair_event(e, sk):
    """values that travel as a pair: std::make_pair / pair{a, b} / std::tie-style component selection (.first, .second,
    std::get<I>, the TupleGet nodes FieldOps makes for std::tie(a, b) = p), and round_up_to_power_of_two by its specification"""
    k = e["k"]
    if k == "TupleGet" or (k == "MemberExpr" and e.get("member") in ("first", "second") and kids(e) and match.this_field(e) is None):
        v = sk.ev(kids(e)[0])
        i_ = e["idx"] if k == "TupleGet" else (0 if e["member"] == "first" else 1)
        return v[1 + i_] if isinstance(v, tuple) and v and v[0] == "pair" and len(v) > 1 + i_ else None
    if k == "InitListExpr" and len(kids(e)) >= 2:
        return ("pair",) + tuple(sk.ev(x) for x in kids(e))
    if "callee" in e:
        nm = e["callee"]["name"]
        args = [a for a in kids(e) if a is not None and a["k"] != "DefaultArg"]
        if nm == "round_up_to_power_of_two" and len(args) == 1:
            v = sk.ev(args[0])
            return round_up_pow2(v) if isinstance(v, int) and not isinstance(v, bool) else None
        if nm in ("make_pair", "make_tuple", "pair", "tuple", "forward_as_tuple") and len(args) >= 2 and k in ("CallExpr", "CXXConstructExpr", "CXXTemporaryObjectExpr"):
            return ("pair",) + tuple(sk.ev(x) for x in args)
        if nm in TRANSPARENT and len(args) == 1:
            return sk.ev(args[0])
    return NotImplemented


CAP_GRID = (0, 1, 2, 3, 4, 5, 7, 8, 9, 15, 16, 17, 1000)


def check_capacity(ck, fn):
    """wherever the ring's capacity is computed it must exceed the promised max_size by at least one slot: begin_ == end_ means
    empty, so a ring with capacity == max_size looks empty when it is full.  Every value a function gives to capacity_ that is
    not taken from another ring and not a constant is evaluated for maximum sizes 0..17 and 1000 (the integer parameters and
    max_size_ on entry) together with the value the function leaves in max_size_."""
    ops = FieldOps(fn)
    defs = local_defs(fn)
    n = 0
    tag = "%s::%s" % (fn.record.split("::")[-1], fn.name)
    maxw = ops.w.get(("this", "max_size_"), [])
    for e in ops.w.get(("this", "capacity_"), []):
        u = unwrap(e)
        if u is None:
            continue
        t = ops.target(u)
        if (t and t[0] != "this" and t[1] == "capacity_") or const_int(u) is not None or is_null(u):
            continue          # taken from another ring / zero
        ex = match.call_named(u, ("exchange",))
        if ex is not None and len(kids(ex)) == 2 and ops.target(kids(ex)[0]) and ops.target(kids(ex)[0])[0] != "this" and ops.target(kids(ex)[0])[1] == "capacity_":
            continue          # std::exchange(rb.capacity_, ...): taken from another ring
        if u["k"] in ("InitListExpr", "CXXScalarValueInitExpr", "ImplicitValueInitExpr") and not kids(u):
            continue
        n += 1
        cex = None
        for k_ in CAP_GRID:
            env = {("field", "max_size_"): k_}
            for p_ in fn.params:
                ty = (p_.get("ty") or "").rstrip()
                if not ty.endswith("&") and not ty.endswith("*") and ("long" in ty or "int" in ty or "size_t" in ty or "short" in ty):
                    env[p_["did"]] = k_

            def unknown(x, sk):
                d = ref_of(x)
                if x["k"] == "DeclRefExpr" and d in defs and d not in sk.env:
                    sk.env[d] = sk.ev(kids(defs[d])[0])       # a local that keeps the value it got at its declaration
                    return sk.env[d]
                return None
            sk = skel.Skel(fn, env, unknown, pair_event, max_iter=16)
            try:
                cap = sk.ev(e)
                mx = sk.ev(maxw[-1]) if maxw else k_
            except skel.Return:
                cap = mx = None
            if isinstance(cap, bool) or not isinstance(cap, int) or isinstance(mx, bool) or not isinstance(mx, int):
                raise dtable.Undecidable("%s: capacity is not computed from the maximum size in a way that can be evaluated: %s" % (fn.nloc(u), dtable.describe(e)))
            cap, mx = cap % M64, mx % M64
            if cap <= mx and cex is None:
                cex = (mx, cap)
        if cex:
            ck.violation("CAPACITY-SPARE-SLOT", fn.qname, "%s:%s" % (fn.name, dtable.describe(e)),
                         "the capacity is %s: for max_size %d the ring has %d slots; a ring with capacity <= max_size has end_ == begin_ when it is "
                         "full and reports size() == 0 (elements are then leaked and overwritten)" % (dtable.describe(e), cex[0], cex[1]), fn.nloc(u))
        else:
            ck.ok("CAPACITY-SPARE-SLOT", "%s [%s]" % (tag, dtable.describe(e)), "capacity > max_size for max_size 0..17, 1000")
    return n


def run(ck):
    ck.explanation = (
        "RingBuffer: each primitive mutator is reduced to its ordered effects (construct slot / destroy slot / cursor update) "
        "with slot indices evaluated symbolically as begin_/end_ + offset relative to the pre-state; the slot constructed or "
        "destroyed must be exactly the slot that enters or leaves the live range [begin_, end_), and the accessors must index "
        "the same convention (all wrapped by the mask). Storage release must be dominated by clear(); moves must take all fields "
        "and leave the source empty and non-owning (std::swap of fields, std::tie and straight-line members handed the other object "
        "are followed); a copy is evaluated for sources of 0..3 elements at every cursor position of small blocks (wrapped live "
        "ranges included) and must leave rb[0..n) in its live range with the old elements destroyed; the capacity a function "
        "computes is evaluated against the max_size it stores. SimpleVector: the instantiated "
        "switch(Mode) tables of create_array/destroy_array (overloads selected by a mode tag and helpers of the class are followed) "
        "must pair, array_ must never be overwritten while owning, resize must "
        "destroy the old block with the old size. Histories (deque equivalence) are not decided. A member that is not written in "
        "the usual statement shapes is evaluated instead (every cursor position of buffers with mask 1..15, old/new sizes 0..3, "
        "sources of 0..3 elements); a violation is reported only with such a counterexample, a CFG path, or a complete effect list "
        "- a shape that is not understood is 'cannot decide'.")
    types = ["std::string"] if ck.tier == "quick" else ["std::string", "std::vector<int>"]
    for t in types:
        for nd in ([True] if ck.tier == "quick" else [True, False]):
            tu = ir.extract("witness/C16_ring_simple.cpp", defines=["WITNESS_T=" + t], ndebug=nd)
            for fn in tu.find(record=RB):
                if fn.name in EXPECT:
                    check_mutator(ck, fn)
                elif fn.name in ("front", "back", "operator[]", "size"):
                    check_accessor(ck, fn)
                if any("callee" in x and x["callee"]["name"] == "deallocate" for x in ir.walk(fn.body)):
                    check_clear_before_free(ck, fn)
                if fn.d.get("move_ctor") or fn.d.get("move_assign"):
                    check_moved(ck, fn)
                if fn.d.get("copy_ctor") or fn.d.get("copy_assign"):
                    check_copy_loop(ck, fn, tu)
                check_cursor_reset(ck, fn)
                check_capacity(ck, fn)
            if nd:
                check_sv_modes(ck, tu)
                for fn in tu.find(record=SV):
                    if sv_mode(fn) != "Normal":
                        continue
                    has_w = any(match.binop(x, ("=",)) and match.this_field(match.binop(x, ("=",))[1]) == "array_" for x in ir.walk(fn.body))
                    if has_w and not (fn.d.get("move_ctor")):
                        check_sv_owner(ck, fn)
                    if fn.name == "resize":
                        check_sv_resize(ck, fn)
                    check_sv_coupled(ck, fn)
                    if fn.d.get("move_ctor") or fn.d.get("move_assign"):
                        check_sv_move(ck, fn)
    n = len(types) * (1 if ck.tier == "quick" else 2)
    ck.floor("SLOT-CURSOR", 8 * n)
    ck.floor("ACCESSOR-CONVENTION", 7 * n)
    ck.floor("CLEAR-BEFORE-FREE", 4 * n)
    ck.floor("MOVED-EMPTY", 2 * n)
    ck.floor("COPY-ELEMENTS", 2 * n)
    ck.floor("SV-MODE-TABLE", 3 * len(types))
    ck.floor("SV-OWNER", 5 * len(types))
    ck.floor("SV-RESIZE-ORDER", 1 * len(types))
    ck.floor("SV-COUPLED", 4 * len(types))
    ck.floor("CURSOR-RESET", 2 * n)
    ck.floor("CAPACITY-SPARE-SLOT", 3 * n)
