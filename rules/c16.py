"""C16 — RingBuffer cursor/slot algebra, clear-before-free, moved-from state;
SimpleVector allocation-mode table, ownership of array_, resize order."""
from engine import ir, dtable, match, cfg as cfgm
from engine.ir import kids, strip_casts, const_int, ref_of

RB = "tlx::RingBuffer"
SV = "tlx::SimpleVector"


def is_assert_stmt(s):
    """assert() expansion: NDEBUG -> static_cast<void>(0); otherwise cond ? void(0) : __assert_fail()"""
    s = s
    if s["k"] in ("CXXStaticCastExpr", "CStyleCastExpr") and s.get("ty") == "void":
        return True
    if s["k"] == "ConditionalOperator":
        return any(c.get("callee", {}).get("noreturn") for c in ir.walk(s) if "callee" in c)
    return False


# ------------------------------------------------------------------ cursor algebra
class Cursor:
    """symbolic ring index: base cursor ('b' | 'e') + integer offset (+ optional param)"""

    def __init__(self, base, off=0, param=None, masked=True):
        self.base, self.off, self.param, self.masked = base, off, param, masked

    def key(self):
        return (self.base, self.off, self.param)

    def __repr__(self):
        s = {"b": "begin_", "e": "end_"}[self.base]
        if self.off:
            s += "%+d" % self.off
        if self.param:
            s += "+" + self.param
        return s


def eval_index(n, st, fn):
    """index expression over begin_/end_/mask_ -> Cursor (relative to the pre-state), or None"""
    n = strip_casts(n)
    f = match.this_field(n)
    if f == "begin_":
        return Cursor("b", st["b"], masked=True)
    if f == "end_":
        return Cursor("e", st["e"], masked=True)
    b = match.binop(n, ("&", "%", "+", "-"))
    if b:
        op, l, r = b
        if op == "&" and (match.this_field(r) == "mask_" or match.this_field(l) == "mask_"):
            inner = l if match.this_field(r) == "mask_" else r
            c = eval_index(inner, st, fn)
            if c:
                c.masked = True
            return c
        if op == "%" and match.this_field(r) == "capacity_":
            c = eval_index(l, st, fn)
            if c:
                c.masked = True
            return c
        if op in ("+", "-"):
            c = eval_index(l, st, fn)
            k = const_int(r)
            if c and k is not None:
                return Cursor(c.base, c.off + (k if op == "+" else -k), c.param, masked=False)
            if c and op == "+" and ref_of(r) is not None and fn.param_index(ref_of(r)) is not None:
                return Cursor(c.base, c.off, ir.ref_name(r), masked=False)
            if op == "+":
                c2 = eval_index(r, st, fn)
                k2 = const_int(l)
                if c2 and k2 is not None:
                    return Cursor(c2.base, c2.off + k2, c2.param, masked=False)
                if c2 and ref_of(l) is not None and fn.param_index(ref_of(l)) is not None:
                    return Cursor(c2.base, c2.off, ir.ref_name(l), masked=False)
    return None


def slot_of_address(a, st, fn):
    """address expression of a data_ slot -> Cursor"""
    a = strip_casts(a)
    c = match.call_named(a, ("addressof", "__addressof"))
    if c:
        return slot_of_lvalue(kids(c)[-1], st, fn)
    if a["k"] == "UnaryOperator" and a["op"] == "&":
        return slot_of_lvalue(kids(a)[0], st, fn)
    b = match.binop(a, ("+",))
    if b and match.this_field(b[1]) == "data_":
        return eval_index(b[2], st, fn)
    return None


def slot_of_lvalue(e, st, fn):
    p = match.index_parts(e)
    if p and match.this_field(p[0]) == "data_":
        return eval_index(p[1], st, fn)
    d = match.deref_of(e)
    if d is not None:
        return slot_of_address(d, st, fn)
    return None


def cursor_update(s, st, fn):
    """recognise ++end_ &= mask_, --begin_ &= mask_, end_ = (end_+1) & mask_ ...; returns
    (cursor name, new offset, masked) or None"""
    b = match.binop(s, ("&=", "=", "%="))
    if b:
        op, l, r = b
        if op in ("&=", "%="):
            u = match.unop(l, ("++", "--"))
            tgt = match.this_field(u[1]) if u else None
            mask_ok = (op == "&=" and match.this_field(r) == "mask_") or (op == "%=" and match.this_field(r) == "capacity_")
            if tgt in ("begin_", "end_"):
                return tgt, st[tgt[0]] + (1 if u[0] == "++" else -1), mask_ok
        if op == "=":
            tgt = match.this_field(l)
            if tgt in ("begin_", "end_"):
                c = eval_index(r, st, fn)
                if c and c.base == tgt[0] and c.param is None:
                    return tgt, c.off, c.masked
    u = match.unop(s, ("++", "--"))
    if u and match.this_field(u[1]) in ("begin_", "end_"):
        tgt = match.this_field(u[1])
        return tgt, st[tgt[0]] + (1 if u[0] == "++" else -1), False
    return None


EXPECT = {  # public mutator -> (delta begin, delta end)
    "push_back": (0, 1), "emplace_back": (0, 1), "push_front": (-1, 0), "emplace_front": (-1, 0),
    "pop_front": (1, 0), "pop_back": (0, -1),
}


def check_mutator(ck, fn):
    st = {"b": 0, "e": 0}
    constructed, destroyed = [], []
    where = "%s(%s)" % (fn.qname, ",".join(p["ty"] for p in fn.params))
    for s in kids(fn.body):
        if is_assert_stmt(s):
            continue
        c = match.call_named(s, ("construct", "construct_at"))
        if c or s["k"] == "CXXNewExpr":
            addr = kids(c)[1] if (c and c["callee"]["name"] == "construct") else kids(c or s)[0]
            slot = slot_of_address(addr, st, fn)
            if slot is None:
                raise dtable.Undecidable("%s: constructed address not understood: %s" % (fn.nloc(s), dtable.describe(addr)))
            constructed.append((slot, s))
            continue
        d = match.call_named(s, ("destroy", "destroy_at"))
        if d:
            addr = kids(d)[1] if d["callee"]["name"] == "destroy" else kids(d)[0]
            slot = slot_of_address(addr, st, fn)
            if slot is None:
                raise dtable.Undecidable("%s: destroyed address not understood: %s" % (fn.nloc(s), dtable.describe(addr)))
            destroyed.append((slot, s))
            continue
        u = cursor_update(s, st, fn)
        if u:
            tgt, off, masked = u
            if not masked:
                ck.violation("SLOT-CURSOR", fn.qname, "unmasked:" + tgt, "cursor %s is updated without wrapping (& mask_)" % tgt, fn.nloc(s))
                return
            st[tgt[0]] = off
            continue
        raise dtable.Undecidable("%s: statement not understood in ring-buffer mutator: %s" % (fn.nloc(s), dtable.describe(s)))
    exp = EXPECT.get(fn.name)
    delta = (st["b"], st["e"])
    if exp is not None and delta != exp:
        ck.violation("SLOT-CURSOR", fn.qname, "delta", "%s moves (begin_,end_) by %s, a %s must move them by %s"
                     % (fn.name, delta, fn.name, exp), fn.loc)
        return
    ck.require(delta in ((0, 1), (-1, 0), (1, 0), (0, -1)), "%s: unexpected cursor movement %s" % (fn.loc, delta))
    want_c = {(0, 1): [("e", 0, None)], (-1, 0): [("b", -1, None)]}.get(delta, [])
    want_d = {(1, 0): [("b", 0, None)], (0, -1): [("e", -1, None)]}.get(delta, [])
    got_c = [c.key() for c, _ in constructed]
    got_d = [c.key() for c, _ in destroyed]
    for slot, s in constructed + destroyed:
        if not slot.masked:
            ck.violation("SLOT-CURSOR", fn.qname, "unmasked-index", "slot index %r is not wrapped (& mask_)" % slot, fn.nloc(s))
            return
    if got_c != want_c or got_d != want_d:
        def f(l):
            return "[" + ",".join(repr(Cursor(*k)) for k in l) + "]"
        ck.violation("SLOT-CURSOR", fn.qname, "slot",
                     "live range [begin_,end_) changes by %s: must construct %s / destroy %s (pre-state cursors), but constructs %s / destroys %s"
                     % (delta, f(want_c), f(want_d), f(got_c), f(got_d)), fn.loc)
        return
    ck.ok("SLOT-CURSOR", where, "delta(begin_,end_)=%s constructs %s destroys %s" % (delta, got_c, got_d),
          sample=dict(rule="SLOT-CURSOR", fn=where, delta=delta, constructed=got_c, destroyed=got_d))


def check_accessor(ck, fn):
    rets = [x for x in ir.walk(fn.body) if x["k"] == "ReturnStmt"]
    ck.require(len(rets) == 1, "%s: single return expected" % fn.loc)
    e = kids(rets[0])[0]
    where = fn.qname + (" const" if fn.d.get("const") else "")
    st = {"b": 0, "e": 0}
    if fn.name == "size":
        b = match.binop(e, ("&", "%"))
        okk = False
        if b and (match.this_field(b[2]) in ("mask_", "capacity_")):
            bb = match.binop(b[1], ("-",))
            okk = bool(bb and match.this_field(bb[1]) == "end_" and match.this_field(bb[2]) == "begin_")
        if not okk:
            cex = accessor_grid(fn, e, lambda b_, e_, m_, i_: (e_ - b_) & m_, index=False)
            if cex:
                ck.violation("ACCESSOR-CONVENTION", fn.qname, "size", "size() is not (end_ - begin_) wrapped: %s gives %s for begin_=%d end_=%d mask_=%d"
                             % (dtable.describe(e), cex[3], cex[0], cex[1], cex[2]), fn.loc)
                return
        ck.ok("ACCESSOR-CONVENTION", where, "(end_ - begin_) & mask_")
        return
    slot = slot_of_lvalue(e, st, fn)
    want = {"front": ("b", 0, None), "back": ("e", -1, None), "operator[]": ("b", 0, fn.params[0]["name"] if fn.params else None)}[fn.name]
    if slot is None or slot.key() != want or not slot.masked:
        # not the usual spelling: decide on all cursor positions of small buffers
        spec = {"front": lambda b_, e_, m_, i_: b_ & m_, "back": lambda b_, e_, m_, i_: (e_ - 1) & m_,
                "operator[]": lambda b_, e_, m_, i_: (b_ + i_) & m_}[fn.name]
        cex = accessor_grid(fn, e, spec, index=True)
        if cex:
            ck.violation("ACCESSOR-CONVENTION", fn.qname, "slot", "%s returns %s: slot %s for begin_=%d end_=%d mask_=%d%s, the live range convention requires data_[%r & mask_]"
                         % (fn.name, dtable.describe(e), cex[3], cex[0], cex[1], cex[2], (" i=%d" % cex[4]) if fn.params else "", Cursor(*want)), fn.loc)
            return
        ck.ok("ACCESSOR-CONVENTION", where, "returns the slot of the convention on every cursor position of buffers with mask 0..15")
        return
    ck.ok("ACCESSOR-CONVENTION", where, "returns data_[%r]" % slot)


def accessor_grid(fn, e, spec, index):
    """evaluates the returned expression (its data_ index if `index`) for every (begin_, end_, mask_, i) of small ring
    buffers: -> None if it always equals spec, else a counterexample (b, e, m, got, i); Undecidable if not evaluable"""
    from engine import skel
    ix = e
    if index:
        e0 = strip_casts(e)
        ip = match.index_parts(e0)
        if not ip or match.this_field(ip[0]) != "data_":
            d_ = match.deref_of(e0)
            pl = match.binop(d_, ("+",)) if d_ is not None else None
            if pl and match.this_field(pl[1]) == "data_":
                ix = pl[2]
            else:
                raise dtable.Undecidable("%s: returned element not understood: %s" % (fn.loc, dtable.describe(e)))
        else:
            ix = ip[1]
    M64_ = 2 ** 64
    for m_ in (0, 1, 3, 7, 15):
        for b_ in range(m_ + 1):
            for e_ in range(m_ + 1):
                for i_ in (range(m_ + 1) if fn.params else [0]):
                    env = {("field", "begin_"): b_, ("field", "end_"): e_, ("field", "mask_"): m_, ("field", "capacity_"): m_ + 1}
                    if fn.params:
                        env[fn.params[0]["did"]] = i_
                    sk = skel.Skel(fn, env, None, None)
                    got = sk.ev(ix)
                    if not isinstance(got, int):
                        raise dtable.Undecidable("%s: %s cannot be evaluated" % (fn.loc, dtable.describe(ix)))
                    got %= M64_
                    if got != spec(b_, e_, m_, i_) % M64_:
                        return (b_, e_, m_, got, i_)
    return None


def this_calls(fn, names):
    out = []
    for x in ir.walk(fn.body):
        if "callee" in x and (names is None or x["callee"]["name"] in names) and x.get("member_call") and kids(x):
            obj = strip_casts(kids(x)[0])
            if obj["k"] == "This":
                out.append(x)
    return out


def check_clear_before_free(ck, fn):
    g = cfgm.CFG(fn)
    deallocs = [x for x in ir.walk(fn.body) if "callee" in x and x["callee"]["name"] == "deallocate"
                and x.get("member_call") and match.this_field(kids(x)[0]) == "alloc_"]
    clears = this_calls(fn, ("clear",))
    pushes = this_calls(fn, ("push_back", "push_front", "emplace_back", "emplace_front"))
    for d in deallocs:
        pd = g.pos(d)
        ck.require(pd is not None, "%s: deallocate not in CFG" % fn.nloc(d))
        args = kids(d)[1:]
        if not (match.this_field(args[0]) == "data_" and match.this_field(args[1]) == "capacity_"):
            ck.violation("CLEAR-BEFORE-FREE", fn.qname, "dealloc-args", "deallocate is not called with (data_, capacity_): %s" % dtable.describe(d), fn.nloc(d))
            continue
        doms = [c for c in clears if g.pos(c) and g.dominates(g.pos(c), pd)]
        if not doms:
            ck.violation("CLEAR-BEFORE-FREE", fn.qname, "no-clear", "storage is released without destroying the live elements first (no clear() on every path to deallocate)", fn.nloc(d))
            continue
        bad = [p for p in pushes if g.pos(p) and any(g.reachable(g.pos(c), g.pos(p)) for c in doms) and g.reachable(g.pos(p), pd)]
        if bad:
            ck.violation("CLEAR-BEFORE-FREE", fn.qname, "push-between", "elements are inserted between clear() and deallocate", fn.nloc(bad[0]))
            continue
        # capacity_/data_ must still describe the block being released
        stale = []
        for x in ir.walk(fn.body):
            b = match.binop(x, ("=",))
            if b and match.this_field(b[1]) in ("capacity_", "data_") and g.pos(x) and g.reachable(g.pos(x), pd) and \
                    not any(g.pos(d2) and g.reachable(g.pos(x), g.pos(d2)) is False for d2 in []):
                # a write that reaches this deallocate without an intervening allocate
                stale.append(x)
        # writes after an earlier deallocate+allocate pair are fine only if they precede *another* deallocate; here
        # a write reaching this deallocate is stale unless it is followed by an allocate assigned to data_
        real = []
        for x in stale:
            fld = match.this_field(match.binop(x, ("=",))[1])
            rhs = match.binop(x, ("=",))[2]
            if fld == "data_" and match.call_named(rhs, ("allocate",)):
                continue
            if fld == "capacity_":
                # fine if data_ is re-allocated after it and before the deallocate
                re = [y for y in ir.walk(fn.body) if match.binop(y, ("=",)) and match.this_field(match.binop(y, ("=",))[1]) == "data_"
                      and match.call_named(match.binop(y, ("=",))[2], ("allocate",)) and g.pos(y)
                      and g.dominates(g.pos(x), g.pos(y)) and g.dominates(g.pos(y), pd)]
                if re:
                    continue
            real.append(x)
        if real:
            ck.violation("CLEAR-BEFORE-FREE", fn.qname, "stale-capacity", "%s is overwritten before the old block is released with it"
                         % match.this_field(match.binop(real[0], ("=",))[1]), fn.nloc(real[0]))
            continue
        ck.ok("CLEAR-BEFORE-FREE", "%s @%s" % (fn.qname, fn.nloc(d)), "clear() dominates deallocate(data_, capacity_), no insertion between")


FIELDS_MOVED = ("max_size_", "capacity_", "mask_", "data_", "begin_", "end_")


def field_writes(fn, objpred):
    """assignments (incl. ctor initialisers and chained a = b = 0) to fields of an object: {field: [rhs...]}"""
    out = {}
    for i in fn.inits:
        if i.get("field"):
            out.setdefault(("this", i["field"]), []).append(i["e"])
    for x in ir.walk(fn.body):
        b = match.binop(x, ("=",))
        if b:
            f = match.field_of(b[1])
            if f:
                base = strip_casts(f[0])
                who = "this" if base["k"] == "This" else (ref_of(base) if base["k"] == "DeclRefExpr" else None)
                if who is not None:
                    rhs = b[2]
                    # chained assignment: value is that of the innermost rhs
                    while match.binop(rhs, ("=",)):
                        rhs = match.binop(rhs, ("=",))[2]
                    out.setdefault((who, f[1]), []).append(rhs)
    return out


def check_moved(ck, fn):
    rb = fn.params[0]["did"]
    w = field_writes(fn, None)
    miss = [f for f in FIELDS_MOVED if ("this", f) not in w]
    if miss:
        ck.violation("MOVED-EMPTY", fn.qname, "takes:" + ",".join(miss), "move does not take over %s from the source" % miss, fn.loc)
        return
    for f in FIELDS_MOVED:
        rhs = w[("this", f)][-1]
        ff = match.field_of(rhs)
        if not (ff and ff[1] == f and ref_of(ff[0]) == rb):
            ck.violation("MOVED-EMPTY", fn.qname, "takes:" + f, "%s is not taken from the source's %s (%s)" % (f, f, dtable.describe(rhs)), fn.loc)
            return
    d = w.get((rb, "data_"))
    okd = d and (strip_casts(d[-1])["k"] == "NullPtr" or const_int(d[-1]) == 0)
    bg, en = w.get((rb, "begin_")), w.get((rb, "end_"))
    oke = bg and en and const_int(bg[-1]) is not None and const_int(bg[-1]) == const_int(en[-1])
    if not okd:
        ck.violation("MOVED-EMPTY", fn.qname, "src-data", "moved-from buffer keeps its data_ pointer (double ownership)", fn.loc)
        return
    if not oke:
        ck.violation("MOVED-EMPTY", fn.qname, "src-cursors", "moved-from buffer is not left empty (begin_ == end_)", fn.loc)
        return
    ck.ok("MOVED-EMPTY", fn.full.split("::")[-1] + ("(move-ctor)" if fn.kind == "ctor" else "(move-assign)"),
          "takes all 6 fields; source: data_=nullptr, begin_==end_")


def check_copy_loop(ck, fn, tu=None):
    """COPY-ELEMENTS: the copy constructor / copy assignment is evaluated on its skeleton for a source of n = 0..3 elements
    (both outcomes of every data-dependent branch): it must push_back(rb[0]) ... push_back(rb[n-1]) in this order, and the
    assignment must clear() before it resets its cursors"""
    from engine import skel
    rb = fn.params[0]["did"]
    bad = None
    for n in range(4):
        for choice in (True, False):
            pushed = []

            def event(e, sk, n=n):
                if "callee" in e and e.get("member_call") and kids(e):
                    obj = strip_casts(kids(e)[0])
                    nm = e["callee"]["name"]
                    if ref_of(obj) == rb or sk.lvalue(obj) == rb:
                        if nm in ("size",):
                            return n
                        if nm == "empty":
                            return n == 0
                        if nm in ("operator[]", "at") and len(kids(e)) == 2:
                            i_ = sk.ev(kids(e)[1])
                            return ("RB", i_) if isinstance(i_, int) else ("RB", "?")
                        return None
                    if obj["k"] == "This":
                        if nm in ("push_back", "emplace_back") and len(kids(e)) == 2:
                            pushed.append(sk.ev(kids(e)[1]))
                            return None
                        cal = sk.tu.by_did.get(e["callee"].get("did")) if sk.tu is not None else None
                        if cal is not None and any("callee" in y and y["callee"]["name"] in ("push_back", "emplace_back") for y in cal.nodes()):
                            return NotImplemented          # a helper that may hold the loop: let the skeleton enter it
                        return None                        # clear(), allocate(), ...: no element is copied there
                if e["k"] == "CXXOperatorCallExpr" and e.get("op") == "[]" and len(kids(e)) == 2 and (ref_of(kids(e)[0]) == rb or sk.lvalue(kids(e)[0]) == rb):
                    i_ = sk.ev(kids(e)[1])
                    return ("RB", i_) if isinstance(i_, int) else ("RB", "?")
                if e["k"] in ("BinaryOperator",) and e.get("op") in ("==", "!=") and any(strip_casts(x)["k"] == "This" for x in kids(e)):
                    return e["op"] == "!="                 # this != &rb
                return NotImplemented
            sk = skel.Skel(fn, {}, None, event, max_iter=16)
            sk.unknown_cond = lambda c, sk_, choice=choice: choice
            try:
                sk.run(kids(fn.body))
            except skel.Return:
                pass
            want = [("RB", i) for i in range(n)]
            if pushed != want and bad is None:
                bad = (n, pushed)
    if bad:
        n, pushed = bad
        ck.violation("COPY-ELEMENTS", fn.qname, "loop", "copy does not push_back(rb[i]) for every i in [0, rb.size()): a source of %d elements yields %s"
                     % (n, [("rb[%s]" % p[1]) if isinstance(p, tuple) and p and p[0] == "RB" else "?" for p in pushed]), fn.loc)
        return
    if fn.kind != "ctor":
        g = cfgm.CFG(fn)
        w = [x for x in ir.walk(fn.body) if match.binop(x, ("=",)) and match.this_field(match.binop(x, ("=",))[1]) in ("begin_", "end_")]
        cl = this_calls(fn, ("clear",))
        if not cl:
            raise dtable.Undecidable("%s: clear() of the old contents not found" % fn.loc)
        if not all(g.dominates(g.pos(cl[0]), g.pos_deep(x)) for x in w if g.pos_deep(x)):
            ck.violation("COPY-ELEMENTS", fn.qname, "reset-before-clear", "cursors are reset before the old elements were destroyed", fn.loc)
            return
    ck.ok("COPY-ELEMENTS", fn.qname + ("(copy-ctor)" if fn.kind == "ctor" else "(copy-assign)"), "push_back(rb[i]) for i in [0, rb.size()), sources of 0..3 elements")


def check_cursor_reset(ck, fn):
    """a function that installs a new mask_ (capacity change) must also re-establish both cursors:
    cursors left over from the old capacity may lie outside the new block"""
    w = field_writes(fn, None)
    if ("this", "mask_") not in w or fn.kind == "ctor":
        return
    src = w[("this", "mask_")][-1]
    ff = match.field_of(src)
    from_obj = ref_of(ff[0]) if ff and ff[1] == "mask_" else None
    missing = []
    for c in ("begin_", "end_"):
        r = w.get(("this", c))
        okc = False
        if r:
            v = r[-1]
            f2 = match.field_of(v)
            if const_int(v) == 0:
                okc = True
            elif from_obj is not None and f2 and f2[1] == c and ref_of(f2[0]) == from_obj:
                okc = True
        if not okc:
            missing.append(c)
    if missing:
        ck.violation("CURSOR-RESET", fn.qname, "mask-without:" + ",".join(missing),
                     "%s installs a new mask_/capacity but keeps the old %s: a cursor beyond the new capacity indexes outside the block"
                     % (fn.name, " and ".join(missing)), fn.loc)
    else:
        ck.ok("CURSOR-RESET", "%s(%s)" % (fn.qname, ",".join(p["ty"] for p in fn.params)), "new mask_ comes with begin_/end_ re-established")


def check_sv_coupled(ck, fn):
    """size_ and array_ describe one block: every write to one is accompanied on the same paths by a write of the other,
    with agreeing values (create_array(X) <-> X, nullptr <-> 0, both from the same source object)"""
    if fn.kind == "ctor":
        return
    g = cfgm.CFG(fn)
    writes = {"size_": [], "array_": []}
    for x in ir.walk(fn.body):
        b = match.binop(x, ("=",))
        if b:
            f = match.field_of(b[1])
            if f and f[1] in writes:
                base = strip_casts(f[0])
                who = "this" if base["k"] == "This" else ref_of(base)
                rhs = b[2]
                writes[f[1]].append((x, who, rhs))
        c = match.call_named(x, ("swap",))
        if c and len(kids(c)) == 2:
            fa, fb = match.field_of(kids(c)[0]), match.field_of(kids(c)[1])
            if fa and fb and fa[1] == fb[1] and fa[1] in writes:
                writes[fa[1]].append((x, "swap", None))
    if not writes["size_"] and not writes["array_"]:
        return
    def pos(x):
        return g.pos(x) or g.pos_deep(x)
    okall = True
    for a, b in (("size_", "array_"), ("array_", "size_")):
        for (x, who, rhs) in writes[a]:
            mates = [(y, w2, r2) for (y, w2, r2) in writes[b] if w2 == who and pos(y) and pos(x) and
                     (pos(y) == pos(x) or g.dominates(pos(y), pos(x)) or g.postdominates(pos(y), pos(x)))]
            if not mates:
                ck.violation("SV-COUPLED", fn.qname, "%s-without-%s" % (a, b),
                             "%s is changed on a path that does not change %s: the stored element count and the live block disagree "
                             "(elements stay constructed although no longer stored, or vice versa)" % (a, b), fn.nloc(x))
                okall = False
                continue
            if a == "size_" and who != "swap":
                y, _, r2 = mates[-1]
                ca = match.call_named(r2, ("create_array",))
                if ca is not None:
                    if not match.same_expr(kids(ca)[-1], rhs):
                        ck.violation("SV-COUPLED", fn.qname, "size-vs-create", "size_ = %s but the block is created with %s elements"
                                     % (dtable.describe(rhs), dtable.describe(kids(ca)[-1])), fn.nloc(x))
                        okall = False
                elif strip_casts(r2)["k"] == "NullPtr" or const_int(r2) == 0:
                    if const_int(rhs) != 0:
                        ck.violation("SV-COUPLED", fn.qname, "null-vs-size", "array_ = nullptr but size_ = %s" % dtable.describe(rhs), fn.nloc(x))
                        okall = False
    if okall:
        ck.ok("SV-COUPLED", "%s %s/%d" % (fn.qname, fn.kind, len(fn.params)), "%d size_ / %d array_ writes paired on all paths with agreeing values"
              % (len(writes["size_"]), len(writes["array_"])))


# ------------------------------------------------------------------ SimpleVector
def sv_mode(fn):
    m = fn.rtargs[1] if len(fn.rtargs) > 1 else ""
    return m.split("::")[-1]


def reached_in_switch(fn):
    """the nodes executed in this instantiation: branches whose condition is a compile-time constant (switch (Mode),
    if (Mode == ...), if constexpr) contribute only the side that is taken"""
    out = []

    class Done(Exception):
        pass

    def run(s):
        if s is None:
            return
        k = s["k"]
        if k == "CompoundStmt":
            for c in kids(s):
                run(c)
            return
        if k == "IfStmt":
            c = const_int(kids(s)[0])
            if c is None:
                out.extend(ir.walk(kids(s)[0]))
                for br in kids(s)[1:]:
                    try:
                        run(br)
                    except Done:
                        pass
                return
            run(kids(s)[1] if c else (kids(s)[2] if len(kids(s)) > 2 else None))
            return
        if k == "SwitchStmt":
            c = const_int(kids(s)[0])
            if c is None:
                raise dtable.Undecidable("%s: switch condition is not a compile-time constant" % fn.loc)
            from rules.c15 import flatten_switch
            flat = flatten_switch(kids(s)[1])
            pos = [i for i, e in enumerate(flat) if e[0] == "case" and e[1] == c] or [i for i, e in enumerate(flat) if e[0] == "default"]
            if pos:
                for e in flat[pos[0]:]:
                    if e[0] != "stmt":
                        continue
                    if e[1]["k"] == "BreakStmt":
                        return
                    run(e[1])
            return
        if k in ("ReturnStmt",):
            out.extend(ir.walk(s))
            raise Done()
        if k in ("ForStmt", "WhileStmt", "DoStmt"):
            out.append(s)
            init, cond, inc, body = match.loop_parts(s)
            for part in (init, cond, inc):
                if part is not None:
                    out.extend(ir.walk(part))
            try:
                run(body)
            except Done:
                pass
            return
        out.extend(ir.walk(s))
    try:
        run(fn.body)
    except Done:
        pass
    return out


def check_sv_modes(ck, tu):
    for mode in ("Normal", "NoInitButDestroy", "NoInitNoDestroy"):
        cr = [f for f in tu.find(name="create_array", record=SV) if sv_mode(f) == mode]
        de = [f for f in tu.find(name="destroy_array", record=SV) if sv_mode(f) == mode]
        ck.require(len(cr) == 1 and len(de) == 1, "SimpleVector<%s>: create/destroy_array not instantiated" % mode)
        cr, de = cr[0], de[0]
        alloc = set()
        for s in reached_in_switch(cr):
            for x in [s]:
                if x["k"] == "CXXNewExpr":
                    alloc.add("new[]" if x.get("array") else "new")
                elif "callee" in x and x["callee"]["name"] == "operator new":
                    alloc.add("operator new")
        free = set()
        dtor_loop = False
        for s in reached_in_switch(de):
            for x in [s]:
                if x["k"] == "CXXDeleteExpr":
                    free.add("delete[]" if x.get("array") else "delete")
                elif "callee" in x and x["callee"]["name"] == "operator delete":
                    free.add("operator delete")
                elif x["k"] in ("ForStmt", "WhileStmt"):
                    init, cond, inc, body = match.loop_parts(x)
                    has = any(("callee" in y and y["callee"]["name"].startswith("~")) or y["k"] == "CXXPseudoDestructorExpr"
                              or match.call_named(y, ("destroy_at",)) for y in ir.walk(body))
                    b = match.binop(cond, ("<", "!="))
                    full = bool(b and ref_of(b[2]) == de.params[1]["did"])
                    var = ref_of(b[1]) if b else None
                    decl0 = [y for y in de.nodes() if y["k"] == "VarDecl" and y.get("did") == var and kids(y) and const_int(kids(y)[0]) == 0]
                    wr = [y for y in de.nodes() if (match.unop(y, ("++", "--")) and ref_of(match.unop(y, ("++", "--"))[1]) == var) or
                          (y["k"] in ("BinaryOperator", "CompoundAssignOperator") and match.binop(y, ("=", "+=", "-=")) and ref_of(match.binop(y, ("=", "+=", "-="))[1]) == var)]
                    inside = {y["id"] for y in ir.walk(x)}
                    lo0 = bool(var is not None and decl0 and wr and all(y["id"] in inside and match.unop(y, ("++",)) for y in wr))
                    pass
                elif False:
                    pass
        # which elements get their destructor run explicitly: destroy_array(array, n) evaluated for n = 0..3
        from engine import skel
        BASE = 1000
        cover = []
        for n_ in range(4):
            hit = []

            def event(e, sk):
                is_dtor = ("callee" in e and e["callee"]["name"].startswith("~")) or e["k"] == "CXXPseudoDestructorExpr"
                if is_dtor and kids(e):
                    obj = kids(e)[0]
                    if obj["k"] == "MemberExpr" and kids(obj):
                        obj = kids(obj)[0] if not obj.get("arrow") else {"k": "UnaryOperator", "op": "*", "id": -41, "ch": [kids(obj)[0]]}
                    if e.get("arrow") and e["k"] == "CXXPseudoDestructorExpr":
                        obj = {"k": "UnaryOperator", "op": "*", "id": -42, "ch": [obj]}
                    key = sk.lvalue(obj)
                    if not (isinstance(key, tuple) and key[0] == "mem"):
                        a_ = sk.ev(obj)
                        key = ("mem", a_) if isinstance(a_, int) else None
                    hit.append(key[1] if key else None)
                    return None
                if "callee" in e and e["callee"]["name"] in ("destroy", "destroy_n", "destroy_at") and "std" in (e["callee"].get("qname") or ""):
                    a_ = [sk.ev(x) for x in kids(e)]
                    if e["callee"]["name"] == "destroy" and len(a_) == 2 and all(isinstance(x, int) for x in a_):
                        hit.extend(range(a_[0], a_[1]))
                    elif e["callee"]["name"] == "destroy_n" and len(a_) == 2 and all(isinstance(x, int) for x in a_):
                        hit.extend(range(a_[0], a_[0] + a_[1]))
                    elif e["callee"]["name"] == "destroy_at" and isinstance(a_[0], int):
                        hit.append(a_[0])
                    else:
                        hit.append(None)
                    return None
                return NotImplemented
            sk = skel.Skel(de, {de.params[0]["did"]: BASE, de.params[1]["did"]: n_}, None, event, max_iter=16)
            try:
                sk.run(kids(de.body))
            except skel.Return:
                pass
            cover.append((n_, hit))
        if any(None in h for _, h in cover):
            raise dtable.Undecidable("%s: object of an explicit destructor call not understood" % de.loc)
        if all(not h for _, h in cover):
            dtor_loop = False
        elif all(sorted(h) == list(range(BASE, BASE + n_)) for n_, h in cover):
            dtor_loop = True
        else:
            n_, h = [c for c in cover if sorted(c[1]) != list(range(BASE, BASE + c[0]))][0]
            ck.violation("SV-MODE-TABLE", de.qname, mode + ":loop-range", "destructor loop does not cover [0, size): for size %d it destroys elements %s"
                         % (n_, [x - BASE for x in h]), de.loc)
            continue
        pair = {"new[]": "delete[]", "operator new": "operator delete", "new": "delete"}
        sig = mode
        if len(alloc) != 1 or len(free) != 1 or pair.get(next(iter(alloc))) != next(iter(free)):
            ck.violation("SV-MODE-TABLE", de.qname, sig + ":pair", "mode %s allocates with %s but releases with %s" % (mode, sorted(alloc), sorted(free)), de.loc)
            continue
        want_loop = mode == "NoInitButDestroy"
        if dtor_loop != want_loop:
            ck.violation("SV-MODE-TABLE", de.qname, sig + ":dtor-loop",
                         "mode %s %s run the element destructors explicitly" % (mode, "must" if want_loop else "must not"), de.loc)
            continue
        if mode == "Normal" and alloc != {"new[]"}:
            ck.violation("SV-MODE-TABLE", cr.qname, sig + ":default-mode", "default mode must construct/destroy every element (new[]/delete[])", cr.loc)
            continue
        ck.ok("SV-MODE-TABLE", "SimpleVector<%s>" % mode, "%s <-> %s, destructor loop: %s" % (next(iter(alloc)), next(iter(free)), dtor_loop))


def check_sv_owner(ck, fn):
    """array_ must not be overwritten while it owns a block"""
    g = cfgm.CFG(fn)
    writes = []
    for x in ir.walk(fn.body):
        b = match.binop(x, ("=",))
        if b and match.this_field(b[1]) == "array_":
            writes.append(x)
    where = "%s %s" % (fn.qname, fn.kind)
    if fn.kind == "ctor":
        ck.ok("SV-OWNER", fn.full + "/%d" % len(fn.params), "constructor: nothing owned before", nontrivial=False)
        return True
    for wnode in writes:
        pw = g.pos(wnode)
        if pw is None:
            pw = g.pos_deep(wnode)
        # (a) destroy_array(array_, ...) dominates the write
        ok_a = False
        saved = None
        for x in ir.walk(fn.body):
            c = match.call_named(x, ("destroy_array",))
            if c and match.this_field(kids(c)[0]) == "array_" and g.pos(c) and g.dominates(g.pos(c), pw):
                ok_a = True
            if x["k"] == "VarDecl" and kids(x) and match.this_field(kids(x)[0]) == "array_":
                saved = x
        # (b) saved to a local that is destroyed on every path after the write
        ok_b = False
        if saved is not None:
            ds = [c for c in ir.walk(fn.body) if match.call_named(c, ("destroy_array",)) and ref_of(kids(c)[0]) == saved["did"]]
            # a path on which the saved pointer was tested null has nothing to destroy
            null_edges = []
            for y in ir.walk(fn.body):
                if y["k"] == "IfStmt":
                    pt = match.ptr_truth(kids(y)[0])
                    if pt is not None and ref_of(pt) == saved["did"]:
                        fe = g.false_edge_of(y["id"])
                        if fe:
                            null_edges.append(fe)
            if ds and all(g.pos(d) for d in ds) and g.path_avoiding(pw, [g.pos(d) for d in ds], blocked_edges=null_edges) is None:
                ok_b = True
        # (d) saved to a local that is handed to another object's array_ on every path after the write (exchange)
        ok_d = False
        if saved is not None:
            hand = []
            for y in ir.walk(fn.body):
                b_ = match.binop(y, ("=",))
                f_ = match.field_of(b_[1]) if b_ else None
                if b_ and f_ and f_[1] == "array_" and strip_casts(f_[0])["k"] != "This" and ref_of(b_[2]) == saved["did"]:
                    hand.append(y)
            ph = [g.pos_deep(h) for h in hand if g.pos_deep(h)]
            if ph and g.path_avoiding(pw, ph) is None:
                ok_d = True
        # (c) array_ known null on this path: write is in the false branch of if (array_)
        ok_c = False
        par = fn.parent(wnode)
        node = wnode
        while par is not None:
            if par["k"] == "IfStmt":
                cond = kids(par)[0]
                pt = match.ptr_truth(cond)
                if pt is not None and match.this_field(pt) == "array_" and kids(par)[2] is not None and \
                        any(y is node for y in ir.walk(kids(par)[2])):
                    ok_c = True
            node, par = par, fn.parent(par)
        if not (ok_a or ok_b or ok_c or ok_d):
            ck.violation("SV-OWNER", fn.qname, "overwrite", "array_ is overwritten while it may still own a block (old block neither destroyed nor saved)", fn.nloc(wnode))
            return False
    ck.ok("SV-OWNER", where, "%d writes to array_, old block destroyed/saved/known null at each" % len(writes))
    return True


def check_sv_resize(ck, fn):
    g = cfgm.CFG(fn)
    newp = fn.params[0]["did"]
    ok_all = True
    for x in ir.walk(fn.body):
        c = match.call_named(x, ("destroy_array",))
        if c and ref_of(kids(c)[0]) is not None:     # destroying the saved old block
            szarg = kids(c)[1]
            if match.this_field(szarg) != "size_":
                ck.violation("SV-RESIZE-ORDER", fn.qname, "old-size", "old block is destroyed with %s instead of the old size_" % dtable.describe(szarg), fn.nloc(c))
                ok_all = False
                continue
            # no write to size_ may reach the destroy
            for y in ir.walk(fn.body):
                b = match.binop(y, ("=",))
                if b and match.this_field(b[1]) == "size_" and g.pos(y) and g.pos(c) and g.reachable(g.pos(y), g.pos(c)):
                    ck.violation("SV-RESIZE-ORDER", fn.qname, "size-before-destroy", "size_ is updated before the old block is destroyed with it", fn.nloc(y))
                    ok_all = False
    # moved count = min(size_, new_size)
    for x in ir.walk(fn.body):
        c = match.call_named(x, ("move", "copy", "move_n", "copy_n", "uninitialized_move"))
        if c and len(kids(c)) == 3:
            last = kids(c)[1]
            b = match.binop(last, ("+",))
            if b:
                m = match.call_named(b[2], ("min",))
                if not (m and {match.this_field(kids(m)[0]) or ref_of(kids(m)[0]), match.this_field(kids(m)[1]) or ref_of(kids(m)[1])} == {"size_", newp}):
                    ck.violation("SV-RESIZE-ORDER", fn.qname, "move-count", "resize moves %s elements, must move min(size_, new_size)" % dtable.describe(b[2]), fn.nloc(c))
                    ok_all = False
    if ok_all:
        ck.ok("SV-RESIZE-ORDER", fn.full, "old block destroyed with the old size_; min(size_, new_size) elements carried over")


def check_sv_move(ck, fn):
    v = fn.params[0]["did"]
    w = field_writes(fn, None)
    a = w.get((v, "array_"))
    s = w.get((v, "size_"))
    if not (a and (strip_casts(a[-1])["k"] == "NullPtr" or const_int(a[-1]) == 0)):
        ck.violation("SV-OWNER", fn.qname, "src-array", "moved-from vector keeps its array_ (double ownership)", fn.loc)
        return
    if not (s and const_int(s[-1]) == 0):
        ck.violation("SV-OWNER", fn.qname, "src-size", "moved-from vector keeps a non-zero size_", fn.loc)
        return
    for f in ("array_", "size_"):
        r = w.get(("this", f))
        ff = match.field_of(r[-1]) if r else None
        if not (ff and ff[1] == f and ref_of(ff[0]) == v):
            ck.violation("SV-OWNER", fn.qname, "takes:" + f, "move does not take %s from the source" % f, fn.loc)
            return
    ck.ok("SV-OWNER", fn.full + (" move-ctor" if fn.kind == "ctor" else " move-assign"), "takes (size_, array_), source nulled")


def check_capacity(ck, fn):
    """wherever the ring's capacity is computed it must exceed the promised max_size by at least one slot: begin_ == end_ means
    empty, so a ring with capacity == max_size looks empty when it is full"""
    sites = []
    for i in fn.inits:
        if i.get("field") == "capacity_" or i.get("name") == "capacity_" or i.get("init") == "capacity_":
            if i.get("e") is not None:
                sites.append(i["e"])
    for x in fn.nodes():
        b = match.binop(x, ("=",)) if x["k"] == "BinaryOperator" else None
        if b and match.this_field(b[1]) == "capacity_":
            sites.append(b[2])
    n = 0
    for e in sites:
        calls = [z for z in ir.walk(e) if "callee" in z and z["callee"]["name"] == "round_up_to_power_of_two"]
        if not calls:
            continue          # copied from another ring / zero
        n += 1
        arg = strip_casts(kids(calls[0])[0])
        b = match.binop(arg, ("+",))
        base = b[1] if b else arg
        extra = const_int(b[2]) if b else 0
        is_max = ir.ref_name(base) == "max_size" or match.this_field(base) == "max_size_"
        tag = "%s::%s" % (fn.record.split("::")[-1], fn.name)
        if not is_max:
            raise dtable.Undecidable("%s: capacity is not computed from the maximum size: %s" % (fn.nloc(calls[0]), dtable.describe(arg)))
        if extra is None or extra < 1:
            ck.violation("CAPACITY-SPARE-SLOT", fn.qname, "%s:%s" % (fn.name, dtable.describe(arg)),
                         "the capacity is round_up_to_power_of_two(%s): for a max_size that is a power of two the ring has exactly max_size slots, a full ring "
                         "has end_ == begin_ and reports size() == 0 (elements are then leaked and overwritten)" % dtable.describe(arg), fn.nloc(calls[0]))
        else:
            ck.ok("CAPACITY-SPARE-SLOT", "%s [%s]" % (tag, dtable.describe(arg)), "capacity > max_size")
    return n


def run(ck):
    ck.explanation = (
        "RingBuffer: each primitive mutator is reduced to its ordered effects (construct slot / destroy slot / cursor update) "
        "with slot indices evaluated symbolically as begin_/end_ + offset relative to the pre-state; the slot constructed or "
        "destroyed must be exactly the slot that enters or leaves the live range [begin_, end_), and the accessors must index "
        "the same convention (all wrapped by the mask). Storage release must be dominated by clear(); moves must take all fields "
        "and leave the source empty and non-owning; copies must push_back every source element. SimpleVector: the instantiated "
        "switch(Mode) tables of create_array/destroy_array must pair, array_ must never be overwritten while owning, resize must "
        "destroy the old block with the old size. Histories (deque equivalence) are not decided.")
    types = ["std::string"] if ck.tier == "quick" else ["std::string", "std::vector<int>"]
    for t in types:
        for nd in ([True] if ck.tier == "quick" else [True, False]):
            tu = ir.extract("witness/C16_ring_simple.cpp", defines=["WITNESS_T=" + t], ndebug=nd)
            for fn in tu.find(record=RB):
                if fn.name in EXPECT:
                    check_mutator(ck, fn)
                elif fn.name in ("front", "back", "operator[]", "size"):
                    check_accessor(ck, fn)
                if any("callee" in x and x["callee"]["name"] == "deallocate" for x in ir.walk(fn.body)):
                    check_clear_before_free(ck, fn)
                if fn.d.get("move_ctor") or fn.d.get("move_assign"):
                    check_moved(ck, fn)
                if fn.d.get("copy_ctor") or fn.d.get("copy_assign"):
                    check_copy_loop(ck, fn, tu)
                check_cursor_reset(ck, fn)
                check_capacity(ck, fn)
            if nd:
                check_sv_modes(ck, tu)
                for fn in tu.find(record=SV):
                    if sv_mode(fn) != "Normal":
                        continue
                    has_w = any(match.binop(x, ("=",)) and match.this_field(match.binop(x, ("=",))[1]) == "array_" for x in ir.walk(fn.body))
                    if has_w and not (fn.d.get("move_ctor")):
                        check_sv_owner(ck, fn)
                    if fn.name == "resize":
                        check_sv_resize(ck, fn)
                    check_sv_coupled(ck, fn)
                    if fn.d.get("move_ctor") or fn.d.get("move_assign"):
                        check_sv_move(ck, fn)
    n = len(types) * (1 if ck.tier == "quick" else 2)
    ck.floor("SLOT-CURSOR", 8 * n)
    ck.floor("ACCESSOR-CONVENTION", 7 * n)
    ck.floor("CLEAR-BEFORE-FREE", 4 * n)
    ck.floor("MOVED-EMPTY", 2 * n)
    ck.floor("COPY-ELEMENTS", 2 * n)
    ck.floor("SV-MODE-TABLE", 3 * len(types))
    ck.floor("SV-OWNER", 5 * len(types))
    ck.floor("SV-RESIZE-ORDER", 1 * len(types))
    ck.floor("SV-COUPLED", 4 * len(types))
    ck.floor("CURSOR-RESET", 2 * n)
    ck.floor("CAPACITY-SPARE-SLOT", 3 * n)
