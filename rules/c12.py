"""C12 — CountingPtr: reference-count conservation by path-sensitive effect summaries
over a finite alias model; ReferenceCounter atomic-RMW rules.

Verdict policy of this file: every violation is a concrete counterexample of an evaluation — a scenario of the abstract
run (Interp) in which a count, a pointer or a destruction is wrong, or a counter value for which a ReferenceCounter member
(CounterRun) computes the wrong result / performs the wrong sequence of atomic operations.  Both evaluators are closed
world: a statement, expression, call, initialiser or atomic operation they do not model exactly raises dtable.Undecidable
(exit 2), never a violation.  Nothing is concluded from the absence of a syntactic shape; locals, parameters and the two
data members (PTR_FIELD, COUNT_FIELD) are identified by role and type, not by name.

Concurrent clause (release decision in CountingPtr): every sequential scenario is re-run with ONE step of another owner of
the same object (it drops or copies its own handle; when its decrement reaches zero it destroys the object) placed just before
each operation on the shared counter.  A member that decides the destruction from an earlier look at the count instead of from
the result of its own dec_reference() leaks (or touches a destroyed object) in one of these runs; that run is the
counterexample.  Each written call of the pointee's dec_reference() must have been the last decrement in such a run."""
import itertools

from engine import ir, dtable, match
from engine.ir import kids, const_int

CP = "tlx::CountingPtr"
RC = "tlx::ReferenceCounter"
NULL = "null"
UNINIT = "uninit"

PTR_FIELD = ["ptr_"]          # the pointer field of CountingPtr: its one data member of pointer type, whatever its name
CASTS = ("ImplicitCastExpr", "CStyleCastExpr", "CXXStaticCastExpr", "CXXFunctionalCastExpr", "CXXReinterpretCastExpr",
         "CXXConstCastExpr", "ParenExpr")
CONSTRUCTS = ("CXXConstructExpr", "CXXTemporaryObjectExpr")
LVALUE_KINDS = ("MemberExpr", "DeclRefExpr", "This")


def sc(n):
    """looks through casts and parentheses ONLY (a copy/move construction of a CountingPtr is an operation of its own here)"""
    while n is not None and n["k"] in CASTS and kids(n):
        n = kids(n)[0]
    return n


def is_cp_ty(ty):
    ty = (ty or "").strip()
    return ty.startswith("tlx::CountingPtr<") or ty.startswith("const tlx::CountingPtr<")


def is_ref_ty(ty):
    return (ty or "").rstrip().endswith("&")


def is_assert(s):
    """the expansion of assert(): cond ? void(0) : __assert_fail(...)"""
    return s is not None and s["k"] == "ConditionalOperator" and \
        any(c.get("callee", {}).get("noreturn") for c in ir.walk(s) if "callee" in c)


def resolve_ptr_field(tu):
    names = set()
    for r in tu.records:
        if r["qname"] != CP:
            continue
        ptrs = [f for f in r["fields"] if f["ty"].rstrip().endswith("*")]
        if len(ptrs) != 1:
            raise dtable.Undecidable("CountingPtr: the pointer field is not unique (%s)" % [f["name"] for f in r["fields"]])
        names.add(ptrs[0]["name"])
    if len(names) != 1:
        raise dtable.Undecidable("CountingPtr: the pointer field is not unique (%s)" % sorted(names))
    PTR_FIELD[0] = names.pop()


class Bad(Exception):
    """a conservation / lifetime violation detected during the abstract run"""

    def __init__(self, sig, msg):
        self.sig, self.msg = sig, msg
        self.step = None         # the concurrent step of another owner that was interleaved with the run, if any


class Store:
    def __init__(self):
        self.h = {}          # handle name -> pointer value (NULL / object name)
        self.count = {}      # object -> reference count
        self.deleted = {}    # object -> number of deleter invocations
        self.fresh = 0
        self.ntemp = 0
        self.alive_handles = set()
        # the concurrent clause: one step of ANOTHER owner (a handle outside the member) interleaved with the member
        self.ext = {}            # object -> number of owners outside the member (the environment)
        self.borrowed = set()    # objects whose raw pointer was passed in: the caller keeps them alive until they are adopted
        self.points = 0          # interleaving points passed so far: the operations on a shared counter, and delete
        self.inj = None          # (index of the point, "release" | "acquire", object): the environment's one step
        self.inj_done = None     # description of the step once it has been taken (False: it was not enabled there)
        self.inj_site = None     # the call node just before which it was taken
        self.zero_at = {}        # object -> (text, loc) of the member's own decrement that reached zero
        self.env_deleted = set() # objects destroyed by the other owner (its release was the last one)
        self.dec_last = set()    # dec_reference() call nodes that were the last decrement right after an injected release
        self.owned = {}          # handle name -> object that holds this handle as a member (a list node's `next`)
        self.dead_handles = set()  # handles whose owning object has been destroyed: their storage is gone

    def object_destroyed(self, o):
        """the pointee's destructor runs: the handles it holds as members are released, as ~CountingPtr would (the member
        honours the result of its decrement), and their storage dies with the object"""
        for h, owner in list(self.owned.items()):
            if owner != o or h not in self.alive_handles:
                continue
            self.alive_handles.discard(h)
            self.dead_handles.add(h)
            t = self.h.get(h)
            if t in self.count and t != o:
                self.count[t] -= 1
                if self.count[t] < 0:
                    raise Bad("underflow", "reference count of %s drops below zero when the handle held by %s is released" % (t, o))
                if self.count[t] == 0:
                    self.deleted[t] = self.deleted.get(t, 0) + 1
                    self.object_destroyed(t)

    def env_step(self, where, site):
        """the environment's step.  An owner outside the member may drop or copy ITS handle at any time; when its decrement
        reaches zero it destroys the object (it honours the result of its own decrement)."""
        k, kind, o = self.inj
        self.inj_done = False
        if self.ext.get(o, 0) <= 0 or self.deleted.get(o, 0) or self.count.get(o, 0) < 1:
            return
        if kind == "release":
            if self.count[o] == 1 and o in self.borrowed:
                return               # the caller of a raw-pointer member guarantees the object outlives the call
            self.count[o] -= 1
            self.ext[o] -= 1
            if self.count[o] == 0:
                self.deleted[o] = self.deleted.get(o, 0) + 1
                self.env_deleted.add(o)
                self.object_destroyed(o)
            self.inj_done = "another owner of %s releases its reference %s" % (o, where)
        else:
            self.count[o] += 1
            self.ext[o] += 1
            self.inj_done = "another owner of %s copies its handle %s" % (o, where)
        self.inj_site = site

    def new_obj(self):
        self.fresh += 1
        o = "NEW%d" % self.fresh
        self.count[o] = 0
        self.deleted[o] = 0
        return o


class Frame:
    def __init__(self, fn, this):
        self.fn = fn
        self.this = this
        self.env = {}
        self.temps = []
        self.locals = []         # named CountingPtr locals, destroyed where their scope ends


class Ret(Exception):
    def __init__(self, v):
        self.v = v


class Brk(Exception):
    pass


class Cont(Exception):
    pass


class Interp:
    """abstract interpreter for the CountingPtr members: pointer values are drawn from a finite set,
    counters are small integers, handles are named cells.  Whatever it does not model exactly is Undecidable."""

    def __init__(self, tu, st):
        self.tu = tu
        self.st = st
        self.depth = 0
        self.steps = 0

    def und(self, fr, n, what):
        return dtable.Undecidable("%s: %s: %s" % (fr.fn.nloc(n), what, dtable.describe(n)))

    def point(self, n, fr):
        """an interleaving point: the environment's step (if one is scheduled here) happens just before operation n.  Steps of
        another owner touch only the shared counter, so they commute with everything else the member does; placing them
        immediately before each counter operation (and each delete) represents every interleaving of one such step."""
        st = self.st
        k = st.points
        st.points += 1
        if st.inj is not None and st.inj_done is None and st.inj[0] == k:
            st.env_step("just before %s at %s" % (dtable.describe(n), fr.fn.nloc(n)), id(n))

    # -------------------------------------------------------------- values
    def lval(self, n, fr):
        """location: ('ptr', handle) | ('handle', name) | ('var', did, frame) | ('handleptr', name)"""
        n = sc(n)
        k = n["k"]
        if k == "This":
            return ("handleptr", fr.this)
        if k == "MemberExpr" and n["member"] == PTR_FIELD[0]:
            return ("ptr", self.handle_of_base(n, fr))
        if k == "DeclRefExpr":
            v = fr.env.get(n["ref"]["id"])
            if isinstance(v, tuple) and v[0] == "handle":
                return v
            if isinstance(v, tuple) and v[0] == "ref":
                return v[1]
            return ("var", n["ref"]["id"], fr)
        if k == "UnaryOperator" and n["op"] == "*":
            v = self.rval(kids(n)[0], fr)
            if isinstance(v, tuple) and v[0] == "addr":
                return ("handle", v[1])
            if isinstance(v, tuple) and v[0] == "addrof":
                return v[1]
            return ("obj", v)
        if "callee" in n and n["callee"]["name"] in ("move", "forward", "as_const") and "std" in n["callee"]["qname"]:
            return self.lval(kids(n)[-1], fr)
        if "callee" in n:
            v = self.rval(n, fr)
            if isinstance(v, tuple) and v[0] == "handle":
                return v
        raise self.und(fr, n, "lvalue not understood")

    def handle_of_base(self, m, fr):
        """the handle whose pointer field the MemberExpr m names (h.ptr_ / p->ptr_ / this->ptr_)"""
        b = kids(m)[0]
        if m.get("arrow"):
            pv = self.rval(b, fr)
            if isinstance(pv, tuple) and pv[0] == "addr" and pv[1] is not None:
                return pv[1]
            raise self.und(fr, m, "not a pointer to a CountingPtr handle")
        return self.handle_of(b, fr)

    def handle_of(self, n, fr):
        n = sc(n)
        if n["k"] == "This":
            return fr.this
        lv = self.lval(n, fr)
        if lv[0] == "handle":
            return lv[1]
        raise self.und(fr, n, "not a CountingPtr handle")

    def load(self, lv, fr, n):
        if lv[0] == "ptr":
            if lv[1] in self.st.dead_handles:
                raise Bad("use-after-release", "the argument handle is read after the release of the old object, which owns that "
                          "handle and has just been destroyed (h = h->next)")
            return self.st.h[lv[1]]
        if lv[0] == "var":
            v = lv[2].env.get(lv[1])
            if v is None:
                raise self.und(fr, n, "variable read before it is set")
            return v
        if lv[0] == "handle":
            return lv
        raise self.und(fr, n, "location not understood")

    def rval(self, n, fr):
        self.steps += 1
        if self.steps > 5000:
            raise dtable.Undecidable("abstract run too long in %s" % fr.fn.full)
        n = sc(n)
        k = n["k"]
        st = self.st
        if k == "NullPtr" or k == "GNUNullExpr":
            return NULL
        c = const_int(n)
        if c is not None and k in ("IntegerLiteral", "CXXBoolLiteralExpr"):
            return c
        if k == "This":
            return ("addr", fr.this)
        if k == "MemberExpr" and n["member"] == PTR_FIELD[0]:
            hn = self.handle_of_base(n, fr)
            if hn in st.dead_handles:
                raise Bad("use-after-release", "the argument handle is read after the release of the old object, which owns that "
                          "handle and has just been destroyed (h = h->next)")
            return st.h[hn]
        if k == "MemberExpr" and n["member"] in ("first", "second") and n.get("owner") == "std::pair" and not n.get("arrow"):
            pv = self.rval(kids(n)[0], fr)
            if isinstance(pv, tuple) and pv[0] == "valtuple" and len(pv[1]) == 2:
                return pv[1][0 if n["member"] == "first" else 1]
            raise self.und(fr, n, "pair not understood")
        if k == "DeclRefExpr":
            v = fr.env.get(n["ref"]["id"])
            if v is None:
                raise dtable.Undecidable("%s: unknown variable %s" % (fr.fn.nloc(n), n["ref"]["name"]))
            if isinstance(v, tuple) and v[0] == "ref":
                return self.load(v[1], fr, n)
            return v
        if k == "UnaryOperator":
            op = n["op"]
            if op == "!":
                return not self.truth(kids(n)[0], fr)
            if op == "&":
                lv = self.lval(kids(n)[0], fr)
                if lv[0] == "handle":
                    return ("addr", lv[1])
                if lv[0] in ("ptr", "var"):
                    return ("addrof", lv)
            if op == "*":
                v = self.rval(kids(n)[0], fr)
                if isinstance(v, tuple) and v[0] == "addr":
                    return ("handle", v[1])
                if isinstance(v, tuple) and v[0] == "addrof":
                    return self.load(v[1], fr, n)
                return ("objref", v)
        if k == "BinaryOperator":
            op = n["op"]
            if op in ("&&", "||"):
                a = self.truth(kids(n)[0], fr)
                if op == "&&":
                    return a and self.truth(kids(n)[1], fr)
                return a or self.truth(kids(n)[1], fr)
            if op in ("==", "!="):
                a, b = self.rval(kids(n)[0], fr), self.rval(kids(n)[1], fr)
                for x in (a, b):
                    if x == UNINIT:
                        raise self.und(fr, n, "comparison of an uninitialised pointer")
                    if x is None or (isinstance(x, tuple) and x[0] not in ("addr", "handle")):
                        raise self.und(fr, n, "comparison operand not understood")
                if not isinstance(a, bool) and a == 0:
                    a = NULL
                if not isinstance(b, bool) and b == 0:
                    b = NULL
                if isinstance(a, bool) != isinstance(b, bool):
                    a, b = self.as_bool(a, fr, n), self.as_bool(b, fr, n)
                return (a == b) if op == "==" else (a != b)
            if op in ("<", "<=", ">", ">="):
                a, b = self.rval(kids(n)[0], fr), self.rval(kids(n)[1], fr)
                if any(isinstance(x, bool) or not isinstance(x, int) for x in (a, b)):
                    raise self.und(fr, n, "ordering comparison of non-integers")     # pointer order is not modelled
                return {"<": a < b, "<=": a <= b, ">": a > b, ">=": a >= b}[op]
            if op == "=":
                v = self.rval(kids(n)[1], fr)
                self.assign(self.lval(kids(n)[0], fr), v, fr, n)
                return v
            if op == ",":
                self.rval(kids(n)[0], fr)
                return self.rval(kids(n)[1], fr)
        if k == "ConditionalOperator":
            c0, a, b = kids(n)
            return self.rval(a if self.truth(c0, fr) else b, fr)
        if k == "CXXNewExpr":
            if n.get("array") or n.get("placement"):
                raise self.und(fr, n, "array / placement new is not modelled")
            # constructor arguments have no effect on counts (RC-COPY-ZERO): a new pointee starts unowned
            return st.new_obj()
        if k == "CXXDeleteExpr":
            v = self.rval(kids(n)[0], fr)
            if v == NULL:
                return None
            if not isinstance(v, str) or v == UNINIT:
                raise self.und(fr, n, "deleted pointer not understood")
            self.point(n, fr)
            st.deleted[v] = st.deleted.get(v, 0) + 1
            if st.count.get(v, 0) != 0:
                raise Bad("delete-live", "object deleted while its reference count is %d" % st.count[v])
            st.object_destroyed(v)
            return None
        if k in CONSTRUCTS and n["callee"].get("record") == CP:
            st.ntemp += 1
            name = "tmp%d" % st.ntemp
            self.construct(name, n, fr)
            fr.temps.append(name)
            return ("handle", name)
        if k in CONSTRUCTS:
            # deleter / other value objects
            return ("value", n["callee"].get("record"))
        if k in ("CXXScalarValueInitExpr", "ImplicitValueInitExpr") or (k == "InitListExpr" and not kids(n)):
            ty = n.get("ty") or ""
            if ty == "void":
                return None
            if ty.rstrip().endswith("*"):
                return NULL
            if ty in ("bool", "int", "unsigned int", "long", "unsigned long", "size_t", "std::size_t"):
                return 0
            raise self.und(fr, n, "value initialisation of this type is not modelled")
        if k == "InitListExpr" and len(kids(n)) == 1 and not is_cp_ty(n.get("ty")):
            return self.rval(kids(n)[0], fr)
        if "callee" in n:
            return self.call(n, fr)
        raise self.und(fr, n, "expression not understood")

    def as_bool(self, v, fr, n):
        if isinstance(v, bool):
            return v
        if isinstance(v, int):
            return v != 0
        if v == NULL:
            return False
        if v == UNINIT:
            raise self.und(fr, n, "truth value of an uninitialised pointer")
        if isinstance(v, str):
            return True
        raise self.und(fr, n, "condition value not understood")

    def truth(self, n, fr):
        return self.as_bool(self.rval(n, fr), fr, n)

    def assign(self, lv, v, fr, n):
        if lv[0] == "ptr":
            if isinstance(v, tuple) or isinstance(v, bool) or v is None:
                raise self.und(fr, n, "value stored into the pointer field not understood")
            if lv[1] in self.st.dead_handles:
                raise Bad("use-after-release", "the argument handle is written after the release of the old object, which owns that "
                          "handle and has just been destroyed (h = std::move(h->next))")
            self.st.h[lv[1]] = NULL if v == 0 else v
        elif lv[0] == "var":
            lv[2].env[lv[1]] = v
        else:
            raise dtable.Undecidable("%s: assignment target not understood" % fr.fn.nloc(n))

    # -------------------------------------------------------------- calls
    def construct(self, name, n, fr):
        ctor = self.tu.by_did.get(n["callee"]["did"])
        if ctor is None or ctor.body is None:
            raise dtable.Undecidable("%s: constructor body not in IR: %s" % (fr.fn.nloc(n), n["callee"]["qname"]))
        args = self.bind_args(ctor, kids(n), fr, n)
        self.st.h[name] = UNINIT
        self.st.alive_handles.add(name)
        self.invoke(ctor, name, args, fr)
        if self.st.h.get(name) == UNINIT:
            raise Bad("uninit", "constructor leaves the pointer uninitialised")

    def argval(self, a, fr, pty=None):
        a0 = sc(a)
        ty = a0.get("ty", "")
        if is_cp_ty(ty):
            lv = self.lval(a0, fr) if a0["k"] not in CONSTRUCTS else None
            if lv is None:
                v = self.rval(a0, fr)
                return v
            if lv[0] == "handle":
                return lv
            if lv[0] == "handleptr":
                return ("handle", lv[1])
        if pty is not None and is_ref_ty(pty) and not is_cp_ty(pty):
            # a reference parameter aliases the argument
            if a0["k"] in ("MemberExpr", "DeclRefExpr") or (a0["k"] == "UnaryOperator" and a0.get("op") == "*"):
                lv = self.lval(a0, fr)
                if lv[0] in ("ptr", "var"):
                    return ("ref", lv)
                if lv[0] == "handle":
                    return lv
                raise self.und(fr, a0, "reference argument not understood")
        return self.rval(a, fr)

    def bind_args(self, callee, argn, fr, n):
        if len(argn) != len(callee.params):
            raise self.und(fr, n, "arity mismatch calling %s" % callee.full)
        return [self.argval(a, fr, p["ty"]) for a, p in zip(argn, callee.params)]

    def invoke(self, fn, this, args, caller):
        self.depth += 1
        try:
            if self.depth > 8:
                raise dtable.Undecidable("inlining bound exceeded at %s" % fn.full)
            if fn.body is None:
                raise dtable.Undecidable("body of %s not in IR" % fn.full)
            fr = Frame(fn, this)
            if len(args) != len(fn.params):
                raise dtable.Undecidable("arity mismatch calling %s" % fn.full)
            for p, v in zip(fn.params, args):
                fr.env[p["did"]] = v
            for i in fn.inits:
                e = i.get("e")
                if i.get("delegating"):
                    e0 = sc(e)
                    tgt = self.tu.by_did.get(e0["callee"]["did"]) if e0 is not None and e0["k"] in CONSTRUCTS else None
                    if tgt is None or tgt.record != fn.record:
                        raise dtable.Undecidable("%s: delegating constructor not understood" % fn.loc)
                    self.invoke(tgt, this, self.bind_args(tgt, kids(e0), fr, e0), fr)
                    self.flush_temps(fr)
                elif i.get("field") == PTR_FIELD[0] and fn.record == CP:
                    if e is not None and e["k"] == "CXXDefaultInitExpr" and kids(e):
                        e = kids(e)[0]           # the default member initialiser (emitted by the extractor as the child)
                    if e is None or e["k"] == "CXXDefaultInitExpr":
                        raise dtable.Undecidable("%s: default member initialiser of %s is not in the IR" % (fn.loc, PTR_FIELD[0]))
                    v = self.rval(e, fr)
                    self.assign(("ptr", this), v, fr, e)
                    self.flush_temps(fr)
                elif fn.record == CP:
                    raise dtable.Undecidable("%s: initialiser of %s not understood" % (fn.loc, i.get("field") or i.get("base")))
                # initialisers of other records (deleters, ...) carry no pointer state
            try:
                self.stmt(fn.body, fr)
                r = None
            except Ret as e:
                r = e.v
            except (Brk, Cont):
                raise dtable.Undecidable("%s: break/continue outside a loop" % fn.loc)
            return r
        finally:
            self.depth -= 1

    def call(self, n, fr):
        c = n["callee"]
        name = c["name"]
        st = self.st
        args = kids(n)
        std = c["qname"].startswith("std::")
        if name in ("move", "forward", "as_const") and std:
            lv = self.lval(args[-1], fr)
            return lv if lv[0] == "handle" else self.load(lv, fr, n)
        if name == "addressof" and std:
            lv = self.lval(args[-1], fr)
            if lv[0] == "handle":
                return ("addr", lv[1])
            if lv[0] in ("ptr", "var"):
                return ("addrof", lv)
            raise self.und(fr, n, "std::addressof operand not understood")
        if name == "swap" and std and len(args) == 2:
            la, lb = self.lval(args[0], fr), self.lval(args[1], fr)
            if la[0] in ("ptr", "var") and lb[0] in ("ptr", "var"):
                va, vb = self.load(la, fr, n), self.load(lb, fr, n)
                self.assign(la, vb, fr, n)
                self.assign(lb, va, fr, n)
                return None
            raise dtable.Undecidable("%s: std::swap on unexpected operands" % fr.fn.nloc(n))
        if name == "exchange" and std and len(args) == 2:
            la = self.lval(args[0], fr)
            if la[0] in ("ptr", "var"):
                old = self.load(la, fr, n)
                v = self.rval(args[1], fr)
                self.assign(la, v, fr, n)
                return old
            raise dtable.Undecidable("%s: std::exchange on unexpected operands" % fr.fn.nloc(n))
        # std::tie / std::make_pair / std::make_tuple and the element-wise tuple assignment
        if name == "tie" and std and args:
            if not all(self.pure(a) for a in args):
                raise self.und(fr, n, "std::tie of operands with side effects")
            lvs = tuple(self.lval(a, fr) for a in args)
            if any(lv[0] not in ("ptr", "var") for lv in lvs):
                raise self.und(fr, n, "std::tie operand not understood")
            return ("reftuple", lvs)
        if name in ("make_pair", "make_tuple") and std and args:
            if not all(self.pure(a) for a in args):
                raise self.und(fr, n, "%s of operands with side effects (their evaluation order is unspecified)" % name)
            vals = tuple(self.rval(a, fr) for a in args)
            if any(isinstance(v, tuple) or isinstance(v, bool) or v is None or v == UNINIT for v in vals):
                raise self.und(fr, n, "%s operand not understood" % name)
            return ("valtuple", vals)
        if name == "operator=" and c.get("record") in ("std::tuple", "std::pair") and len(args) == 2:
            return self.tuple_assign(n, args, fr)
        # pointee protocol
        if n.get("member_call") and c.get("record") != CP and name in ("inc_reference", "dec_reference", "unique", "reference_count"):
            o = self.rval(args[0], fr)
            if isinstance(o, tuple) and o[0] == "objref":
                o = o[1]
            if o == NULL:
                raise Bad("null-deref", "%s() is called through a null pointer" % name)
            if not isinstance(o, str) or o == UNINIT or o not in st.count:
                raise self.und(fr, n, "pointee of the call not understood")
            self.point(n, fr)
            if st.deleted.get(o, 0) > 0:
                raise Bad("use-after-delete", "%s() on an object that was already destroyed%s" %
                          (name, " (the other owner's release was the last one and destroyed it: the member no longer holds a "
                           "reference at this point)" if o in st.env_deleted else ""))
            if name == "inc_reference":
                st.count[o] += 1
                return None
            if name == "dec_reference":
                if st.count[o] <= 0:
                    raise Bad("underflow", "reference count of a live object decremented below zero")
                st.count[o] -= 1
                if st.count[o] == 0:
                    st.zero_at[o] = (dtable.describe(n), fr.fn.nloc(n))
                    if st.inj_done and st.inj[1] == "release" and st.inj[2] == o and st.inj_site == id(n):
                        st.dec_last.add(id(n))
                return st.count[o] == 0
            if name == "unique":
                return st.count[o] == 1
            return st.count[o]
        callee = self.tu.by_did.get(c["did"])
        if callee is not None and (callee.record == CP or callee.qname.startswith("tlx::")):
            if n.get("member_call") or (n["k"] == "CXXOperatorCallExpr" and callee.record):
                objn = args[0]
                if callee.record == CP:
                    o0 = sc(objn)
                    if n.get("arrow") and o0["k"] != "This":
                        pv = self.rval(objn, fr)
                        if not (isinstance(pv, tuple) and pv[0] == "addr"):
                            raise self.und(fr, n, "object of the member call not understood")
                        this = pv[1]
                    else:
                        this = self.handle_of(objn, fr)
                else:
                    self.rval(objn, fr)
                    this = None
                argv = self.bind_args(callee, args[1:], fr, n)
            else:
                this = None
                argv = self.bind_args(callee, args, fr, n)
            r = self.invoke(callee, this, argv, fr)
            rty = callee.d.get("ret", "")
            if is_cp_ty(rty) and not is_ref_ty(rty):
                # a handle returned by value is a temporary of the calling full-expression
                if not (isinstance(r, tuple) and r[0] == "handle"):
                    raise self.und(fr, n, "returned handle not understood")
                fr.temps.append(r[1])
            return r
        raise self.und(fr, n, "call not understood")

    PURE_KINDS = CASTS + ("MemberExpr", "DeclRefExpr", "This", "NullPtr", "GNUNullExpr", "IntegerLiteral", "CXXBoolLiteralExpr")
    PURE_STD = ("move", "forward", "as_const", "addressof", "tie", "make_pair", "make_tuple")

    def pure(self, n):
        """the expression only names / reads locations and values: evaluating it has no effect, so the (unspecified) order in
        which it is evaluated relative to its siblings cannot matter"""
        for x in ir.walk(n):
            if "callee" in x:
                if x["callee"]["name"] in self.PURE_STD and (x["callee"].get("qname") or "").startswith("std::"):
                    continue
                return False
            if x["k"] in self.PURE_KINDS:
                continue
            if x["k"] == "UnaryOperator" and x.get("op") in ("*", "&"):
                continue
            return False
        return True

    def tuple_assign(self, n, args, fr):
        """std::tie(a, b, ...) = std::make_pair(x, y) / std::make_tuple(...) / std::tie(...): element-wise assignment"""
        if not (self.pure(args[0]) and self.pure(args[1])):
            raise self.und(fr, n, "tuple assignment of operands with side effects")
        rhs = self.rval(args[1], fr)
        lhs = self.rval(args[0], fr)
        if not (isinstance(lhs, tuple) and lhs[0] == "reftuple"):
            raise self.und(fr, n, "target of the tuple assignment is not a std::tie of understood locations")
        if not (isinstance(rhs, tuple) and rhs[0] in ("valtuple", "reftuple")) or len(rhs[1]) != len(lhs[1]):
            raise self.und(fr, n, "source of the tuple assignment not understood")
        if rhs[0] == "reftuple":
            # the elements are read while the assignment proceeds: exact only if no target is also a source
            if set(lhs[1]) & set(rhs[1]):
                raise self.und(fr, n, "tuple of references assigned from an overlapping tuple of references")
            vals = tuple(self.load(lv, fr, n) for lv in rhs[1])
        else:
            vals = rhs[1]
        if any(isinstance(v, tuple) or isinstance(v, bool) or v is None or v == UNINIT for v in vals):
            raise self.und(fr, n, "element of the assigned tuple not understood")
        seen = {}
        for lv, v in zip(lhs[1], vals):
            if lv in seen and seen[lv] != v:
                # the same location is named twice and would receive different values: the result depends on the element order
                raise self.und(fr, n, "std::tie names one location twice with different values")
            seen[lv] = v
        for lv, v in zip(lhs[1], vals):
            self.assign(lv, v, fr, n)
        return lhs

    # -------------------------------------------------------------- statements
    def flush_temps(self, fr):
        while fr.temps:
            t = fr.temps.pop()
            self.destroy_handle(t, fr)

    def destroy_handle(self, name, fr):
        dt = [f for f in self.tu.functions if f.kind == "dtor" and f.record == CP]
        if not dt:
            raise dtable.Undecidable("CountingPtr destructor not in IR")
        self.invoke(dt[0], name, [], fr)
        self.st.alive_handles.discard(name)
        self.st.h.pop(name, None)

    def declare(self, v, fr):
        if v is None:
            return
        if v["k"] in ("TypedefDecl", "TypeAliasDecl", "StaticAssertDecl", "UsingDecl", "UsingDirectiveDecl", "EmptyDecl"):
            return
        if v["k"] != "VarDecl":
            raise self.und(fr, v, "declaration not understood")
        if not kids(v) or kids(v)[0] is None:
            if is_cp_ty(v.get("ty")):
                raise self.und(fr, v, "handle declared without initialiser")
            return                      # set later by an assignment; reading it first is Undecidable
        init = kids(v)[0]
        ty = v.get("ty") or ""
        if (v.get("isref") or is_ref_ty(ty)) and not is_cp_ty(ty):
            i0 = sc(init)
            if i0["k"] in ("MemberExpr", "DeclRefExpr") or (i0["k"] == "UnaryOperator" and i0.get("op") == "*"):
                lv = self.lval(i0, fr)          # a reference local aliases what it is bound to
                if lv[0] in ("ptr", "var"):
                    fr.env[v["did"]] = ("ref", lv)
                    return
                if lv[0] == "obj" and isinstance(lv[1], str) and lv[1] not in (NULL, UNINIT):
                    fr.env[v["did"]] = ("objref", lv[1])          # a reference to the pointee itself
                    return
                if lv[0] != "handle":
                    raise self.und(fr, v, "reference binding not understood")
        val = self.rval(init, fr)
        if isinstance(val, tuple) and val[0] == "handle" and val[1] in fr.temps and is_cp_ty(ty) and not is_ref_ty(ty):
            fr.temps.remove(val[1])          # a named handle lives to the end of its scope
            fr.locals.append(val[1])
        elif is_cp_ty(ty) and not is_ref_ty(ty):
            raise self.und(fr, v, "initialisation of a named handle not understood")
        elif isinstance(val, tuple) and val[0] == "handle" and val[1] in fr.temps:
            fr.temps.remove(val[1])          # a temporary bound to a reference lives as long as the reference
            fr.locals.append(val[1])
        fr.env[v["did"]] = val

    def cond(self, s, fr):
        """evaluates the condition of an if/while/for including its init statement / condition variable"""
        if isinstance(s.get("init"), dict):
            self.stmt(s["init"], fr)
        if isinstance(s.get("condvar"), dict):
            self.declare(s["condvar"], fr)
            self.flush_temps(fr)

    def loop(self, s, fr):
        k = s["k"]
        if "init" in s or "condvar" in s:
            raise self.und(fr, s, "loop with a condition variable")
        init, cnd, inc, body = match.loop_parts(s)
        mark = len(fr.locals)
        try:
            if init is not None:
                self.stmt(init, fr)
            first = True
            while True:
                if not (k == "DoStmt" and first):
                    if cnd is not None:
                        v = self.truth(cnd, fr)
                        self.flush_temps(fr)
                        if not v:
                            break
                first = False
                try:
                    self.stmt(body, fr)
                except Brk:
                    break
                except Cont:
                    pass
                if inc is not None:
                    self.rval(inc, fr)
                    self.flush_temps(fr)
                self.steps += 1
                if self.steps > 5000:
                    raise dtable.Undecidable("abstract run too long in %s" % fr.fn.full)
        finally:
            while len(fr.locals) > mark:
                self.destroy_handle(fr.locals.pop(), fr)

    def stmt(self, s, fr):
        if s is None:
            return
        k = s["k"]
        if k == "CompoundStmt":
            mark = len(fr.locals)
            try:
                for c in kids(s):
                    self.stmt(c, fr)
            finally:
                while len(fr.locals) > mark:
                    self.destroy_handle(fr.locals.pop(), fr)
            return
        if k == "IfStmt":
            mark = len(fr.locals)
            try:
                self.cond(s, fr)
                c, t, e = (kids(s) + [None, None])[:3]
                v = self.truth(c, fr)
                self.flush_temps(fr)
                self.stmt(t if v else e, fr)
            finally:
                while len(fr.locals) > mark:
                    self.destroy_handle(fr.locals.pop(), fr)
            return
        if k in ("WhileStmt", "ForStmt", "DoStmt"):
            self.loop(s, fr)
            return
        if k == "BreakStmt":
            raise Brk()
        if k == "ContinueStmt":
            raise Cont()
        if k == "ReturnStmt":
            v = None
            if kids(s) and kids(s)[0] is not None:
                e = sc(kids(s)[0])
                rty = fr.fn.d.get("ret", "")
                if is_cp_ty(rty) and not is_ref_ty(rty):
                    # the returned handle is an object of its own: constructed here, or the callee's elided temporary
                    if e["k"] in CONSTRUCTS and e["callee"].get("record") == CP:
                        self.st.ntemp += 1
                        name = "ret%d" % self.st.ntemp
                        self.construct(name, e, fr)
                        v = ("handle", name)
                    else:
                        v = self.rval(e, fr)
                        if isinstance(v, tuple) and v[0] == "handle" and v[1] in fr.temps:
                            fr.temps.remove(v[1])
                        else:
                            raise self.und(fr, s, "returned handle not understood")
                else:
                    v = self.rval(kids(s)[0], fr)
            self.flush_temps(fr)
            raise Ret(v)
        if k == "NullStmt":
            return
        if k in ("CXXStaticCastExpr", "CStyleCastExpr", "CXXFunctionalCastExpr") and s.get("ty") == "void" and \
                not any("callee" in x or x["k"] in ("BinaryOperator", "UnaryOperator", "CompoundAssignOperator", "CXXNewExpr", "CXXDeleteExpr")
                        for x in ir.walk(s)):
            return                      # (void)x;
        if is_assert(s):
            return                      # assert()
        if k == "DeclStmt":
            for v in kids(s):
                self.declare(v, fr)
                self.flush_temps(fr)
            return
        self.rval(s, fr)
        self.flush_temps(fr)


# ---------------------------------------------------------------------------------
def scenarios(fn):
    """pre-states: (this_ptr, other kind, other_ptr, ext counts)"""
    is_ctor = fn.kind == "ctor"
    is_cp_param = bool(fn.params) and "tlx::CountingPtr<" in fn.params[0]["ty"]
    raw_param = bool(fn.params) and fn.params[0]["ty"].endswith("*") and not is_cp_param
    this_vals = [None] if is_ctor else [NULL, "A"]
    out = []
    for tp in this_vals:
        if is_cp_param:
            others = [("handle", NULL), ("handle", "A"), ("handle", "B")]
            if not is_ctor:
                others.append(("self", None))
            if fn.name == "operator=" and tp == "A":
                # the argument is a handle held by the object this handle points to (list traversal: h = h->next)
                others += [("owned", "B"), ("owned", NULL)]
        elif raw_param:
            others = [("raw", NULL), ("raw", "A")]
        elif fn.params and fn.params[0]["ty"] == "std::nullptr_t":
            others = [("nullptr", None)]
        else:
            others = [(None, None)]
        for ok, ov in others:
            for ea, eb in itertools.product((0, 1), (0, 1)):
                out.append((tp, ok, ov, ea, eb))
    return out


def run_scenario(tu, fn, sc, inj=None):
    """inj: (k, kind, object) - one step of an owner outside the member, taken just before the k-th interleaving point
    (after the member has finished if it passes fewer points)"""
    tp, ok, ov, ea, eb = sc
    for p in fn.params[:1]:
        if is_cp_ty(p["ty"]) and not is_ref_ty(p["ty"]):
            raise dtable.Undecidable("%s: handle parameter passed by value (the caller's copy is not part of the member)" % fn.loc)
    if len(fn.params) > 1:
        raise dtable.Undecidable("%s: member with %d parameters is not modelled" % (fn.loc, len(fn.params)))
    st = Store()
    for o in ("A", "B"):
        st.count[o] = 0
        st.deleted[o] = 0
    ext = st.ext = {"A": ea, "B": eb}
    st.inj = inj
    pre_handles = {"A": ea, "B": eb}
    if fn.kind != "ctor":
        st.h["this"] = tp
        st.alive_handles.add("this")
        if tp != NULL:
            pre_handles[tp] += 1
    args = []
    if ok == "handle":
        st.h["other"] = ov
        st.alive_handles.add("other")
        if ov != NULL:
            pre_handles[ov] += 1
        args = [("handle", "other")]
    elif ok == "owned":
        st.h["other"] = ov
        st.alive_handles.add("other")
        st.owned["other"] = tp
        if ov != NULL:
            pre_handles[ov] += 1
        args = [("handle", "other")]
    elif ok == "self":
        args = [("handle", "this")]
    elif ok == "raw":
        args = [ov]
        # a raw pointer to an object nobody owns yet is the normal use; A with ext handles also allowed
        if ov != NULL:
            st.borrowed.add(ov)
    elif ok == "nullptr":
        args = [NULL]
    for o in ("A", "B"):
        st.count[o] = pre_handles[o]
    if fn.kind == "ctor":
        st.h["this"] = UNINIT
        st.alive_handles.add("this")
    try:
        it = Interp(tu, st)
        fr0 = Frame(fn, "this")
        it.invoke(fn, "this", args, fr0)
        if inj is not None and st.inj_done is None:
            st.env_step("after the member's last count operation", None)
        if fn.kind == "ctor" and st.h.get("this") == UNINIT:
            # every initialiser and statement of the constructor was understood and none of them sets the pointer
            raise Bad("uninit", "constructor leaves the pointer uninitialised")
        if fn.kind == "dtor":
            st.alive_handles.discard("this")
            st.h.pop("this", None)
        # post-state accounting
        for o in list(st.count):
            nh = ext.get(o, 0) + sum(1 for h in st.alive_handles if st.h.get(h) == o)
            if st.deleted.get(o, 0) > 1:
                raise Bad("double-delete", "object %s is destroyed %d times" % (o, st.deleted[o]))
            if st.deleted.get(o, 0) == 1:
                if nh > 0:
                    raise Bad("deleted-while-owned", "object %s is destroyed although %d handle(s) still point to it" % (o, nh))
                continue
            if st.count[o] != nh:
                raise Bad("count-mismatch", "reference count of %s is %d but %d handle(s) point to it" % (o, st.count[o], nh))
            if nh == 0 and (pre_handles.get(o, 0) > 0 or o.startswith("NEW")):
                # last owner gone (or a fresh object never adopted) but not destroyed
                z = st.zero_at.get(o)
                raise Bad("leak", "object %s lost its last handle but was not destroyed%s" %
                          (o, "" if z is None else ": %s at %s returned true (it was the last reference) but that result does not "
                           "lead to the deleter" % z))
    except Bad as b:
        b.step = st.inj_done or None
        raise
    return st


def describe_sc(sc):
    tp, ok, ov, ea, eb = sc
    return "this=%s other=%s:%s ext(A)=%d ext(B)=%d" % (tp, ok, ov, ea, eb)


def member_label(fn):
    ps = ",".join(p["ty"].replace("tlx::CountingPtr", "CP") for p in fn.params)
    return "%s(%s)" % (fn.name, ps)


def role_obligations(fn, sc, st, concurrent=False):
    """what the member is for, beyond conservation: where the handles point afterwards"""
    tp, ok, ov, ea, eb = sc
    nonself_move = fn.d.get("move_assign") or (fn.name == "operator=" and fn.params and "&&" in fn.params[0]["ty"])
    try:
        if fn.name == "operator=" or (fn.kind == "ctor" and ok == "handle"):
            src_ptr = tp if ok == "self" else NULL if ok == "nullptr" else ov
            if st.h.get("this") != src_ptr:
                raise Bad("wrong-target", "after the operation the handle points to %s instead of the source's object %s" % (st.h.get("this"), src_ptr))
        if fn.kind == "ctor" and ok == "raw" and st.h.get("this") != ov:
            raise Bad("wrong-target", "handle does not point to the adopted pointer")
        if fn.name == "reset" and st.h.get("this") != NULL:
            raise Bad("reset-not-null", "reset() leaves a non-null pointer")
        if fn.name == "swap" and ok == "handle" and (st.h["this"], st.h["other"]) != (ov, tp):
            raise Bad("swap-exchange", "swap does not exchange the two pointers")
        if (fn.kind == "ctor" and ok == "handle" and "&&" in fn.params[0]["ty"]) and st.h["other"] != NULL:
            raise Bad("move-source", "moved-from handle is not null after move construction")
        if nonself_move and ok == "handle" and ov != tp and st.h["other"] != NULL:
            raise Bad("move-source", "moved-from handle is not null after move assignment")
        if fn.name == "unify" and not concurrent:
            # (with a concurrent step whether the object "is shared" depends on the moment; conservation is what is checked then)
            shared = tp != NULL and (1 + (ea if tp == "A" else 0)) > 1
            cloned = st.h["this"] not in (tp,)
            if shared != cloned:
                raise Bad("unify-guard", "unify() %s although the object %s shared" %
                          ("clones" if cloned else "does not clone", "is" if shared else "is not"))
    except Bad as b:
        b.step = st.inj_done or None
        raise


def pointee_dec_sites(tu):
    """every call of the pointee's dec_reference() written in a member of CountingPtr<Base>"""
    out = []
    for fn in tu.find(record=CP):
        if fn.rtargs[:1] != ["Base"]:
            continue
        for x in fn.nodes():
            if "callee" in x and x.get("member_call") and x["callee"].get("record") != CP and x["callee"]["name"] == "dec_reference":
                out.append((fn, x))
    return out


def check_members(ck, tu):
    resolve_ptr_field(tu)
    n = 0
    dec_last = set()
    violated = False
    for fn in tu.find(record=CP):
        if fn.rtargs[:1] != ["Base"]:
            continue
        if fn.kind in ("ctor", "dtor") or fn.name in ("operator=", "reset", "swap", "unify"):
            label = member_label(fn)
            scs = scenarios(fn)
            bad = None
            base_points = {}
            for sc in scs:
                try:
                    st = run_scenario(tu, fn, sc)
                    role_obligations(fn, sc, st)
                    base_points[sc] = st.points
                except Bad as b:
                    bad = (sc, b, None)
                    break
            ck.states += len(scs)
            # the concurrent clause.  Every sequential scenario holds; now ONE step of another owner of the same object (it
            # drops or copies its own handle; if its decrement reaches zero it destroys the object) is interleaved at every
            # point where the member operates on a shared counter.  A decision taken from an earlier look at the count
            # (unique(), reference_count(), a previous result) is stale there: only the result of the member's own
            # dec_reference() says whether that decrement was the last one.
            nconc = 0
            if not bad:
                for sc in scs:
                    for o, e in (("A", sc[3]), ("B", sc[4])):
                        if not e:
                            continue
                        for k in range(base_points[sc] + 1):
                            for kind in ("release", "acquire"):
                                try:
                                    st = run_scenario(tu, fn, sc, inj=(k, kind, o))
                                    nconc += 1
                                    if st.inj_done:
                                        role_obligations(fn, sc, st, concurrent=True)
                                        dec_last.update(st.dec_last)
                                except Bad as b:
                                    bad = (sc, b, (k, kind, o))
                                    break
                            if bad:
                                break
                        if bad:
                            break
                    if bad:
                        break
                ck.states += nconc
            if bad:
                sc, b, inj = bad
                if inj is None:
                    ck.violation("RC-CONSERVE", fn.qname, "%s:%s" % (label, b.sig),
                                 "%s in scenario [%s]" % (b.msg, describe_sc(sc)), fn.loc)
                else:
                    ck.violation("RC-CONSERVE", fn.qname, "%s:%s/concurrent" % (label, b.sig),
                                 "%s in scenario [%s; %s]" % (b.msg, describe_sc(sc), b.step or "a concurrent step of another owner"),
                                 fn.loc)
                violated = True
            else:
                ck.ok("RC-CONSERVE", "CountingPtr<Base>::" + label,
                      "%d alias/ownership scenarios (+%d with one concurrent step of another owner): count == #handles, "
                      "destroyed exactly when the last handle goes" % (len(scs), nconc),
                      sample=dict(rule="RC-CONSERVE", member=label, scenarios=len(scs), concurrent=nconc, example=describe_sc(scs[-1])))
            n += 1
    # RELEASE DECISION at every call of the pointee's dec_reference(): in some run above the call was the last decrement
    # although the count was 2 an instant earlier (another owner released just before it), and the object was destroyed
    # exactly once.  A call site that no checked member reaches in that situation is not established.
    if not violated:
        for fn, x in pointee_dec_sites(tu):
            if id(x) not in dec_last:
                raise dtable.Undecidable(
                    "%s: %s in %s: no scenario of the checked members makes this call the last decrement right after another "
                    "owner's release; whether its own result decides the destruction is not established"
                    % (fn.nloc(x), dtable.describe(x), fn.full))
            ck.ok("RC-CONSERVE", "%s at %s" % (dtable.describe(x), fn.nloc(x)),
                  "the call's own result decides the destruction: last decrement right after another owner's release -> destroyed once")
    # free functions
    for fn in tu.find(qname="tlx::make_counting"):
        try:
            st = Store()
            it = Interp(tu, st)
            r = it.invoke(fn, None, [], Frame(fn, None))
            if not (isinstance(r, tuple) and r[0] == "handle" and r[1] in st.h):
                raise dtable.Undecidable("%s: value returned by make_counting not understood" % fn.loc)
            objs = [o for o in st.count if o.startswith("NEW")]
            owners = [h for h in st.alive_handles if st.h.get(h) in objs]
            if len(objs) != 1 or st.count[objs[0]] != 1 or st.h.get(r[1]) != objs[0] or st.deleted[objs[0]] or owners != [r[1]]:
                raise Bad("make", "make_counting does not return the single owner of the new object (%s)" %
                          "; ".join("%s: count %d, destroyed %d times, handles %s" %
                                    (o, st.count[o], st.deleted[o], sorted(h for h in st.alive_handles if st.h.get(h) == o)) for o in objs))
            ck.ok("RC-CONSERVE", "make_counting", "new object owned by exactly the returned handle (count 1)")
        except Bad as b:
            ck.violation("RC-CONSERVE", fn.qname, "make:" + b.sig, b.msg, fn.loc)
    for fn in tu.find(qname="tlx::swap"):
        try:
            st = Store()
            st.h = {"a": "A", "b": "B"}
            st.count = {"A": 1, "B": 1}
            st.deleted = {"A": 0, "B": 0}
            st.alive_handles = {"a", "b"}
            Interp(tu, st).invoke(fn, None, [("handle", "a"), ("handle", "b")], Frame(fn, None))
            if (st.h["a"], st.h["b"]) != ("B", "A") or st.count != {"A": 1, "B": 1}:
                raise Bad("swap", "free swap does not exchange the handles without touching the counts")
            ck.ok("RC-CONSERVE", "swap(CountingPtr&, CountingPtr&)", "exchanges pointers, counts unchanged")
        except Bad as b:
            ck.violation("RC-CONSERVE", fn.qname, "freeswap:" + b.sig, b.msg, fn.loc)


# ---------------------------------------------------------------------------------
ORDERS = {0: "relaxed", 1: "consume", 2: "acquire", 3: "release", 4: "acq_rel", 5: "seq_cst"}
COUNT_FIELD = ["reference_count_"]       # the counter field of ReferenceCounter: its one integral data member, whatever its name
INDET = "indeterminate"                  # a counter that no initialiser has given a value
U64 = 1 << 64


def resolve_count_field(tu):
    rec = tu.record(RC)
    flds = [f for f in rec["fields"] if any(t in f["ty"] for t in ("atomic", "size_t", "unsigned", "long", "int"))]
    if len(flds) != 1:
        raise dtable.Undecidable("ReferenceCounter: the counter field is not unique (%s)" % [f["name"] for f in rec["fields"]])
    COUNT_FIELD[0] = flds[0]["name"]
    return flds[0]


class Val:
    """an integer / boolean with its provenance: which atomic reads of the counter it was computed from"""

    def __init__(self, v, src=frozenset()):
        self.v, self.src = v, frozenset(src)


class CRet(Exception):
    def __init__(self, v):
        self.v = v


class CFrame:
    def __init__(self, fn, this):
        self.fn, self.this, self.env = fn, this, {}


class CounterRun:
    """concrete run of a ReferenceCounter member over small counter values.  Closed world: every expression that reaches
    the counter field must be one of the std::atomic operations below, everything else is Undecidable.
    trace: the atomic operations in execution order."""

    def __init__(self, tu, cells):
        self.tu = tu
        self.cells = dict(cells)          # object name -> counter value | INDET
        self.trace = []
        self.pc = frozenset()             # provenance of the branch decisions taken so far
        self.steps = 0
        self.depth = 0

    def und(self, fr, n, what):
        return dtable.Undecidable("%s: %s: %s" % (fr.fn.nloc(n), what, dtable.describe(n)))

    # ---------------------------------------------------------- the counter
    def obj_of(self, b, fr):
        """name of the ReferenceCounter object an expression denotes"""
        b0 = sc(b)
        if b0["k"] == "This":
            return fr.this
        if b0["k"] == "UnaryOperator" and b0.get("op") == "*" and sc(kids(b0)[0])["k"] == "This":
            return fr.this
        if b0["k"] == "DeclRefExpr":
            v = fr.env.get(b0["ref"]["id"])
            if isinstance(v, tuple) and v[0] == "obj":
                return v[1]
        raise self.und(fr, b, "ReferenceCounter object not understood")

    def cell_of(self, n, fr):
        """the object whose counter field n names, or None"""
        n = sc(n)
        if n is None:
            return None
        if n["k"] == "MemberExpr" and n["member"] == COUNT_FIELD[0] and kids(n):
            return self.obj_of(kids(n)[0], fr)
        if n["k"] == "DeclRefExpr":
            v = fr.env.get(n["ref"]["id"])
            if isinstance(v, tuple) and v[0] == "cell":
                return v[1]
        return None

    def order(self, args, i, fr, n):
        a = [x for x in args if x is not None and x["k"] != "DefaultArg"]
        if len(a) <= i:
            return 5
        o = const_int(a[i])
        if o is None or o not in ORDERS:
            raise self.und(fr, n, "memory order is not a constant")
        return o

    def cur(self, cell, fr, n):
        v = self.cells.get(cell)
        if not isinstance(v, int):
            raise self.und(fr, n, "counter is read before it has a value")
        return v

    def atomic(self, n, cell, fr):
        c = n["callee"]
        name, op = c["name"], n.get("op")
        args = kids(n)[1:]
        real = [x for x in args if x is not None and x["k"] != "DefaultArg"]
        idx = len(self.trace)

        def ev(kind, before, after, order, what):
            self.trace.append(dict(kind=kind, cell=cell, before=before, after=after, order=order, what=what, idx=idx))
        if op is None and name.startswith("operator ") and not real:          # conversion to the value type
            v = self.cur(cell, fr, n)
            ev("load", v, v, 5, "implicit load")
            return Val(v, [("load", idx)])
        if name == "load" and op is None:
            v = self.cur(cell, fr, n)
            ev("load", v, v, self.order(args, 0, fr, n), "load()")
            return Val(v, [("load", idx)])
        if (name == "store" and op is None and real) or (op == "=" and len(real) == 1):
            x = self.value(real[0], fr)
            ev("store", self.cells.get(cell), x.v, self.order(args, 1, fr, n) if name == "store" else 5, "store")
            self.cells[cell] = int(x.v) % U64
            return x if op == "=" else None
        if name in ("fetch_add", "fetch_sub") and real:
            amt = self.value(real[0], fr).v
            old = self.cur(cell, fr, n)
            new = (old + amt if name == "fetch_add" else old - amt) % U64
            ev("rmw", old, new, self.order(args, 1, fr, n), "%s(%d)" % (name, amt))
            self.cells[cell] = new
            return Val(old, [("rmw", idx)])
        if op in ("++", "--") and name in ("operator++", "operator--"):
            old = self.cur(cell, fr, n)
            new = (old + (1 if op == "++" else -1)) % U64
            post = len(kids(n)) == 2
            ev("rmw", old, new, 5, "%s%s" % (op, " (postfix)" if post else ""))
            self.cells[cell] = new
            return Val(old if post else new, [("rmw", idx)])
        if op in ("+=", "-=") and len(real) == 1:
            amt = self.value(real[0], fr).v
            old = self.cur(cell, fr, n)
            new = (old + amt if op == "+=" else old - amt) % U64
            ev("rmw", old, new, 5, "%s %d" % (op, amt))
            self.cells[cell] = new
            return Val(new, [("rmw", idx)])
        if name == "exchange" and op is None and real:
            x = self.value(real[0], fr)
            old = self.cur(cell, fr, n)
            ev("rmw", old, int(x.v) % U64, self.order(args, 1, fr, n), "exchange(%d)" % x.v)
            self.cells[cell] = int(x.v) % U64
            return Val(old, [("rmw", idx)])
        raise self.und(fr, n, "atomic operation on the counter is not modelled")

    # ---------------------------------------------------------- expressions
    def value(self, n, fr):
        v = self.expr(n, fr)
        if not isinstance(v, Val):
            raise self.und(fr, n, "value not understood")
        return v

    def expr(self, n, fr):
        self.steps += 1
        if self.steps > 4000:
            raise dtable.Undecidable("run of %s too long" % fr.fn.full)
        n0 = n
        n = sc(n)
        if n is None:
            raise dtable.Undecidable("%s: empty expression" % fr.fn.loc)
        k = n["k"]
        c = const_int(n0)
        if c is None:
            c = const_int(n)
        if c is not None and not any("callee" in x for x in ir.walk(n)):
            return Val(c)
        if k == "This":
            return ("objptr", fr.this)
        if k == "DeclRefExpr":
            v = fr.env.get(n["ref"]["id"])
            if v is None:
                raise self.und(fr, n, "unknown variable")
            if isinstance(v, tuple) and v[0] == "local":
                v = v[1].env.get(v[2])
                if v is None:
                    raise self.und(fr, n, "variable read before it is set")
            return v
        if k == "MemberExpr":
            cell = self.cell_of(n, fr)
            if cell is not None:
                return ("cell", cell)
            raise self.und(fr, n, "member not understood")
        if "callee" in n:
            return self.call(n, fr)
        if k == "UnaryOperator":
            op = n["op"]
            if op == "*":
                v = self.expr(kids(n)[0], fr)
                if isinstance(v, tuple) and v[0] == "objptr":
                    return ("obj", v[1])
                raise self.und(fr, n, "dereference not understood")
            if op in ("++", "--"):
                did, f2 = self.local_target(kids(n)[0], fr, n)
                old = f2.env.get(did)
                if not isinstance(old, Val):
                    raise self.und(fr, n, "operand not understood")
                new = Val(self.wrap(old.v + (1 if op == "++" else -1), n), old.src)
                f2.env[did] = new
                return old if n.get("postfix") else new
            x = self.value(kids(n)[0], fr)
            if op == "!":
                return Val(not x.v, x.src)
            if op == "-":
                return Val(self.wrap(-x.v, n), x.src)
            if op == "+":
                return x
            raise self.und(fr, n, "operator not modelled")
        if k in ("BinaryOperator", "CompoundAssignOperator"):
            op = n["op"]
            l, r = kids(n)
            if op == "&&" or op == "||":
                a = self.value(l, fr)
                if bool(a.v) == (op == "||"):
                    return Val(op == "||", a.src)
                b = self.value(r, fr)
                return Val(bool(b.v), a.src | b.src)
            if op == ",":
                self.expr(l, fr)
                return self.expr(r, fr)
            if op == "=":
                x = self.value(r, fr)
                did, f2 = self.local_target(l, fr, n)
                f2.env[did] = x
                return x
            if op.endswith("=") and op[:-1] in ("+", "-", "*") and k == "CompoundAssignOperator":
                x = self.value(r, fr)
                did, f2 = self.local_target(l, fr, n)
                old = f2.env.get(did)
                if not isinstance(old, Val):
                    raise self.und(fr, n, "operand not understood")
                new = Val(self.arith(op[:-1], old.v, x.v, n, fr), old.src | x.src)
                f2.env[did] = new
                return new
            a, b = self.value(l, fr), self.value(r, fr)
            return Val(self.arith(op, a.v, b.v, n, fr), a.src | b.src)
        if k == "ConditionalOperator":
            c0, a, b = kids(n)
            cv = self.value(c0, fr)
            x = self.expr(a if cv.v else b, fr)
            return Val(x.v, x.src | cv.src) if isinstance(x, Val) else x
        raise self.und(fr, n, "expression not understood")

    def wrap(self, v, n):
        ty = n.get("ty") or ""
        if isinstance(v, bool) or not isinstance(v, int):
            return v
        if v < 0 and ("unsigned" in ty or "size_t" in ty):
            return v % U64
        return v

    def arith(self, op, a, b, n, fr):
        a, b = int(a), int(b)
        if op == "+":
            return self.wrap(a + b, n)
        if op == "-":
            return self.wrap(a - b, n)
        if op == "*":
            return self.wrap(a * b, n)
        table = {"==": a == b, "!=": a != b, "<": a < b, "<=": a <= b, ">": a > b, ">=": a >= b}
        if op in table:
            return table[op]
        raise self.und(fr, n, "operator not modelled")

    def local_target(self, n, fr, at):
        n = sc(n)
        if n is not None and n["k"] == "DeclRefExpr":
            did = n["ref"]["id"]
            v = fr.env.get(did)
            if isinstance(v, tuple) and v[0] == "local":
                return v[2], v[1]
            if isinstance(v, tuple):
                raise self.und(fr, at, "assignment target not understood")
            if n["ref"].get("kind") in ("local", "param"):
                return did, fr
        raise self.und(fr, at, "assignment target not understood")

    def call(self, n, fr):
        c = n["callee"]
        q = c.get("qname") or ""
        args = kids(n)
        if c["name"] in ("atomic_thread_fence", "atomic_signal_fence") and q.startswith("std::"):
            if c["name"] == "atomic_thread_fence":
                self.trace.append(dict(kind="fence", cell=None, order=self.order(args, 0, fr, n), idx=len(self.trace), what="fence"))
            return None
        if args:
            cell = self.cell_of(args[0], fr)
            if cell is not None:
                if "atomic" not in q:
                    raise self.und(fr, n, "operation on the counter not understood")
                return self.atomic(n, cell, fr)
        if "atomic" in q:
            raise self.und(fr, n, "atomic operation not on the counter field")
        callee = self.tu.by_did.get(c["did"])
        if callee is None or callee.body is None or not callee.qname.startswith("tlx::"):
            raise self.und(fr, n, "call not understood")
        if n.get("member_call") or (n["k"] == "CXXOperatorCallExpr" and callee.record):
            objn, argn = args[0], args[1:]
            if callee.record != RC:
                raise self.und(fr, n, "call not understood")
            o0 = sc(objn)
            this = fr.this if o0["k"] == "This" else self.obj_of(objn, fr)
        else:
            this, argn = None, args
        return self.invoke(callee, this, argn, fr, n)

    def invoke(self, callee, this, argn, fr, n):
        if len(argn) != len(callee.params):
            raise self.und(fr, n, "arity mismatch")
        self.depth += 1
        try:
            if self.depth > 6:
                raise dtable.Undecidable("inlining bound exceeded at %s" % callee.full)
            f2 = CFrame(callee, this)
            for p, a in zip(callee.params, argn):
                a0 = sc(a)
                pty = p["ty"]
                cell = self.cell_of(a0, fr) if a0 is not None else None
                if cell is not None and ("atomic" in pty):
                    f2.env[p["did"]] = ("cell", cell)
                elif "ReferenceCounter" in pty and is_ref_ty(pty):
                    f2.env[p["did"]] = ("obj", self.obj_of(a0, fr))
                elif is_ref_ty(pty) and not pty.startswith("const ") and a0 is not None and a0["k"] == "DeclRefExpr":
                    did, f3 = self.local_target(a0, fr, n)
                    f2.env[p["did"]] = ("local", f3, did)
                else:
                    f2.env[p["did"]] = self.value(a, fr)
            return self.run_fn(callee, f2)
        finally:
            self.depth -= 1

    def run_fn(self, fn, fr):
        """initialisers (constructors) and body; the returned value (None for void)"""
        for i in fn.inits:
            e = i.get("e")
            if i.get("delegating"):
                e0 = sc(e)
                tgt = self.tu.by_did.get(e0["callee"]["did"]) if e0 is not None and e0["k"] in CONSTRUCTS else None
                if tgt is None or tgt.record != fn.record or tgt.body is None:
                    raise dtable.Undecidable("%s: delegating constructor not understood" % fn.loc)
                self.invoke(tgt, fr.this, kids(e0), fr, e0)
            elif i.get("field") == COUNT_FIELD[0] and fn.record == RC:
                self.init_counter(i, fn, fr)
            elif e is not None and any(x["k"] == "MemberExpr" and x.get("member") == COUNT_FIELD[0] for x in ir.walk(e)):
                raise dtable.Undecidable("%s: initialiser of %s uses the counter" % (fn.loc, i.get("field") or i.get("base")))
        try:
            self.stmt(fn.body, fr)
        except CRet as r:
            return r.v
        return None

    def init_counter(self, i, fn, fr):
        e = i.get("e")
        if e is not None and e["k"] == "CXXDefaultInitExpr" and kids(e):
            e = kids(e)[0]
            i = dict(i)
            i["e"] = e
        if e is None or e["k"] == "CXXDefaultInitExpr":
            raise dtable.Undecidable("%s: default member initialiser of %s is not in the IR" % (fn.loc, COUNT_FIELD[0]))
        e0 = sc(e)
        args = [a for a in kids(e0) if a is not None and a["k"] != "DefaultArg"] if e0["k"] in CONSTRUCTS + ("InitListExpr",) else [e0]
        if len(args) == 0:
            # reference_count_() / {} value-initialises; no written initialiser leaves std::atomic's default constructor
            self.cells[fr.this] = 0 if i.get("written") else INDET
            self.trace.append(dict(kind="init", cell=fr.this, after=self.cells[fr.this], idx=len(self.trace), order=5, what="init"))
            return
        if len(args) != 1:
            raise dtable.Undecidable("%s: initialiser of %s not understood" % (fn.loc, COUNT_FIELD[0]))
        x = self.expr(args[0], fr)
        if isinstance(x, tuple) and x[0] == "cell":
            raise dtable.Undecidable("%s: %s is initialised from another atomic" % (fn.loc, COUNT_FIELD[0]))
        if not isinstance(x, Val):
            raise dtable.Undecidable("%s: initialiser of %s not understood" % (fn.loc, COUNT_FIELD[0]))
        self.cells[fr.this] = int(x.v) % U64
        self.trace.append(dict(kind="init", cell=fr.this, after=self.cells[fr.this], idx=len(self.trace), order=5, what="init"))

    # ---------------------------------------------------------- statements
    def branch(self, c, fr):
        v = self.value(c, fr)
        self.pc = self.pc | v.src
        return bool(v.v)

    def declare(self, v, fr):
        if v is None or v["k"] in ("TypedefDecl", "TypeAliasDecl", "StaticAssertDecl", "UsingDecl", "UsingDirectiveDecl", "EmptyDecl"):
            return
        if v["k"] != "VarDecl":
            raise self.und(fr, v, "declaration not understood")
        if not kids(v) or kids(v)[0] is None:
            return
        init = kids(v)[0]
        ty = v.get("ty") or ""
        if v.get("isref") or is_ref_ty(ty):
            i0 = sc(init)
            cell = self.cell_of(i0, fr)
            if cell is not None:
                fr.env[v["did"]] = ("cell", cell)
                return
            if i0["k"] == "DeclRefExpr" and not ty.startswith("const "):
                did, f2 = self.local_target(i0, fr, v)
                fr.env[v["did"]] = ("local", f2, did)
                return
            if "ReferenceCounter" in ty:
                fr.env[v["did"]] = ("obj", self.obj_of(i0, fr))
                return
        if "atomic" in ty:
            raise self.und(fr, v, "local atomic object")
        fr.env[v["did"]] = self.value(init, fr)

    def stmt(self, s, fr):
        if s is None:
            return
        self.steps += 1
        if self.steps > 4000:
            raise dtable.Undecidable("run of %s too long" % fr.fn.full)
        k = s["k"]
        if k == "CompoundStmt":
            for c in kids(s):
                self.stmt(c, fr)
            return
        if k == "IfStmt":
            if isinstance(s.get("init"), dict):
                self.stmt(s["init"], fr)
            if isinstance(s.get("condvar"), dict):
                self.declare(s["condvar"], fr)
            c, t, e = (kids(s) + [None, None])[:3]
            self.stmt(t if self.branch(c, fr) else e, fr)
            return
        if k in ("WhileStmt", "ForStmt", "DoStmt"):
            if "init" in s or "condvar" in s:
                raise self.und(fr, s, "loop with a condition variable")
            init, cnd, inc, body = match.loop_parts(s)
            if init is not None:
                self.stmt(init, fr)
            first = True
            while True:
                if not (k == "DoStmt" and first) and cnd is not None and not self.branch(cnd, fr):
                    break
                first = False
                self.stmt(body, fr)        # break / continue are not modelled: Undecidable below
                if inc is not None:
                    self.expr(inc, fr)
            return
        if k == "ReturnStmt":
            v = None
            if kids(s) and kids(s)[0] is not None:
                v = self.expr(kids(s)[0], fr)
                if isinstance(v, Val):
                    v = Val(v.v, v.src | self.pc)
            raise CRet(v)
        if k == "NullStmt" or is_assert(s):
            return
        if k == "DeclStmt":
            for v in kids(s):
                self.declare(v, fr)
            return
        if k in ("BreakStmt", "ContinueStmt", "SwitchStmt", "GotoStmt", "CXXTryStmt", "LabelStmt"):
            raise self.und(fr, s, "statement not modelled")
        self.expr(s, fr)


def run_counter(tu, fn, cells, bind=None):
    """runs member fn on object 'this'; bind: parameter index -> object name for ReferenceCounter parameters"""
    run = CounterRun(tu, cells)
    fr = CFrame(fn, "this")
    for i, p in enumerate(fn.params):
        if bind and i in bind:
            fr.env[p["did"]] = ("obj", bind[i])
        else:
            raise dtable.Undecidable("%s: parameter %s not understood" % (fn.loc, p.get("name")))
    if fn.body is None:
        raise dtable.Undecidable("%s: no body in the IR" % fn.loc)
    r = run.run_fn(fn, fr)
    return run, r


def mods(run, cell="this"):
    return [e for e in run.trace if e["cell"] == cell and e["kind"] in ("rmw", "store", "init")]


def trace_text(evs):
    return ", then ".join(e["what"] for e in evs) or "no operation"


def single_rmw(run, delta, before):
    """None if the run changes the counter of 'this' by exactly one atomic RMW of `delta`; else a description of what it does"""
    m = mods(run)
    after = run.cells["this"]
    if after != (before + delta) % U64:
        return "for count %d it leaves count %s (%s)" % (before, after, trace_text(m))
    if len(m) != 1 or m[0]["kind"] != "rmw":
        return "for count %d the update is not one atomic read-modify-write: %s" % \
            (before, trace_text([e for e in run.trace if e["cell"] == "this"]))
    return None


def check_refcounter(ck, tu):
    fldrec = resolve_count_field(tu)
    inc = tu.one(qname=RC + "::inc_reference")
    dec = tu.one(qname=RC + "::dec_reference")
    # the counter field is atomic (decided first: the evaluation below models std::atomic operations only)
    fty = fldrec["ty"].replace("mutable ", "").replace("volatile ", "").strip()
    if fty.startswith("std::atomic<") or fty.startswith("std::__atomic_base<"):
        ck.ok("RC-ATOMIC-RMW", RC + "::" + COUNT_FIELD[0], fldrec["ty"], nontrivial=False)
    elif fty.replace("const ", "") in ("unsigned long", "unsigned int", "unsigned long long", "long", "int", "long long", "unsigned short",
                                        "short", "size_t", "std::size_t", "unsigned char", "char", "signed char", "unsigned", "bool"):
        ck.violation("RC-ATOMIC-RMW", RC, "field", "%s is not a std::atomic (its type is %s)" % (COUNT_FIELD[0], fldrec["ty"]), "tlx/counting_ptr.hpp")
    else:
        raise dtable.Undecidable("ReferenceCounter: type %s of the counter field is not understood" % fldrec["ty"])
    # inc: exactly one RMW that adds one (evaluated; loads do no harm)
    bad = None
    what = None
    for c in (0, 1, 2):
        run, _ = run_counter(tu, inc, {"this": c})
        bad = single_rmw(run, +1, c)
        if bad:
            break
        what = mods(run)[0]["what"]
    if bad:
        ck.violation("RC-ATOMIC-RMW", inc.qname, "inc", "inc_reference is not a single atomic increment by one: " + bad, inc.loc)
    else:
        ck.ok("RC-ATOMIC-RMW", inc.qname, "single atomic RMW %s" % what)
    # dec: one RMW that subtracts one; the returned decision is that RMW's own result
    why = None
    what = None
    for prev in (1, 2, 3, 4):
        run, r = run_counter(tu, dec, {"this": prev})
        bad = single_rmw(run, -1, prev)
        if bad:
            why = "dec_reference is not a single atomic decrement by one: " + bad
            break
        if not isinstance(r, Val):
            raise dtable.Undecidable("%s: value returned by dec_reference not understood" % dec.loc)
        rmw = mods(run)[0]
        what = rmw["what"]
        kinds = set(t for t, _ in r.src)
        if "load" in kinds and "rmw" not in kinds:
            why = "the release decision re-reads %s after the decrement (not the RMW's own result): two releasing threads can both see zero" \
                % COUNT_FIELD[0]
            break
        if "load" in kinds:
            raise dtable.Undecidable("%s: the release decision mixes the decrement's result with a separate read of %s" % (dec.loc, COUNT_FIELD[0]))
        new = prev - 1
        if bool(r.v) != (new == 0):
            why = "when the new count is %d (previous %d) the release decision is %s (the object must be released exactly when the new count is 0)" \
                % (new, prev, bool(r.v))
            break
        order = rmw["order"]
        if order < 4:
            fenced = order == 3 and (not r.v or any(e["kind"] == "fence" and e["order"] in (2, 4, 5) and e["idx"] > rmw["idx"] for e in run.trace))
            if not fenced:
                why = "decrement uses memory order %s, needs acq_rel or stronger" % ORDERS.get(order, "?")
                break
    if why is None:
        ck.ok("RC-ATOMIC-RMW", dec.qname, "decision is the result of the single atomic %s" % what)
    else:
        ck.violation("RC-ATOMIC-RMW", dec.qname, "dec", why, dec.loc)
    # copies start at zero, assignment keeps the count
    for fn in tu.find(record=RC):
        if fn.kind == "ctor":
            bind = {i: "other%d" % i for i, p in enumerate(fn.params) if "ReferenceCounter" in p["ty"]}
            cells = {"this": INDET}
            cells.update({o: 7 for o in bind.values()})
            run, _ = run_counter(tu, fn, cells, bind)
            v = run.cells["this"]
            if v == INDET:
                # closed world: every initialiser and statement was understood and none gives the counter a value
                ck.violation("RC-COPY-ZERO", fn.qname, "ctor/%d" % len(fn.params),
                             "a new ReferenceCounter does not start with count 0: the counter is left to std::atomic's default constructor "
                             "(indeterminate before C++20)", fn.loc)
            elif v != 0:
                ck.violation("RC-COPY-ZERO", fn.qname, "ctor/%d" % len(fn.params),
                             "a new ReferenceCounter does not start with count 0: it starts with %s%s" %
                             (v, " (the count of the copied object)" if v == 7 else ""), fn.loc)
            else:
                ck.ok("RC-COPY-ZERO", "%s/%d" % (fn.qname, len(fn.params)), "%s(0)" % COUNT_FIELD[0])
        if fn.d.get("copy_assign"):
            run, _ = run_counter(tu, fn, {"this": 3, "other0": 7}, {0: "other0"})
            if run.cells["this"] != 3:
                ck.violation("RC-COPY-ZERO", fn.qname, "assign",
                             "assignment of the pointee modifies its reference count: 3 becomes %s (%s)" % (run.cells["this"], trace_text(mods(run))), fn.loc)
            else:
                ck.ok("RC-COPY-ZERO", fn.qname, "assignment leaves the count alone")
    un = tu.one(qname=RC + "::unique")
    bad = None
    for c in (0, 1, 2, 3):
        run, r = run_counter(tu, un, {"this": c})
        if not isinstance(r, Val):
            raise dtable.Undecidable("%s: value returned by unique() not understood" % un.loc)
        if run.cells["this"] != c:
            bad = "it changes the count %d to %s" % (c, run.cells["this"])
        elif bool(r.v) != (c == 1):
            bad = "for count %d it returns %s" % (c, bool(r.v))
        if bad:
            break
    if bad:
        ck.violation("UNIFY-GUARD", un.qname, "unique", "unique() is not (count == 1): " + bad, un.loc)
    else:
        ck.ok("UNIFY-GUARD", un.qname, "count == 1")


def run(ck):
    ck.explanation = (
        "Every special member and modifier of CountingPtr is summarised by a path-sensitive abstract run over a finite alias "
        "model: this->ptr_ in {null,A}, the other handle in {null,A,B} (or the same handle), with or without further external "
        "owners; private helpers, the deleter and temporaries (constructed and destroyed at full-expression end) are inlined "
        "from the IR. Obligation in every scenario: count(o) == number of handles on o, o destroyed exactly once and exactly "
        "when the last handle goes, no count operation on a destroyed object, source nulled by moves, target points to the "
        "source's object. Concurrent clause: each scenario is repeated with one step of another owner (release or copy of its "
        "handle) interleaved before every counter operation, so a destruction decided from a stale look at the count instead "
        "of the member's own dec_reference() result is a leak / use-after-destroy in a concrete run. ReferenceCounter: inc/dec are single atomic RMWs and the release decision is the RMW's own result; "
        "copies start at zero. Under sequential consistency of the RMWs these are necessary and, for two-handle histories, "
        "sufficient; arbitrary interleavings are argued from that, not explored.")
    tu = ir.extract("witness/C12_counting_ptr.cpp", roots=[ir.REPO + "/tlx/", ir.VERIF + "/witness/"],
                    ndebug=True)
    check_members(ck, tu)
    check_refcounter(ck, tu)
    if ck.tier == "thorough":
        tu2 = ir.extract("witness/C12_counting_ptr.cpp", roots=[ir.REPO + "/tlx/", ir.VERIF + "/witness/"], ndebug=False)
        check_members(ck, tu2)
        check_refcounter(ck, tu2)
    m = 2 if ck.tier == "thorough" else 1
    ck.floor("RC-CONSERVE", 17 * m)
    ck.floor("RC-ATOMIC-RMW", 3 * m)
    ck.floor("RC-COPY-ZERO", 3 * m)
