"""C12 — CountingPtr: reference-count conservation by path-sensitive effect summaries
over a finite alias model; ReferenceCounter atomic-RMW rules."""
import itertools

from engine import ir, dtable, match
from engine.ir import kids, strip_casts, const_int, ref_of

CP = "tlx::CountingPtr"
RC = "tlx::ReferenceCounter"
NULL = "null"


class Bad(Exception):
    """a conservation / lifetime violation detected during the abstract run"""

    def __init__(self, sig, msg):
        self.sig, self.msg = sig, msg


class Store:
    def __init__(self):
        self.h = {}          # handle name -> pointer value (NULL / object name)
        self.count = {}      # object -> reference count
        self.deleted = {}    # object -> number of deleter invocations
        self.fresh = 0
        self.ntemp = 0
        self.alive_handles = set()

    def new_obj(self):
        self.fresh += 1
        o = "NEW%d" % self.fresh
        self.count[o] = 0
        self.deleted[o] = 0
        return o


class Frame:
    def __init__(self, fn, this):
        self.fn = fn
        self.this = this
        self.env = {}
        self.temps = []
        self.locals = []         # named CountingPtr locals, destroyed where their scope ends


class Ret(Exception):
    def __init__(self, v):
        self.v = v


class Interp:
    """abstract interpreter for the CountingPtr members: pointer values are drawn from a finite set,
    counters are small integers, handles are named cells"""

    def __init__(self, tu, st):
        self.tu = tu
        self.st = st
        self.depth = 0
        self.steps = 0

    # -------------------------------------------------------------- values
    def lval(self, n, fr):
        """location: ('ptr', handle) | ('handle', name) | ('var', did)"""
        n = strip_casts(n)
        k = n["k"]
        if k == "This":
            return ("handleptr", fr.this)
        if k == "MemberExpr" and n["member"] == "ptr_":
            b = self.handle_of(kids(n)[0], fr)
            return ("ptr", b)
        if k == "DeclRefExpr":
            v = fr.env.get(n["ref"]["id"])
            if isinstance(v, tuple) and v[0] == "handle":
                return v
            return ("var", n["ref"]["id"])
        if k == "UnaryOperator" and n["op"] == "*":
            v = self.rval(kids(n)[0], fr)
            if isinstance(v, tuple) and v[0] == "addr":
                return ("handle", v[1])
            return ("obj", v)
        if "callee" in n and n["callee"]["name"] in ("move", "forward"):
            return self.lval(kids(n)[-1], fr)
        if "callee" in n:
            v = self.rval(n, fr)
            if isinstance(v, tuple) and v[0] == "handle":
                return v
        raise dtable.Undecidable("%s: lvalue not understood: %s" % (fr.fn.nloc(n), dtable.describe(n)))

    def handle_of(self, n, fr):
        n = strip_casts(n)
        if n["k"] == "This":
            return fr.this
        lv = self.lval(n, fr)
        if lv[0] == "handle":
            return lv[1]
        raise dtable.Undecidable("%s: not a CountingPtr handle: %s" % (fr.fn.nloc(n), dtable.describe(n)))

    def rval(self, n, fr):
        self.steps += 1
        if self.steps > 5000:
            raise dtable.Undecidable("abstract run too long in %s" % fr.fn.full)
        n = strip_casts(n)
        k = n["k"]
        st = self.st
        if k == "NullPtr":
            return NULL
        c = const_int(n)
        if c is not None and k in ("IntegerLiteral", "CXXBoolLiteralExpr"):
            return c
        if k == "This":
            return ("addr", fr.this)
        if k == "MemberExpr" and n["member"] == "ptr_":
            return st.h[self.handle_of(kids(n)[0], fr)]
        if k == "DeclRefExpr":
            v = fr.env.get(n["ref"]["id"])
            if v is None:
                raise dtable.Undecidable("%s: unknown variable %s" % (fr.fn.nloc(n), n["ref"]["name"]))
            return v
        if k == "UnaryOperator":
            op = n["op"]
            if op == "!":
                return not self.truth(kids(n)[0], fr)
            if op == "&":
                lv = self.lval(kids(n)[0], fr)
                if lv[0] == "handle":
                    return ("addr", lv[1])
            if op == "*":
                v = self.rval(kids(n)[0], fr)
                if isinstance(v, tuple) and v[0] == "addr":
                    return ("handle", v[1])
                return ("objref", v)
        if k == "BinaryOperator":
            op = n["op"]
            if op in ("&&", "||"):
                a = self.truth(kids(n)[0], fr)
                if op == "&&":
                    return a and self.truth(kids(n)[1], fr)
                return a or self.truth(kids(n)[1], fr)
            if op in ("==", "!="):
                a, b = self.rval(kids(n)[0], fr), self.rval(kids(n)[1], fr)
                if a == 0:
                    a = NULL
                if b == 0:
                    b = NULL
                return (a == b) if op == "==" else (a != b)
            if op == "=":
                v = self.rval(kids(n)[1], fr)
                self.assign(self.lval(kids(n)[0], fr), v, fr, n)
                return v
            if op == ",":
                self.rval(kids(n)[0], fr)
                return self.rval(kids(n)[1], fr)
        if k == "ConditionalOperator":
            c0, a, b = kids(n)
            return self.rval(a if self.truth(c0, fr) else b, fr)
        if k == "CXXNewExpr":
            for c_ in kids(n):
                pass      # constructor arguments have no effect on counts (RC-COPY-ZERO)
            return st.new_obj()
        if k == "CXXDeleteExpr":
            v = self.rval(kids(n)[0], fr)
            if v != NULL:
                st.deleted[v] = st.deleted.get(v, 0) + 1
                if st.count.get(v, 0) != 0:
                    raise Bad("delete-live", "object deleted while its reference count is %d" % st.count[v])
            return None
        if k in ("CXXConstructExpr", "CXXTemporaryObjectExpr") and n["callee"].get("record") == CP:
            st.ntemp += 1
            name = "tmp%d" % st.ntemp
            self.construct(name, n, fr)
            fr.temps.append(name)
            return ("handle", name)
        if k in ("CXXConstructExpr", "CXXTemporaryObjectExpr"):
            # deleter / other value objects
            return ("value", n["callee"].get("record"))
        if "callee" in n:
            return self.call(n, fr)
        raise dtable.Undecidable("%s: expression not understood: %s" % (fr.fn.nloc(n), dtable.describe(n)))

    def truth(self, n, fr):
        v = self.rval(n, fr)
        if isinstance(v, bool):
            return v
        if isinstance(v, int):
            return v != 0
        if v == NULL:
            return False
        if isinstance(v, str):
            return True
        raise dtable.Undecidable("%s: condition value not understood: %s" % (fr.fn.nloc(n), dtable.describe(n)))

    def assign(self, lv, v, fr, n):
        if lv[0] == "ptr":
            self.st.h[lv[1]] = v
        elif lv[0] == "var":
            fr.env[lv[1]] = v
        else:
            raise dtable.Undecidable("%s: assignment target not understood" % fr.fn.nloc(n))

    # -------------------------------------------------------------- calls
    def construct(self, name, n, fr):
        ctor = self.tu.by_did.get(n["callee"]["did"])
        if ctor is None:
            raise dtable.Undecidable("%s: constructor body not in IR: %s" % (fr.fn.nloc(n), n["callee"]["qname"]))
        args = [self.argval(a, fr) for a in kids(n)]
        self.st.h[name] = "uninit"
        self.st.alive_handles.add(name)
        self.invoke(ctor, name, args, fr)

    def argval(self, a, fr):
        a0 = strip_casts(a)
        ty = a0.get("ty", "")
        if ty.startswith("tlx::CountingPtr<") or ty.startswith("const tlx::CountingPtr<"):
            lv = self.lval(a0, fr) if a0["k"] not in ("CXXConstructExpr", "CXXTemporaryObjectExpr", "CXXFunctionalCastExpr") else None
            if lv is None:
                v = self.rval(a0, fr)
                return v
            if lv[0] == "handle":
                return lv
            if lv[0] == "handleptr":
                return ("handle", lv[1])
        return self.rval(a, fr)

    def invoke(self, fn, this, args, caller):
        self.depth += 1
        if self.depth > 8:
            raise dtable.Undecidable("inlining bound exceeded at %s" % fn.full)
        fr = Frame(fn, this)
        if len(args) != len(fn.params):
            raise dtable.Undecidable("arity mismatch calling %s" % fn.full)
        for p, v in zip(fn.params, args):
            fr.env[p["did"]] = v
        try:
            for i in fn.inits:
                if i.get("field") == "ptr_":
                    self.st.h[this] = self.rval(i["e"], fr)
                    self.flush_temps(fr)
            try:
                self.stmt(fn.body, fr)
                r = None
            except Ret as e:
                r = e.v
            return r
        finally:
            self.depth -= 1

    def call(self, n, fr):
        c = n["callee"]
        name = c["name"]
        st = self.st
        args = kids(n)
        if name in ("move", "forward", "addressof") and "std" in c["qname"]:
            lv = self.lval(args[-1], fr)
            return lv if lv[0] == "handle" else self.rval(args[-1], fr)
        if name == "swap" and "std" in c["qname"] and len(args) == 2:
            la, lb = self.lval(args[0], fr), self.lval(args[1], fr)
            if la[0] == "ptr" and lb[0] == "ptr":
                st.h[la[1]], st.h[lb[1]] = st.h[lb[1]], st.h[la[1]]
                return None
            raise dtable.Undecidable("%s: std::swap on unexpected operands" % fr.fn.nloc(n))
        if name == "exchange" and "std" in c["qname"] and len(args) == 2:
            la = self.lval(args[0], fr)
            v = self.rval(args[1], fr)
            if la[0] == "ptr":
                old = st.h[la[1]]
                st.h[la[1]] = v
                return old
        # pointee protocol
        if n.get("member_call") and c.get("record") != CP and name in ("inc_reference", "dec_reference", "unique", "reference_count"):
            o = self.rval(args[0], fr)
            if isinstance(o, tuple) and o[0] == "objref":
                o = o[1]
            if o == NULL or not isinstance(o, str):
                raise Bad("null-deref", "%s() is called through a null pointer" % name)
            if st.deleted.get(o, 0) > 0:
                raise Bad("use-after-delete", "%s() on an object that was already destroyed" % name)
            if name == "inc_reference":
                st.count[o] += 1
                return None
            if name == "dec_reference":
                if st.count[o] <= 0:
                    raise Bad("underflow", "reference count of a live object decremented below zero")
                st.count[o] -= 1
                return st.count[o] == 0
            if name == "unique":
                return st.count[o] == 1
            return st.count[o]
        callee = self.tu.by_did.get(c["did"])
        if callee is not None and (callee.record == CP or callee.qname.startswith("tlx::")):
            if n.get("member_call") or (n["k"] == "CXXOperatorCallExpr" and callee.record):
                objn = args[0]
                if callee.record == CP:
                    this = self.handle_of(objn, fr)
                else:
                    self.rval(objn, fr)
                    this = None
                argv = [self.argval(a, fr) for a in args[1:]]
            else:
                this = None
                argv = [self.argval(a, fr) for a in args]
            r = self.invoke(callee, this, argv, fr)
            if callee.kind == "operator" and callee.d.get("op") == "=" and callee.record == CP:
                return ("handle", this)
            return r
        raise dtable.Undecidable("%s: call not understood: %s" % (fr.fn.nloc(n), dtable.describe(n)))

    # -------------------------------------------------------------- statements
    def flush_temps(self, fr):
        while fr.temps:
            t = fr.temps.pop()
            self.destroy_handle(t, fr)

    def destroy_handle(self, name, fr):
        dt = [f for f in self.tu.functions if f.kind == "dtor" and f.record == CP]
        if not dt:
            raise dtable.Undecidable("CountingPtr destructor not in IR")
        self.invoke(dt[0], name, [], fr)
        self.st.alive_handles.discard(name)
        self.st.h.pop(name, None)

    def stmt(self, s, fr):
        if s is None:
            return
        k = s["k"]
        if k == "CompoundStmt":
            mark = len(fr.locals)
            try:
                for c in kids(s):
                    self.stmt(c, fr)
            finally:
                while len(fr.locals) > mark:
                    self.destroy_handle(fr.locals.pop(), fr)
            return
        if k == "IfStmt":
            c, t, e = kids(s)
            v = self.truth(c, fr)
            self.flush_temps(fr)
            self.stmt(t if v else e, fr)
            return
        if k == "ReturnStmt":
            v = None
            if kids(s):
                e = strip_casts(kids(s)[0])
                if e["k"] in ("CXXConstructExpr", "CXXTemporaryObjectExpr", "CXXFunctionalCastExpr") and \
                        e.get("ty", "").startswith("tlx::CountingPtr<"):
                    inner = e
                    while inner["k"] == "CXXFunctionalCastExpr":
                        inner = strip_casts(kids(inner)[0])
                    self.st.ntemp += 1
                    self.construct("ret", inner, fr)
                    v = ("handle", "ret")
                else:
                    v = self.rval(kids(s)[0], fr)
            self.flush_temps(fr)
            raise Ret(v)
        if k == "NullStmt":
            return
        if k in ("CXXStaticCastExpr", "CStyleCastExpr") and s.get("ty") == "void":
            return
        if k == "ConditionalOperator" and any(c.get("callee", {}).get("noreturn") for c in ir.walk(s) if "callee" in c):
            return                      # assert()
        if k == "DeclStmt":
            for v in kids(s):
                if kids(v):
                    val = self.rval(kids(v)[0], fr)
                    if isinstance(val, tuple) and val[0] == "handle" and val[1] in fr.temps and (v.get("ty") or "").startswith("tlx::CountingPtr<"):
                        fr.temps.remove(val[1])          # a named handle lives to the end of its scope
                        fr.locals.append(val[1])
                    fr.env[v["did"]] = val
            self.flush_temps(fr)
            return
        self.rval(s, fr)
        self.flush_temps(fr)


# ---------------------------------------------------------------------------------
def scenarios(fn):
    """pre-states: (this_ptr, other kind, other_ptr, ext counts)"""
    is_ctor = fn.kind == "ctor"
    is_cp_param = bool(fn.params) and "tlx::CountingPtr<" in fn.params[0]["ty"]
    raw_param = bool(fn.params) and fn.params[0]["ty"].endswith("*") and not is_cp_param
    this_vals = [None] if is_ctor else [NULL, "A"]
    out = []
    for tp in this_vals:
        if is_cp_param:
            others = [("handle", NULL), ("handle", "A"), ("handle", "B")]
            if not is_ctor:
                others.append(("self", None))
        elif raw_param:
            others = [("raw", NULL), ("raw", "A")]
        elif fn.params and fn.params[0]["ty"] == "std::nullptr_t":
            others = [("nullptr", None)]
        else:
            others = [(None, None)]
        for ok, ov in others:
            for ea, eb in itertools.product((0, 1), (0, 1)):
                out.append((tp, ok, ov, ea, eb))
    return out


def run_scenario(tu, fn, sc):
    tp, ok, ov, ea, eb = sc
    st = Store()
    for o in ("A", "B"):
        st.count[o] = 0
        st.deleted[o] = 0
    ext = {"A": ea, "B": eb}
    pre_handles = {"A": ea, "B": eb}
    if fn.kind != "ctor":
        st.h["this"] = tp
        st.alive_handles.add("this")
        if tp != NULL:
            pre_handles[tp] += 1
    args = []
    if ok == "handle":
        st.h["other"] = ov
        st.alive_handles.add("other")
        if ov != NULL:
            pre_handles[ov] += 1
        args = [("handle", "other")]
    elif ok == "self":
        args = [("handle", "this")]
    elif ok == "raw":
        args = [ov]
        # a raw pointer to an object nobody owns yet is the normal use; A with ext handles also allowed
    elif ok == "nullptr":
        args = [NULL]
    for o in ("A", "B"):
        st.count[o] = pre_handles[o]
    if fn.kind == "ctor":
        st.h["this"] = "uninit"
        st.alive_handles.add("this")
    it = Interp(tu, st)
    fr0 = Frame(fn, "this")
    it.invoke(fn, "this", args, fr0)
    if fn.kind == "dtor":
        st.alive_handles.discard("this")
        st.h.pop("this", None)
    # post-state accounting
    for o in list(st.count):
        nh = ext.get(o, 0) + sum(1 for h in st.alive_handles if st.h.get(h) == o)
        was_owned = pre_handles.get(o, 0) > 0 or o.startswith("NEW") and st.count[o] > 0 or st.deleted.get(o, 0) > 0
        if st.deleted.get(o, 0) > 1:
            raise Bad("double-delete", "object %s is destroyed %d times" % (o, st.deleted[o]))
        if st.deleted.get(o, 0) == 1:
            if nh > 0:
                raise Bad("deleted-while-owned", "object %s is destroyed although %d handle(s) still point to it" % (o, nh))
            continue
        if st.count[o] != nh:
            raise Bad("count-mismatch", "reference count of %s is %d but %d handle(s) point to it" % (o, st.count[o], nh))
        if nh == 0 and (pre_handles.get(o, 0) > 0 or (o.startswith("NEW"))) :
            # last owner gone (or a fresh object never adopted) but not destroyed
            if pre_handles.get(o, 0) > 0 or o.startswith("NEW"):
                raise Bad("leak", "object %s lost its last handle but was not destroyed" % o)
    return st


def describe_sc(sc):
    tp, ok, ov, ea, eb = sc
    return "this=%s other=%s:%s ext(A)=%d ext(B)=%d" % (tp, ok, ov, ea, eb)


def member_label(fn):
    ps = ",".join(p["ty"].replace("tlx::CountingPtr", "CP") for p in fn.params)
    return "%s(%s)" % (fn.name, ps)


def check_members(ck, tu):
    n = 0
    for fn in tu.find(record=CP):
        if fn.rtargs[:1] != ["Base"]:
            continue
        if fn.kind in ("ctor", "dtor") or fn.name in ("operator=", "reset", "swap", "unify"):
            label = member_label(fn)
            scs = scenarios(fn)
            bad = None
            nonself_move = fn.d.get("move_assign") or (fn.name == "operator=" and fn.params and "&&" in fn.params[0]["ty"])
            for sc in scs:
                try:
                    st = run_scenario(tu, fn, sc)
                    # extra role obligations
                    tp, ok, ov, ea, eb = sc
                    if fn.name == "operator=" or (fn.kind == "ctor" and ok == "handle"):
                        src_ptr = tp if ok == "self" else ov
                        if st.h.get("this") != src_ptr:
                            raise Bad("wrong-target", "after the operation the handle points to %s instead of the source's object %s" % (st.h.get("this"), src_ptr))
                    if fn.kind == "ctor" and ok == "raw" and st.h.get("this") != ov:
                        raise Bad("wrong-target", "handle does not point to the adopted pointer")
                    if fn.name == "reset" and st.h.get("this") != NULL:
                        raise Bad("reset-not-null", "reset() leaves a non-null pointer")
                    if fn.name == "swap" and ok == "handle" and (st.h["this"], st.h["other"]) != (ov, tp):
                        raise Bad("swap-exchange", "swap does not exchange the two pointers")
                    if (fn.kind == "ctor" and ok == "handle" and "&&" in fn.params[0]["ty"]) and st.h["other"] != NULL:
                        raise Bad("move-source", "moved-from handle is not null after move construction")
                    if nonself_move and ok == "handle" and ov != tp and st.h["other"] != NULL:
                        raise Bad("move-source", "moved-from handle is not null after move assignment")
                    if fn.name == "unify":
                        shared = tp != NULL and (1 + (ea if tp == "A" else 0)) > 1
                        cloned = st.h["this"] not in (tp,)
                        if shared != cloned:
                            raise Bad("unify-guard", "unify() %s although the object %s shared" %
                                      ("clones" if cloned else "does not clone", "is" if shared else "is not"))
                except Bad as b:
                    bad = (sc, b)
                    break
            ck.states += len(scs)
            if bad:
                sc, b = bad
                ck.violation("RC-CONSERVE", fn.qname, "%s:%s" % (label, b.sig),
                             "%s in scenario [%s]" % (b.msg, describe_sc(sc)), fn.loc)
            else:
                ck.ok("RC-CONSERVE", "CountingPtr<Base>::" + label,
                      "%d alias/ownership scenarios: count == #handles, destroyed exactly when the last handle goes" % len(scs),
                      sample=dict(rule="RC-CONSERVE", member=label, scenarios=len(scs), example=describe_sc(scs[-1])))
            n += 1
    # free functions
    for fn in tu.find(qname="tlx::make_counting"):
        try:
            st = Store()
            it = Interp(tu, st)
            it.invoke(fn, None, [], Frame(fn, None))
            objs = [o for o in st.count if o.startswith("NEW")]
            if len(objs) != 1 or st.count[objs[0]] != 1 or st.h.get("ret") != objs[0] or st.deleted[objs[0]]:
                raise Bad("make", "make_counting does not return the single owner of the new object")
            ck.ok("RC-CONSERVE", "make_counting", "new object owned by exactly the returned handle (count 1)")
        except Bad as b:
            ck.violation("RC-CONSERVE", fn.qname, "make:" + b.sig, b.msg, fn.loc)
    for fn in tu.find(qname="tlx::swap"):
        try:
            st = Store()
            st.h = {"a": "A", "b": "B"}
            st.count = {"A": 1, "B": 1}
            st.deleted = {"A": 0, "B": 0}
            st.alive_handles = {"a", "b"}
            Interp(tu, st).invoke(fn, None, [("handle", "a"), ("handle", "b")], Frame(fn, None))
            if (st.h["a"], st.h["b"]) != ("B", "A") or st.count != {"A": 1, "B": 1}:
                raise Bad("swap", "free swap does not exchange the handles without touching the counts")
            ck.ok("RC-CONSERVE", "swap(CountingPtr&, CountingPtr&)", "exchanges pointers, counts unchanged")
        except Bad as b:
            ck.violation("RC-CONSERVE", fn.qname, "freeswap:" + b.sig, b.msg, fn.loc)


# ---------------------------------------------------------------------------------
ORDERS = {0: "relaxed", 1: "consume", 2: "acquire", 3: "release", 4: "acq_rel", 5: "seq_cst"}


def atomic_rmw(n):
    """(kind, order) if n is an atomic read-modify-write on this->reference_count_"""
    n = strip_casts(n)
    if n is None or "callee" not in n:
        return None
    c = n["callee"]
    if "atomic" not in c["qname"]:
        return None
    obj = kids(n)[0] if kids(n) else None
    if match.this_field(obj) != COUNT_FIELD[0]:
        return None
    name = c["name"]
    order = 5
    if name in ("fetch_add", "fetch_sub"):
        if len(kids(n)) >= 3 and kids(n)[2]["k"] != "DefaultArg":
            o = const_int(kids(n)[2])
            order = o if o is not None else None
        return (name, order, const_int(kids(n)[1]))
    if name in ("operator++", "operator--", "operator+=", "operator-="):
        post = len(kids(n)) == 2 and name in ("operator++", "operator--")
        return (name + ("(post)" if post else ""), 5, 1)
    return None


COUNT_FIELD = ["reference_count_"]       # the counter field of ReferenceCounter: its one integral data member, whatever its name


def resolve_count_field(tu):
    rec = tu.record(RC)
    flds = [f for f in rec["fields"] if any(t in f["ty"] for t in ("atomic", "size_t", "unsigned", "long", "int"))]
    if len(flds) != 1:
        raise dtable.Undecidable("ReferenceCounter: the counter field is not unique (%s)" % [f["name"] for f in rec["fields"]])
    COUNT_FIELD[0] = flds[0]["name"]
    return flds[0]


def check_refcounter(ck, tu):
    resolve_count_field(tu)
    inc = tu.one(qname=RC + "::inc_reference")
    dec = tu.one(qname=RC + "::dec_reference")
    # inc: exactly one RMW that adds one, no other access
    rm = [atomic_rmw(x) for x in ir.walk(inc.body)]
    rm = [r for r in rm if r]
    loads = [x for x in ir.walk(inc.body) if x["k"] == "MemberExpr" and match.this_field(x) == COUNT_FIELD[0]]
    if len(rm) != 1 or rm[0][0] not in ("operator++", "operator++(post)", "fetch_add", "operator+=") or rm[0][2] != 1 or len(loads) != 1:
        ck.violation("RC-ATOMIC-RMW", inc.qname, "inc", "inc_reference is not a single atomic increment by one", inc.loc)
    else:
        ck.ok("RC-ATOMIC-RMW", inc.qname, "single atomic RMW %s" % rm[0][0])
    # dec: the returned decision must be the RMW's own result
    rets = [x for x in ir.walk(dec.body) if x["k"] == "ReturnStmt"]
    rmws = [(x, atomic_rmw(x)) for x in ir.walk(dec.body) if atomic_rmw(x)]
    accesses = [x for x in ir.walk(dec.body) if x["k"] == "MemberExpr" and match.this_field(x) == COUNT_FIELD[0]]
    in_assert = set()
    for s in kids(dec.body):
        if s["k"] == "ConditionalOperator" and any(c.get("callee", {}).get("noreturn") for c in ir.walk(s) if "callee" in c):
            for x in ir.walk(s):
                in_assert.add(x["id"])
    accesses = [x for x in accesses if x["id"] not in in_assert]
    okd = False
    why = "dec_reference does not decide on the result of its own atomic decrement"
    def through_locals(e, depth=0):
        """the expression a never-reassigned local stands for"""
        e = strip_casts(e)
        while e is not None and e["k"] == "ParenExpr":
            e = strip_casts(kids(e)[0])
        d = ref_of(e) if e is not None else None
        if d is not None and depth < 4:
            for v in ir.walk(dec.body):
                if v["k"] == "VarDecl" and v.get("did") == d and kids(v) and kids(v)[0] is not None:
                    reassigned = any(match.binop(z, ("=", "+=", "-=")) and ref_of(match.binop(z, ("=", "+=", "-="))[1]) == d
                                     for z in ir.walk(dec.body) if z["k"] in ("BinaryOperator", "CompoundAssignOperator"))
                    if not reassigned:
                        return through_locals(kids(v)[0], depth + 1)
        return e
    if len(rets) > 1 and len(rmws) == 1 and len(accesses) == 1:
        # if (--count != 0) return false; return true;   ->   one expression
        body = [s_ for s_ in kids(dec.body) if not (s_ is not None and s_["k"] == "ConditionalOperator" and
                                                    any(c_.get("callee", {}).get("noreturn") for c_ in ir.walk(s_) if "callee" in c_))]
        body = [s_ for s_ in body if not (s_ is not None and s_["k"] in ("CXXStaticCastExpr", "CStyleCastExpr", "NullStmt", "ParenExpr") and
                                          (s_.get("ty") == "void" or s_["k"] == "NullStmt"))]
        whole = dtable.stmts_as_expr(body)
        if whole is None:
            raise dtable.Undecidable("%s: form of the release decision not understood (several returns)" % dec.loc)
        rets = [{"k": "ReturnStmt", "id": -31, "ch": [whole]}]
    if len(rets) == 1 and len(rmws) == 1 and len(accesses) == 1:
        e = through_locals(kids(rets[0])[0])
        node, (kind, order, amt) = rmws[0]

        def evalx(x, X):
            """the decision expression with the RMW's result replaced by the number X"""
            x = through_locals(x)
            if x is node or (x is not None and x.get("id") == node["id"] and x["k"] == node["k"]):
                return X
            c_ = const_int(x)
            if c_ is not None:
                return c_
            if x["k"] == "UnaryOperator" and x.get("op") == "!":
                v_ = evalx(kids(x)[0], X)
                return None if v_ is None else int(not v_)
            if x["k"] == "ConditionalOperator":
                c__ = evalx(kids(x)[0], X)
                return None if c__ is None else evalx(kids(x)[1] if c__ else kids(x)[2], X)
            if x["k"] == "ParenExpr":
                return evalx(kids(x)[0], X)
            bb = match.binop(x, ("==", "!=", "<", "<=", ">", ">="))
            if bb:
                l_, r_ = evalx(bb[1], X), evalx(bb[2], X)
                if l_ is None or r_ is None:
                    return None
                return int({"==": l_ == r_, "!=": l_ != r_, "<": l_ < r_, "<=": l_ <= r_, ">": l_ > r_, ">=": l_ >= r_}[bb[0]])
            return None
        if amt != 1:
            raise dtable.Undecidable("%s: the reference count is changed by %s" % (dec.loc, amt))
        new_is_result = kind in ("operator--", "operator-=")
        rows = [(X, evalx(e, X)) for X in ((0, 1, 2, 3) if new_is_result else (1, 2, 3, 4))]
        if any(v_ is None for _, v_ in rows):
            raise dtable.Undecidable("%s: form of the release decision not understood: %s" % (dec.loc, dtable.describe(kids(rets[0])[0])))
        want_true = 0 if new_is_result else 1
        wrong = [(X, v_) for X, v_ in rows if bool(v_) != (X == want_true)]
        if not wrong:
            okd = True
        else:
            X, v_ = wrong[0]
            why = "when the %s count is %d the release decision is %s (the object must be released exactly when the new count is 0)" \
                % ("new" if new_is_result else "previous", X, bool(v_))
        if okd and (order is None or order < 4):
            okd = False
            why = "decrement uses memory order %s, needs acq_rel or stronger" % ORDERS.get(order, "?")
    elif len(accesses) > 1:
        why = "the release decision re-reads reference_count_ after the decrement (not the RMW's own result): two releasing threads can both see zero"
    if okd:
        ck.ok("RC-ATOMIC-RMW", dec.qname, "decision is the result of the single atomic %s" % rmws[0][1][0])
    else:
        ck.violation("RC-ATOMIC-RMW", dec.qname, "dec", why, dec.loc)
    # the counter field is atomic
    rec = tu.record(RC)
    fld = [f for f in rec["fields"] if f["name"] == COUNT_FIELD[0]]
    if not fld or not fld[0]["ty"].startswith("std::atomic<"):
        ck.violation("RC-ATOMIC-RMW", RC, "field", "reference_count_ is not a std::atomic", "tlx/counting_ptr.hpp")
    else:
        ck.ok("RC-ATOMIC-RMW", RC + "::reference_count_", fld[0]["ty"], nontrivial=False)
    # copies start at zero, assignment keeps the count
    for fn in tu.find(record=RC):
        if fn.kind == "ctor":
            init = [i for i in fn.inits if i.get("field") == COUNT_FIELD[0]]
            v = None
            if init:
                for x in ir.walk(init[0]["e"]):
                    if const_int(x) is not None:
                        v = const_int(x)
            if v != 0:
                ck.violation("RC-COPY-ZERO", fn.qname, "ctor/%d" % len(fn.params), "a new ReferenceCounter does not start with count 0", fn.loc)
            else:
                ck.ok("RC-COPY-ZERO", "%s/%d" % (fn.qname, len(fn.params)), "reference_count_(0)")
        if fn.d.get("copy_assign"):
            touched = [x for x in ir.walk(fn.body) if x["k"] == "MemberExpr" and match.this_field(x) == COUNT_FIELD[0]]
            if touched:
                ck.violation("RC-COPY-ZERO", fn.qname, "assign", "assignment of the pointee modifies its reference count", fn.loc)
            else:
                ck.ok("RC-COPY-ZERO", fn.qname, "assignment leaves the count alone")
    un = tu.one(qname=RC + "::unique")
    e = kids([x for x in ir.walk(un.body) if x["k"] == "ReturnStmt"][0])[0]
    b = match.binop(e, ("==",))
    if not (b and const_int(b[2]) == 1):
        ck.violation("UNIFY-GUARD", un.qname, "unique", "unique() is not (count == 1)", un.loc)
    else:
        ck.ok("UNIFY-GUARD", un.qname, "count == 1")


def run(ck):
    ck.explanation = (
        "Every special member and modifier of CountingPtr is summarised by a path-sensitive abstract run over a finite alias "
        "model: this->ptr_ in {null,A}, the other handle in {null,A,B} (or the same handle), with or without further external "
        "owners; private helpers, the deleter and temporaries (constructed and destroyed at full-expression end) are inlined "
        "from the IR. Obligation in every scenario: count(o) == number of handles on o, o destroyed exactly once and exactly "
        "when the last handle goes, no count operation on a destroyed object, source nulled by moves, target points to the "
        "source's object. ReferenceCounter: inc/dec are single atomic RMWs and the release decision is the RMW's own result; "
        "copies start at zero. Under sequential consistency of the RMWs these are necessary and, for two-handle histories, "
        "sufficient; arbitrary interleavings are argued from that, not explored.")
    tu = ir.extract("witness/C12_counting_ptr.cpp", roots=[ir.REPO + "/tlx/", ir.VERIF + "/witness/"],
                    ndebug=True)
    check_members(ck, tu)
    check_refcounter(ck, tu)
    if ck.tier == "thorough":
        tu2 = ir.extract("witness/C12_counting_ptr.cpp", roots=[ir.REPO + "/tlx/", ir.VERIF + "/witness/"], ndebug=False)
        check_members(ck, tu2)
        check_refcounter(ck, tu2)
    m = 2 if ck.tier == "thorough" else 1
    ck.floor("RC-CONSERVE", 17 * m)
    ck.floor("RC-ATOMIC-RMW", 3 * m)
    ck.floor("RC-COPY-ZERO", 3 * m)
