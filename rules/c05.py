"""C05 — sequential multiway merge: order automata for the 3/4-way merges (A3),
comparison-operator tables, two-way merge decisions, phase-length conservation,
dispatch/propagation rules, loser-tree driver protocol.

Reporting policy of this file: a violation is reported only on positive evidence (a row of a decision table, a point of
a skeleton evaluation, a path of an automaton whose every statement was understood).  Where an expected shape is merely
not found the rule raises dtable.Undecidable, unless every operation on the relevant state was recognised and classified
(closed world) and none of them is the required effect."""
from engine import ir, dtable, match, order
from engine.ir import kids, strip_casts, const_int, ref_of, walk
from engine.dtable import Undecidable

NS = "tlx::multiway_merge_detail::"

ASSIGN_OPS = ("=", "+=", "-=", "*=", "/=", "%=", "&=", "|=", "^=", "<<=", ">>=")


# ------------------------------------------------------------------ shared helpers
def writes_to(root, did):
    """nodes below root that change the variable did (assignment, compound assignment, ++/--) or take its address"""
    out = []
    for z in walk(root):
        u = match.unop(z, ("++", "--"))
        if u and ref_of(u[1]) == did:
            out.append(z)
            continue
        if z["k"] in ("BinaryOperator", "CompoundAssignOperator", "CXXOperatorCallExpr"):
            b = match.binop(z, ASSIGN_OPS)
            if b and ref_of(b[1]) == did:
                out.append(z)
                continue
        if z["k"] == "UnaryOperator" and z.get("op") == "&" and kids(z) and ref_of(kids(z)[0]) == did:
            out.append(z)
    return out


def local_decl(fn, did):
    for z in walk(fn.body):
        if z["k"] == "VarDecl" and z.get("did") == did:
            return z
    return None


def resolve_local(fn, e, depth=0):
    """e, with a value local that is initialised once and never changed replaced by its initialiser"""
    r = ref_of(match.strip_conv(e))
    if r is None or depth > 4:
        return e
    v = local_decl(fn, r)
    if v is None or not kids(v) or kids(v)[0] is None or (v.get("ty") or "").rstrip().endswith("&"):
        return e
    if writes_to(fn.body, r):
        return e
    return resolve_local(fn, kids(v)[0], depth + 1)


def step_of(e, did):
    """+1 / -1 if the expression statement e moves the variable did by one (++x, x++, x += 1, x = x + 1, ...), else None"""
    u = match.unop(e, ("++", "--"))
    if u and ref_of(u[1]) == did:
        return 1 if u[0] == "++" else -1
    n = strip_casts(e)
    if n is None or n["k"] not in ("BinaryOperator", "CompoundAssignOperator", "CXXOperatorCallExpr"):
        return None
    b = match.binop(n, ("+=", "-="))
    if b and ref_of(b[1]) == did and const_int(b[2]) == 1:
        return 1 if b[0] == "+=" else -1
    b = match.binop(n, ("=",))
    if b and ref_of(b[1]) == did:
        r = match.binop(match.strip_conv(b[2]), ("+", "-"))
        if r and ref_of(r[1]) == did and const_int(r[2]) == 1:
            return 1 if r[0] == "+" else -1
        if r and r[0] == "+" and ref_of(r[2]) == did and const_int(r[1]) == 1:
            return 1
    return None


def relop(n, ops):
    """match.binop for comparisons, with the C++20 form (a <=> b) OP 0 read as a OP b"""
    b = match.binop(n, ops)
    if b and const_int(match.strip_conv(b[2])) == 0:
        inner = match.binop(b[1], ("<=>",))
        if inner:
            return b[0], inner[1], inner[2]
    return b


def fold_int(e):
    """value of an integer constant expression built from literals with + - * / % (as left by replacing a loop index by
    its value), else None"""
    c = const_int(e)
    if c is not None:
        return c
    n = strip_casts(e)
    while n is not None and n["k"] == "ParenExpr" and kids(n):
        n = strip_casts(kids(n)[0])
    if n is None or n["k"] != "BinaryOperator" or n.get("op") not in ("+", "-", "*", "/", "%"):
        return const_int(n) if n is not None else None
    a, b = fold_int(kids(n)[0]), fold_int(kids(n)[1])
    if a is None or b is None or (n["op"] in ("/", "%") and (b <= 0 or a < 0)):
        return None
    return {"+": a + b, "-": a - b, "*": a * b, "/": a // b if b else None, "%": a % b if b else None}[n["op"]]


def closure_expr(fn, n):
    """the value of the closure call n as an expression over the variables of fn: the body of the lambda (of the form
    decl* (if (c) return e;)* return e;) with its parameters replaced by the arguments.  None if n does not call a
    closure; Undecidable if it does but cannot be read this way (captures by copy, another kind of body)"""
    n = strip_casts(n)
    if n is None or n["k"] != "CXXOperatorCallExpr" or n.get("op") != "()" or not kids(n):
        return None
    fx = strip_casts(kids(n)[0])
    if fx is None or "lambda at" not in (fx.get("ty") or ""):
        return None
    where = "%s: closure %s" % (fn.nloc(n), dtable.describe(fx)[:40])
    tu = getattr(fn, "tu", None)
    f = tu.by_did.get(n["callee"].get("did")) if tu is not None else None
    lam = fx if fx["k"] == "LambdaExpr" else None
    if lam is None and ref_of(fx) is not None:
        v = local_decl(fn, ref_of(fx))
        init = match.strip_conv(kids(v)[0]) if v is not None and kids(v) else None
        while init is not None and init["k"] in ("MaterializeTemporaryExpr", "CXXBindTemporaryExpr", "ExprWithCleanups", "ParenExpr") and kids(init):
            init = match.strip_conv(kids(init)[0])
        lam = init if init is not None and init["k"] == "LambdaExpr" else None
    if f is None or f.body is None or lam is None or lam.get("fn") != f.did:
        raise Undecidable(where + ": body not found")
    if any(not c.get("byref") for c in lam.get("captures", [])):
        raise Undecidable(where + " captures by copy")
    args = kids(n)[1:]
    if len(args) != len(f.params):
        raise Undecidable(where + " called with %d arguments for %d parameters" % (len(args), len(f.params)))
    for prm, a in zip(f.params, args):
        if writes_to(f.body, prm["did"]) or not all(z["k"] in ("DeclRefExpr", "IntegerLiteral", "ImplicitCastExpr", "BinaryOperator", "ParenExpr",
                                                              "ArraySubscriptExpr", "UnaryOperator", "CXXOperatorCallExpr", "MemberExpr")
                                                    and not match.unop(z, ("++", "--")) and z.get("op") not in ASSIGN_OPS for z in walk(a)):
            raise Undecidable(where + ": argument %s is not a plain expression" % dtable.describe(a))
    e = dtable.stmts_as_expr([x for x in (kids(f.body) if f.body["k"] == "CompoundStmt" else [f.body])],
                             {prm["did"]: a for prm, a in zip(f.params, args)})
    if e is None:
        raise Undecidable(where + ": body is not a chain of returns")
    return e


def conjuncts(cond):
    out = []

    def flat(n):
        b = match.binop(n, ("&&",))
        if b and strip_casts(n)["k"] == "BinaryOperator":
            flat(b[1]); flat(b[2])
        else:
            out.append(n)
    flat(cond)
    return out


def forwarded(fn, call):
    """None if the call passes the parameters of fn in their order; (position, what is passed instead) if another
    parameter / the callee's default is passed (positive evidence); Undecidable for anything else"""
    args = kids(call)
    if len(args) < len(fn.params):
        raise Undecidable("%s: forwarding call with %d arguments for %d parameters" % (fn.nloc(call), len(args), len(fn.params)))
    for i, p in enumerate(fn.params):
        if writes_to(fn.body, p["did"]):
            raise Undecidable("%s: parameter %s is changed before it is forwarded" % (fn.loc, p["name"]))
        a = args[i]
        if a is None or a["k"] == "DefaultArg":
            return i, "the callee's default argument"
        r = ref_of(match.strip_conv(resolve_local(fn, a)))
        if r == p["did"]:
            continue
        j = fn.param_index(r) if r is not None else None
        if j is not None:
            return i, "parameter %s" % fn.params[j]["name"]
        raise Undecidable("%s: argument %d of the forwarding call not understood: %s" % (fn.nloc(call), i, dtable.describe(a)))
    return None


def spaceship(e, sk):
    """value of (a <=> b) OP 0 (the C++20 spelling of a OP b between iterators) in a skeleton, or NotImplemented"""
    if e["k"] == "CXXOperatorCallExpr" and e.get("op") in ("<", ">", "<=", ">=", "==", "!="):
        b = relop(e, (e["op"],))
        if b and b[1] is not kids(e)[0]:
            l, r = sk.ev(b[1]), sk.ev(b[2])
            isnum = lambda v: isinstance(v, int) and not isinstance(v, bool)
            if isnum(l) and isnum(r):
                return {"<": l < r, ">": l > r, "<=": l <= r, ">=": l >= r, "==": l == r, "!=": l != r}[b[0]]
            return None
    return NotImplemented


def seq_index(sk, e, seqs, K, by_value=True):
    """i if e names the pair seqs[i] in the skeleton sk (seqs[i], *(seqs + i), *s for an iterator s over the pairs, a
    reference local bound to one of these), or (by_value) an object that holds a copy of that pair; the skeleton runs
    with seqs == 0"""
    key = sk.lvalue(e)
    v = None
    if isinstance(key, tuple):
        if key[0] == "elem" and key[1] == seqs:
            v = key[2]
        elif key[0] == "mem":
            v = key[1]
    if isinstance(v, int) and not isinstance(v, bool) and 0 <= v < K:
        return v
    if by_value and key is not None:
        # a local copy of a whole sequence (Pair c = seqs[i]; Pair others[3]; others[j] = seqs[i])
        val = sk.load(key)
        if isinstance(val, tuple) and len(val) == 3 and val[0] == "seq":
            return val[1]
    return None


def pair_index(sk, e, seqs, K):
    """(i, 'first'|'second') if e is seqs[i].first / .second in the skeleton sk"""
    f = match.field_of(e)
    if not f or f[1] not in ("first", "second"):
        return None
    n, base = strip_casts(e), strip_casts(f[0])
    if base is None:
        return None
    if "callee" in base and base.get("op") == "->" and kids(base):
        v = sk.ev(kids(base)[0])
    elif n.get("arrow"):
        v = sk.ev(base)
    else:
        v = seq_index(sk, base, seqs, K)
    if isinstance(v, int) and not isinstance(v, bool) and 0 <= v < K:
        return v, f[1]
    return None


# ------------------------------------------------------------------ 3- and 4-way merges
def _synth(like, k, ch, **kw):
    d = {"k": k, "ch": ch, "id": like.get("id"), "l": like.get("l")}
    if "f" in like:
        d["f"] = like["f"]
    d.update(kw)
    return d


def unroll_const_for(s, limit=16):
    """the statements executed by  for (T i = a; i < b; ++i) body  with constants a, b and a body that neither changes i
    nor leaves the loop: the body with i replaced by a, a + 1, ...; None if s does not have this form"""
    init, cond, inc, body = match.loop_parts(s)
    if init is None or cond is None or inc is None or body is None or init["k"] != "DeclStmt":
        return None
    vs = [v for v in kids(init) if v is not None]
    if len(vs) != 1 or vs[0]["k"] != "VarDecl" or not kids(vs[0]) or (vs[0].get("ty") or "").rstrip().endswith(("&", "*")):
        return None
    did, lo = vs[0]["did"], const_int(match.strip_conv(kids(vs[0])[0]))
    c0 = strip_casts(cond)
    d = step_of(inc, did)
    if lo is None or d is None or c0 is None or c0["k"] != "BinaryOperator":
        return None
    op, l, r = c0.get("op"), kids(c0)[0], kids(c0)[1]
    if ref_of(r) == did and const_int(l) is not None:
        l, r, op = r, l, {"<": ">", ">": "<", "<=": ">=", ">=": "<=", "!=": "!=", "==": "=="}.get(op)
    if ref_of(l) != did or const_int(r) is None or op not in (("<", "<=", "!=") if d > 0 else (">", ">=", "!=")):
        return None
    if d < 0 and "unsigned" in (vs[0].get("ty") or "") and op != "!=":
        return None                      # i >= 0 on an unsigned index does not end the loop
    # the values of i for which the body runs: lo, lo + d, ... up to the bound
    end = const_int(r) + (d if op in ("<=", ">=") else 0)
    if (end - lo) * d < 0 or abs(end - lo) > limit or writes_to(body, did):
        return None
    hi = end
    if any(z["k"] in ("BreakStmt", "ContinueStmt", "ReturnStmt", "GotoStmt", "LabelStmt", "LambdaExpr", "DeclStmt") for z in walk(body)):
        return None

    def repl(n, v):
        if n is None:
            return None
        if n["k"] == "DeclRefExpr" and n["ref"]["id"] == did:
            return {"k": "IntegerLiteral", "val": v, "ty": "int", "id": None, "l": n.get("l")}
        if "ch" in n:
            n = dict(n, ch=[repl(c, v) for c in n["ch"]])
            n.pop("cval", None)
        return n
    out = []
    for v in range(lo, hi, d):
        b = repl(body, v)
        out += [x for x in kids(b) if x is not None] if b["k"] == "CompoundStmt" else [b]
    return out


def bind_this(e, obj):
    """e (an expression of a member function) with *this replaced by the object expression obj"""
    if e is None:
        return None
    if e["k"] == "This":
        return obj
    if "ch" not in e:
        return e
    out = dict(e, ch=[bind_this(c, obj) for c in e["ch"]])
    if e["k"] == "MemberExpr" and e.get("arrow") and kids(e) and strip_casts(kids(e)[0]) is not None and strip_casts(kids(e)[0])["k"] == "This":
        out["arrow"] = False
    return out


def op_table34(fn):
    """order.op_table (truth table of a comparison operator(bi1, bi2) over (sup1, sup2, c12 = comp(*bi1, *bi2), c21 =
    comp(*bi2, *bi1))) that also reads a member function of the iterator class called on one of the two operands
    (bi1.is_sup()) as its body on that operand"""
    p1, p2 = fn.params[0]["did"], fn.params[1]["did"]

    def which(e):
        r = ref_of(e)
        return 1 if r == p1 else 2 if r == p2 else None

    def atomize(n, run):
        n0 = strip_casts(n)
        if n0 is not None and n0.get("member_call") and kids(n0) and which(kids(n0)[0]) and getattr(fn, "tu", None) is not None:
            sub = dtable.inline_call(fn, n0)
            if sub is not None:
                return bool(run.truth(bind_this(sub, strip_casts(kids(n0)[0]))))
        b = match.binop(n, ("==", "!="))
        if b:
            fa, fb = match.field_of(b[1]), match.field_of(b[2])
            if fa and fb and {fa[1], fb[1]} == {"current", "end_"} and which(fa[0]) and which(fa[0]) == which(fb[0]):
                return ("sup%d" % which(fa[0]), b[0] == "!=")
        fc = match.functor_call(n)
        if fc and len(fc[1]) == 2:
            f = match.field_of(fc[0])
            if f and f[1] == "comp_":
                ws = []
                for a in fc[1]:
                    d = match.deref_of(a)
                    ws.append(which(d) if d is not None else None)
                if ws == [1, 2]:
                    return ("c12", False)
                if ws == [2, 1]:
                    return ("c21", False)
                raise Undecidable("%s: comparator applied to unexpected operands" % fn.nloc(n))
        return None
    table = {}
    for s1 in (False, True):
        for s2 in (False, True):
            for c12 in (False, True):
                for c21 in (False, True):
                    r = dtable.Run(atomize, {"sup1": s1, "sup2": s2, "c12": c12, "c21": c21}, fn)
                    try:
                        r.stmt(fn.body)
                        raise Undecidable("%s: comparison operator without return" % fn.loc)
                    except dtable._Stop as st:
                        if st.kind != "return" or st.payload[0] is None:
                            raise Undecidable("%s: unexpected control flow in comparison operator" % fn.loc)
                        table[(s1, s2, c12, c21)] = r.truth(st.payload[0])
                    except dtable._Need as nd:
                        raise Undecidable("%s: unknown atom %s" % (fn.loc, nd.key))
    return table


class MergeProgram34(order.MergeProgram):
    """order.MergeProgram that also finds the k cursors when they are the elements of one local array
    (iterator seq[k] = { iterator(seqs[0].first, seqs[0].second, comp), ... }): seq[c] with a constant c then names a
    cursor; any other use of the array is not a cursor for the automaton (and therefore not understood)"""

    def __init__(self, fn, tu):
        self.seqarr, self.arrmap = None, {}
        try:
            super().__init__(fn, tu)
            return
        except Undecidable:
            if not hasattr(self, "seqvar") or self.seqvar or not hasattr(self, "prog"):
                raise
            if not self.find_array(fn):
                raise
        self.k = len(self.arrmap)
        self.ops = {}

    def find_array(self, fn):
        for s in kids(fn.body):
            if s is None or s["k"] != "DeclStmt":
                continue
            for v in kids(s):
                ty = (v.get("ty") or "").rstrip() if v is not None else ""
                init = kids(v)[0] if v is not None and v.get("k") == "VarDecl" and kids(v) else None
                if init is None or init["k"] != "InitListExpr" or not ty.endswith("]") or ty.count("[") < 1:
                    continue
                amap = {}
                for pos, el in enumerate(kids(init)):
                    e = el
                    while e is not None and e["k"] in ("ExprWithCleanups", "MaterializeTemporaryExpr", "CXXBindTemporaryExpr",
                                                       "CXXFunctionalCastExpr", "ParenExpr") and kids(e):
                        e = kids(e)[0]
                    e = strip_casts(e)
                    idx = []
                    if e is not None and "callee" in e and e["k"] in ("CXXConstructExpr", "CXXTemporaryObjectExpr"):
                        for a in kids(e)[:2]:
                            f = match.field_of(a)
                            q = match.index_parts(f[0]) if f else None
                            if q and ref_of(q[0]) == self.seqs_param and const_int(q[1]) is not None:
                                idx.append((const_int(q[1]), f[1]))
                    if len(idx) == 2 and idx[0][0] == idx[1][0] and (idx[0][1], idx[1][1]) == ("first", "second"):
                        amap[pos] = idx[0][0]
                    elif any(z["k"] == "DeclRefExpr" and z["ref"]["id"] == self.seqs_param for z in walk(el)):
                        raise Undecidable("%s: element %d of %s is not built from (seqs[i].first, seqs[i].second)" % (fn.nloc(v), pos, v["name"]))
                if not amap:
                    continue
                size = ty[ty.rindex("[") + 1:-1].strip()
                n = len(kids(init))
                if len(amap) != n or not size.isdigit() or int(size) != n or sorted(amap.values()) != list(range(n)) or n < 2 \
                        or self.seqarr is not None:
                    raise Undecidable("%s: could not identify the sequence cursors in the array %s" % (fn.nloc(v), v["name"]))
                self.seqarr, self.arrmap = v["did"], amap
        return self.seqarr is not None

    def seq_of(self, e, depth=0):
        r = ref_of(e)
        if r is not None and r in self.seqvar:
            return self.seqvar[r]
        if r is not None and depth < 4:
            # a reference local bound to a cursor names that cursor (a reference is never re-bound)
            v = self.ref_local(r)
            return self.seq_of(kids(v)[0], depth + 1) if v is not None else None
        if self.seqarr is not None:
            q = match.index_parts(e)
            if q and ref_of(q[0]) == self.seqarr:
                c = fold_int(q[1])
                return self.arrmap.get(c) if c is not None else None
        return None

    def ref_local(self, did):
        """the declaration of the lvalue-reference local did (with its initialiser), else None"""
        if not hasattr(self, "_refs"):
            self._refs = {}
            for z in walk(self.fn.body):
                ty = (z.get("ty") or "").rstrip() if z["k"] == "VarDecl" else ""
                if ty.endswith("&") and not ty.endswith("&&") and kids(z) and kids(z)[0] is not None:
                    self._refs[z.get("did")] = z
        return self._refs.get(did)

    def op_sem(self, call):
        did = call["callee"]["did"]
        if did not in self.ops:
            f = self.tu.by_did.get(did)
            if f is None or f.body is None or len(f.params) != 2:
                raise Undecidable("%s: body of comparison operator not in IR" % self.fn.nloc(call))
            self.ops[did] = op_table34(f)
        return self.ops[did]


class Explorer34(order.Explorer):
    """order.Explorer with (a) other spellings of the same statements brought to the shape the automaton reads
    (x += 1, x = x + 1, *target++ = v, !size, 0 == size, !(a < b)) and (b) Undecidable instead of a report where the
    report would rest on a statement that was not understood"""

    def merge_state(self):
        st = set(self.p.seqvar) | {self.p.target, self.p.size}
        if getattr(self.p, "seqarr", None) is not None:
            st.add(self.p.seqarr)
        return st

    # ---- calls of a local closure / a helper function whose body is in the IR are read as their body
    def helper_of(self, e):
        """(body function, argument list, captures or None) if e calls a closure held by a never-reassigned local or a
        function with a body in the IR; None if e is no such call"""
        p = self.p
        n = strip_casts(e)
        if n is None or "callee" not in n or n["k"] not in ("CXXOperatorCallExpr", "CallExpr"):
            return None
        if n["k"] == "CXXOperatorCallExpr":
            if n.get("op") != "()" or not kids(n):
                return None
            r = ref_of(strip_casts(kids(n)[0]))
            if not hasattr(self, "_decls"):
                self._decls = {z.get("did"): z for z in walk(p.fn.body) if z["k"] == "VarDecl"}
            v = self._decls.get(r) if r is not None else None
            lam = match.strip_conv(kids(v)[0]) if v is not None and kids(v) else None
            if lam is None or lam["k"] != "LambdaExpr":
                return None
            f = p.tu.by_did.get(lam.get("fn"))
            if f is None or f.body is None or n["callee"].get("did") != lam.get("fn"):
                return None
            return f, kids(n)[1:], lam.get("captures", [])
        if n.get("member_call") or n["callee"]["name"] == "unused":
            return None
        f = p.tu.by_did.get(n["callee"].get("did"))
        if f is None or f.body is None:
            return None
        # only helpers that receive merge state are read; other calls stay what they were for the automaton
        st = self.merge_state()
        if not any(z["k"] == "DeclRefExpr" and z["ref"]["id"] in st for a in kids(n) if a is not None for z in walk(a)):
            return None
        return f, kids(n), None

    def inline(self, call):
        """(statements, returned expression or None): the body of the called helper with its reference parameters replaced
        by the arguments; Undecidable unless the replacement is exact (arguments are plain variables, merge state is
        passed / captured by reference, the only return is the last statement)"""
        p = self.p
        f, args, caps = self.helper_of(call)
        where = p.fn.nloc(strip_casts(call))
        hname = f.name if caps is None else "closure %s" % dtable.describe(kids(strip_casts(call))[0])
        st = self.merge_state()
        if len(args) != len(f.params):
            raise Undecidable("%s: helper %s called with %d arguments for %d parameters" % (where, hname, len(args), len(f.params)))
        sub = {}
        for prm, a in zip(f.params, args):
            a0 = strip_casts(a)
            if a0 is None or a0["k"] != "DeclRefExpr":
                raise Undecidable("%s: argument of helper %s is not a plain variable: %s" % (where, hname, dtable.describe(a)))
            ty = (prm.get("ty") or "").rstrip()
            byref = ty.endswith("&") and not ty.endswith("&&")
            if not byref and (a0["ref"]["id"] in st or writes_to(f.body, prm["did"])):
                raise Undecidable("%s: helper %s receives %s by value" % (where, hname, a0["ref"].get("name")))
            sub[prm["did"]] = a0
        if caps is not None:
            capd = {c.get("id"): c for c in caps}
            for z in walk(f.body):
                if z["k"] == "DeclRefExpr" and z["ref"]["id"] in st:
                    c = capd.get(z["ref"]["id"])
                    if c is None or not c.get("byref"):
                        raise Undecidable("%s: closure uses %s of the merge state without capturing it by reference"
                                          % (where, z["ref"].get("name")))
                if z["k"] == "This":
                    raise Undecidable("%s: closure uses this" % where)

        def repl(n):
            if n is None:
                return None
            if n["k"] == "DeclRefExpr" and n["ref"]["id"] in sub:
                return sub[n["ref"]["id"]]
            if "ch" in n:
                return dict(n, ch=[repl(c) for c in n["ch"]])
            return n
        body = f.body
        stmts = kids(body) if body["k"] == "CompoundStmt" else [body]
        ret = None
        if stmts and stmts[-1] is not None and stmts[-1]["k"] == "ReturnStmt":
            ret = kids(stmts[-1])[0] if kids(stmts[-1]) else None
            stmts = stmts[:-1]
        for s in stmts:
            for z in walk(s):
                if z["k"] in ("ReturnStmt", "GotoStmt", "LabelStmt", "LambdaExpr"):
                    raise Undecidable("%s: %s inside helper %s not understood" % (p.fn.nloc(z), z["k"], hname))
        return [repl(s) for s in stmts], (repl(ret) if ret is not None else None)

    def hoist_step(self, c):
        """(statement, condition without it) if the condition c tests the value of a prefix ++/-- of the length against a
        constant (if (--size == 0)): the step is done first, then the plain variable is tested"""
        p = self.p
        c0 = strip_casts(c)
        if c0 is None:
            return None
        if c0["k"] == "UnaryOperator" and c0.get("op") == "!" and kids(c0):
            h = self.hoist_step(kids(c0)[0])
            return (h[0], dict(c0, ch=[h[1]])) if h else None
        if c0["k"] == "UnaryOperator" and c0.get("op") in ("++", "--") and not c0.get("postfix") and ref_of(kids(c0)[0]) == p.size:
            return c0, strip_casts(kids(c0)[0])
        if c0["k"] == "BinaryOperator" and c0.get("op") in ("==", "!=", "<", "<=", ">", ">="):
            l, r = kids(c0)
            for i, (x, y) in enumerate(((l, r), (r, l))):
                x0 = strip_casts(x)
                if x0 is not None and x0["k"] == "UnaryOperator" and x0.get("op") in ("++", "--") and not x0.get("postfix") \
                        and ref_of(kids(x0)[0]) == p.size and const_int(y) is not None:
                    var = strip_casts(kids(x0)[0])
                    return x0, dict(c0, ch=[var, y] if i == 0 else [y, var])
        return None

    def norm(self, s):
        p = self.p
        n = strip_casts(s)
        if n is None:
            return s
        k = n["k"]
        # helper / closure calls: as a statement, or as the (possibly negated) condition of an if
        if self.helper_of(n):
            stmts, ret = self.inline(n)
            r0 = match.strip_conv(ret) if ret is not None else None
            if r0 is not None and r0["k"] != "DeclRefExpr" and any(
                    match.unop(z, ("++", "--")) or "callee" in z or
                    (z["k"] in ("BinaryOperator", "CompoundAssignOperator") and z.get("op") in ASSIGN_OPS) for z in walk(ret)):
                stmts = stmts + [ret]        # a returned expression with effects is executed (and must be understood)
            return _synth(n, "CompoundStmt", stmts)
        if k == "IfStmt":
            c, t, e = (kids(n) + [None, None])[:3]
            c0 = strip_casts(c)
            neg = False
            while c0 is not None and c0["k"] == "UnaryOperator" and c0.get("op") == "!" and kids(c0):
                neg, c0 = not neg, strip_casts(kids(c0)[0])
            if c0 is not None and self.helper_of(c0):
                stmts, ret = self.inline(c0)
                if ret is None:
                    raise Undecidable("%s: helper without a returned value used as a condition" % p.fn.nloc(c0))
                cond = _synth(c0, "UnaryOperator", [ret], op="!", ty="bool") if neg else ret
                return _synth(n, "CompoundStmt", stmts + [dict(n, ch=[cond, t, e])])
            h = self.hoist_step(c)
            if h:
                return _synth(n, "CompoundStmt", [h[0], dict(n, ch=[h[1], t, e])])
        if k in ("BinaryOperator", "CompoundAssignOperator", "CXXOperatorCallExpr"):
            for did in (p.target, p.size):
                d = step_of(n, did)
                if d is not None and not match.unop(n, ("++", "--")):
                    b = match.binop(n)
                    return _synth(n, "UnaryOperator", [b[1]], op="++" if d > 0 else "--", ty=n.get("ty"))
            b = match.binop(n, ("=",))
            if b:
                lhs = strip_casts(b[1])
                d = match.deref_of(lhs)
                u = match.unop(d, ("++",)) if d is not None else None
                if u and u[2] and ref_of(u[1]) == p.target:
                    lhs2 = dict(lhs, ch=[u[1]])
                    emit = dict(n, ch=[lhs2, b[2]])
                    inc = _synth(n, "UnaryOperator", [u[1]], op="++", ty=strip_casts(u[1]).get("ty"))
                    return _synth(n, "CompoundStmt", [emit, inc])
        if k == "IfStmt":
            c, t, e = (kids(n) + [None, None])[:3]
            c0 = strip_casts(c)
            zero = {"k": "IntegerLiteral", "val": 0, "ty": "int", "id": None, "l": n.get("l")}
            if ref_of(c) == p.size:
                return dict(n, ch=[_synth(n, "BinaryOperator", [c0, zero], op="!=", ty="bool"), t, e])
            if c0 is not None and c0["k"] == "UnaryOperator" and c0.get("op") == "!" and kids(c0):
                inner = strip_casts(kids(c0)[0])
                if ref_of(inner) == p.size:
                    return dict(n, ch=[_synth(n, "BinaryOperator", [inner, zero], op="==", ty="bool"), t, e])
                if inner is not None and "callee" in inner and inner.get("op") in ("<", "<=", ">", ">=") and e is not None:
                    return dict(n, ch=[inner, e, t])
                if inner is not None and "callee" in inner and inner.get("op") in ("<", "<=", ">", ">="):
                    return dict(n, ch=[inner, {"k": "NullStmt", "id": None, "l": n.get("l")}, t])
            b = match.binop(c, ("==", "!=", "<", "<=", ">", ">="))
            if b and c0["k"] == "BinaryOperator":
                if ref_of(b[2]) == p.size and const_int(b[1]) == 0:
                    op = {"==": "==", "!=": "!=", "<": ">", ">=": "<="}.get(b[0])
                    if op:
                        return dict(n, ch=[_synth(n, "BinaryOperator", [b[2], zero], op=op, ty="bool"), t, e])
                if ref_of(b[1]) == p.size and const_int(b[2]) == 1 and b[0] in ("<", ">="):
                    return dict(n, ch=[_synth(n, "BinaryOperator", [b[1], zero], op="<=" if b[0] == "<" else ">", ty="bool"), t, e])
        return s

    def exec_stmt(self, s, cfg, pend):
        if s is not None and s["k"] == "DeclStmt":
            # the automaton skips declarations: a local that reads or copies the merge state would escape it
            st = self.merge_state()
            for v in kids(s):
                if v is None or v.get("k") != "VarDecl" or v.get("did") in self.p.seqvar or \
                        v.get("did") == getattr(self.p, "seqarr", None):
                    continue
                if self.p.ref_local(v.get("did")) is not None and self.p.seq_of(kids(v)[0]) is not None:
                    continue                   # Iterator& h = seq[2]: h is read as seq[2] wherever it is used
                for z in walk(v):
                    if z["k"] == "DeclRefExpr" and z["ref"]["id"] in st:
                        raise Undecidable("%s: local %s is initialised from the merge state" % (self.p.fn.nloc(v), v.get("name")))
        elif s is not None:
            s = self.norm(s)
        return super().exec_stmt(s, cfg, pend)

    def check_finish(self, name):
        if self.finish_checked:
            return
        self.finish_checked = True
        p = self.p
        idx = p.labels[name]
        j = idx + 1
        written = {}
        ret_seen = False
        blk = []
        while j < len(p.prog) and p.prog[j][0] == "stmt":
            s = p.prog[j][1]
            j += 1
            # for (int i = 0; i < k; ++i) seqs[i].first = ...: the rounds of a loop with constant bounds, one by one
            rounds = unroll_const_for(s) if s is not None and s["k"] == "ForStmt" else None
            blk += rounds if rounds is not None else [s]
        for s in blk:
            b = match.binop(s, ("=",))
            if b:
                f = match.field_of(b[1])
                c = match.call_named(b[2], ("iterator",))
                if f and f[1] == "first" and c and kids(c):
                    q = match.index_parts(f[0])
                    if q and ref_of(q[0]) == p.seqs_param and fold_int(q[1]) is not None:
                        x = p.seq_of(kids(c)[0])
                        if x is None:
                            raise Undecidable("%s: object written back in the finish block is not a sequence cursor" % p.fn.nloc(s))
                        if fold_int(q[1]) in written:
                            raise Undecidable("%s: seqs[%d].first is written twice in the finish block" % (p.fn.nloc(s), fold_int(q[1])))
                        written[fold_int(q[1])] = x
                        continue
            if s["k"] == "ReturnStmt":
                e = match.strip_conv(kids(s)[0]) if kids(s) else None
                if e is None or ref_of(e) != p.target:
                    raise Undecidable("%s: value returned by the finish block not understood" % p.fn.nloc(s))
                ret_seen = True
                continue
            raise Undecidable("%s: statement not understood in the finish block" % p.fn.nloc(s))
        if not ret_seen:
            raise Undecidable("%s: finish block without return" % p.fn.loc)
        # closed world: every statement of the function is one the automaton reads, the finish block holds only
        # write-backs and the return
        for i in range(p.k):
            if written.get(i) != i:
                self.report("MERGE34-WRITEBACK", "seq%d" % i,
                            "finish block does not write cursor %d back to seqs[%d].first (writes %s)" % (i, i, written.get(i)),
                            p.prog[idx][2])


def check_merge34(ck, tu):
    for name, k in (("multiway_merge_3_variant", 3), ("multiway_merge_4_variant", 4)):
        fns = tu.some(qname=NS + name)
        for fn in fns:
            ck.guarded(lambda fn=fn, name=name, k=k: merge34_one(ck, tu, fn, name, k))


def merge34_one(ck, tu, fn, name, k):
    guarded = "unguarded_iterator" not in fn.targs[0]
    reported = set()

    def report(rule, sig, msg, node):
        if (rule, sig) in reported:
            return
        reported.add((rule, sig))
        ck.violation(rule, fn.qname, ("guarded:" if guarded else "unguarded:") + sig, msg, fn.nloc(node))
    prog = MergeProgram34(fn, tu)
    ck.require(prog.k == k, "%s: %d sequence cursors found, expected %d" % (fn.loc, prog.k, k))
    ex = Explorer34(prog, guarded, report)
    n = ex.run()
    ck.states += n
    labels = len(prog.labels) - len(ex.finish_labels())
    ck.require(ex.finish_checked, "%s: finish block never reached" % fn.loc)
    where = "%s<%s>" % (name, "guarded" if guarded else "unguarded")
    if not reported:
        ck.ok("MERGE34-STABLE-MIN", where, "%d abstract states (label x weak order of %d heads), %d emissions checked, %d transitions over %d labels"
              % (n, k, ex.emissions, ex.transitions, labels),
              sample=dict(rule="MERGE34-STABLE-MIN", fn=where, states=n, emissions=ex.emissions, labels=labels))
        ck.ok("MERGE34-PAIRING", where, "every emission is followed by ++target, --size, ++same sequence and a length test")
        ck.ok("MERGE34-WRITEBACK", where, "finish writes all %d cursors back and returns target" % k)
    # operator tables of this iterator class
    for did, table in prog.ops.items():
        opfn = tu.by_did[did]
        opname = opfn.d.get("op") or opfn.name.replace("operator", "")
        bad = order.check_op_table(table, opname, guarded)
        w = "%s %s" % ("guarded_iterator" if guarded else "unguarded_iterator", opfn.name)
        if bad:
            row, got, want = bad[0]
            ck.violation("GUARD-OPS-TABLE", opfn.qname, ("guarded:" if guarded else "unguarded:") + opname,
                         "%s returns %s for (exhausted1=%s, exhausted2=%s, comp(1,2)=%s, comp(2,1)=%s), must be %s"
                         % (opfn.name, got, row[0], row[1], row[2], row[3], want), opfn.loc)
        else:
            ck.ok("GUARD-OPS-TABLE", w + " (k=%d)" % k, "truth table over (exhausted1, exhausted2, comp12, comp21) matches %s" % opname)


def check_all(ck, tu):
    check_merge34(ck, tu)
    check_merge2(ck, tu)
    check_combined(ck, tu)
    check_prepare(ck, tu)
    check_dispatch(ck, tu)
    check_lt_protocol(ck, tu)
    check_bubble(ck, tu)


def run(ck):
    ck.explanation = (
        "The 3- and 4-way goto-encoded merges are read as goto programs and explored as order automata: abstract state = (label, "
        "weak order of the k heads incl. exhausted); comparisons are evaluated with the truth tables extracted from the iterator "
        "classes' own operator< / operator<=; at every emission the emitted head must be the stable minimum, every emission must be "
        "paired with ++target, --size, ++that sequence and a length test, and the finish block must write all cursors back. Two-way "
        "merges, the bubble merge, the loser-tree drivers, prepare_unguarded, the combined variants' phase lengths and the dispatcher "
        "are decided by decision tables, typestate and skeleton evaluation on the instantiated AST. Given sorted inputs and size <= "
        "total this decides order, stability and the advance contract of the k<=4 variants completely; for k>=5 the global order "
        "rests on C09 plus the tournament argument (stated, not machine-checked). Length arithmetic inside prepare_unguarded and "
        "k=1 copy are not decided. A construct that is not understood is reported as undecidable (exit 2), never as a violation.")
    ck.assumptions = ["inputs are sorted by the comparator, which is a strict weak order", "size <= total number of elements",
                      "sentinel variants: each sequence is followed by a sentinel greater than all real elements"]
    tu = ir.extract("witness/C05_multiway_merge.cpp")
    check_all(ck, tu)
    # the k >= 5 variants stand on the loser trees: their replay / initialisation tables are decided for the tree classes
    # instantiated here (copy-based for small elements, pointer-based for elements larger than two words)
    from rules import c09
    from rules.parcommon import check_comp_threaded_all
    nct = check_comp_threaded_all(ck, tu, ("tlx::multiway_merge_detail::", "tlx::multiway_merge", "tlx::stable_multiway_merge"))
    ck.require(nct >= 2, "no standard ordering algorithm found in the merge functions")
    n_trees = c09.check_trees_in(ck, tu)
    tu_big = ir.extract("witness/C05_multiway_merge.cpp", defines=["WITNESS_T=std::string"], extra_flags=["-include", "string"])
    n_trees += c09.check_trees_in(ck, tu_big)
    ck.require(n_trees >= 8, "expected the copy- and pointer-based loser trees (guarded and unguarded, stable and unstable), found %d" % n_trees)
    if ck.tier == "thorough":
        for defs in (["WITNESS_T=std::string"], ["WITNESS_GREATER"]):
            tu2 = ir.extract("witness/C05_multiway_merge.cpp", defines=defs, extra_flags=["-include", "string"])
            check_all(ck, tu2)
    m = 3 if ck.tier == "thorough" else 1
    for rule, n in (("MERGE34-STABLE-MIN", 4), ("MERGE34-PAIRING", 4), ("MERGE34-WRITEBACK", 4), ("GUARD-OPS-TABLE", 8),
                    ("MERGE2-TABLE", 3), ("PHASE-LENGTH-SUM", 4), ("TAIL-ORDER", 2), ("PREPARE-BOUNDS", 2),
                    ("DISPATCH-TOTAL", 60), ("STABLE-PROPAGATE", 4), ("SENTINEL-REACH", 4), ("FRONTEND-FLAGS", 4),
                    ("LT-PROTOCOL", 3), ("BUBBLE-TABLE", 2)):
        ck.floor(rule, n * m)


# ------------------------------------------------------------------ two-way merge
def check_merge2(ck, tu):
    for name in ("merge_advance_usual", "merge_advance_movc"):
        for fn in tu.some(qname="tlx::" + name):
            ck.guarded(lambda fn=fn: merge2_one(ck, fn))
    for fn in tu.some(qname="tlx::merge_advance"):
        ck.guarded(lambda fn=fn: merge2_forward(ck, fn))


def merge2_forward(ck, fn):
    calls = [x for x in walk(fn.body) if match.call_named(x, ("merge_advance_movc", "merge_advance_usual")) and x["k"] == "CallExpr"]
    if not calls:
        raise Undecidable("%s: merge_advance does not call one of the two-way merges directly" % fn.loc)
    for c in calls:
        bad = forwarded(fn, c)
        if bad:
            ck.violation("MERGE2-TABLE", fn.qname, "forward", "merge_advance does not forward its parameters in order: argument %d is %s"
                         % (bad[0] + 1, bad[1]), fn.nloc(c))
            return
    ck.ok("MERGE2-TABLE", fn.qname + " (forward)", "forwards all 7 parameters in their roles", nontrivial=False)


def merge2_one(ck, fn):
    ck.require(len(fn.params) == 7, "%s: seven parameters expected" % fn.loc)
    b1, e1, b2, e2, target, msize, comp = [p["did"] for p in fn.params]
    state = {b1, b2, target, msize}
    seqs = ((1, b1, e1), (2, b2, e2))
    top = [s for s in kids(fn.body) if s is not None]
    loops = [i for i, s in enumerate(top) if s["k"] in ("WhileStmt", "ForStmt", "DoStmt")]
    ck.require(len(loops) == 1 and top[loops[0]]["k"] != "DoStmt", "%s: one merge loop expected" % fn.loc)
    loop = top[loops[0]]
    init, cond, inc, body = match.loop_parts(loop)
    # statements in front of the loop that use the merge state (an early return, say) are evaluated together with the
    # statements behind it: on an input that does not enter the loop the function is exactly these two parts
    pre = [s_ for s_ in top[:loops[0]] if any(z["k"] == "DeclRefExpr" and z["ref"]["id"] in state for z in walk(s_))]
    if init is not None and any(z["k"] == "DeclRefExpr" and z["ref"]["id"] in state for z in walk(init)):
        raise Undecidable("%s: merge state used in the initialisation of the merge loop" % fn.nloc(init))
    ck.require(cond is not None, "%s: merge loop without a guard" % fn.loc)
    # loop guard: all three conjuncts
    have, unknown = set(), []
    for c in conjuncts(cond):
        if const_int(c) is not None and const_int(c):
            continue
        kind = None
        b = relop(c, ("!=", "<", ">"))
        if b:
            l, r = ref_of(b[1]), ref_of(b[2])
            for w, bx, ex in seqs:
                if (b[0] == "!=" and {l, r} == {bx, ex}) or (b[0], l, r) in (("<", bx, ex), (">", ex, bx)):
                    kind = "seq%d" % w
        if kind is None and match.positive_test(c, msize):
            kind = "size"
        if kind is None:
            unknown.append(c)
        else:
            have.add(kind)
    if unknown:
        raise Undecidable("%s: conjunct of the merge loop guard not understood: %s" % (fn.nloc(unknown[0]), dtable.describe(unknown[0])))
    if have != {"seq1", "seq2", "size"}:
        # closed world: the guard is a conjunction of recognised tests only; the loop must not be left any other way
        if any(z["k"] in ("BreakStmt", "ReturnStmt", "GotoStmt") for z in walk(body)):
            raise Undecidable("%s: merge loop is left from inside its body" % fn.nloc(loop))
        ck.violation("MERGE2-TABLE", fn.qname, "loop-guard", "merge loop guard lacks %s" % sorted({"seq1", "seq2", "size"} - have), fn.nloc(cond))
        return

    def symval(e, env, adv, rr=None):
        """e1 / e2: head of a sequence as it was at the loop head; succ(eW): the element behind it; nextW: the iterator
        behind the head; None: not understood"""
        e = strip_casts(e)
        if e is None:
            return None
        if e["k"] == "ConditionalOperator" and rr is not None:
            c, a, b = kids(e)
            return symval(a if rr.truth(c) else b, env, adv, rr)
        d = match.deref_of(e)
        ip = match.index_parts(e) if d is None else None
        if ip and const_int(ip[1]) == 0:
            d = ip[0]
        if d is not None:
            u = match.unop(d, ("++",))
            base = u[1] if u else d
            r = ref_of(base)
            if r in (b1, b2):
                w = 1 if r == b1 else 2
                moved = adv is not None and ("adv", w) in adv
                if u:
                    if adv is None:
                        return None
                    adv.append(("adv", w))
                    if not u[2]:
                        moved = True
                return ("succ(e%d)" if moved else "e%d") % w
            v = symval(base, env, None) if not u else None
            if isinstance(v, str) and v.startswith("next"):
                return "succ(e%s)" % v[4:]
            return None
        if e["k"] == "DeclRefExpr":
            v = env.get(e["ref"]["id"])
            if isinstance(v, str):
                return v
            if isinstance(v, dict):
                return symval(v, env, None)
            return None
        b = match.binop(e, ("+",))
        if b and const_int(b[2]) == 1 and ref_of(b[1]) in (b1, b2):
            w = 1 if ref_of(b[1]) == b1 else 2
            if adv is not None and ("adv", w) in adv:
                return None
            return "next%d" % w
        if "callee" in e and e["callee"]["name"] in ("move", "forward") and len(kids(e)) == 1:
            return symval(kids(e)[0], env, adv, rr)
        return None

    def atomize(n, run):
        ce = closure_expr(fn, n)
        if ce is not None:
            return bool(run.truth(ce))
        fc = match.functor_call(n)
        if fc and ref_of(fc[0]) == comp and len(fc[1]) == 2:
            a, b = symval(fc[1][0], run.env, None), symval(fc[1][1], run.env, None)
            if (a, b) == ("e2", "e1"):
                return ("comp(e2,e1)", False)
            if (a, b) == ("e1", "e2"):
                return ("comp(e1,e2)", False)
            raise Undecidable("%s: comparator on unexpected operands" % fn.nloc(n))
        return None
    step = body if inc is None else {"k": "CompoundStmt", "ch": [body, inc], "id": None, "l": loop.get("l")}
    leaves = dtable.explore(step, atomize, fn)
    atoms = ["comp(e2,e1)", "comp(e1,e2)"]
    bad = False
    rows = 0
    for v, lf in dtable.table(leaves, lambda v: not (v["comp(e2,e1)"] and v["comp(e1,e2)"]), atoms):
        rows += 1
        if lf["stop"][0] != "end":
            raise Undecidable("%s: %s inside the merge loop" % (fn.nloc(loop), lf["stop"][0]))
        env = {d: x for d, x in lf["run"].env.items() if isinstance(x, bool)}
        emitted, adv = [], []
        rr = dtable.Run(atomize, dict(v), fn)
        rr.env = env
        try:
            for ev in lf["events"]:
                if ev[0] == "decl":
                    vd = ev[1]
                    if kids(vd):
                        env[vd["did"]] = symval(kids(vd)[0], env, adv, rr)
                    continue
                if ev[0] != "expr":
                    raise Undecidable("%s: unexpected %s in merge loop" % (fn.loc, ev[0]))
                e = ev[1]
                if step_of(e, target) is not None or step_of(e, msize) is not None:
                    continue
                hit = False
                for w, bx, ex in seqs:
                    if step_of(e, bx) == 1:
                        adv.append(("adv", w))
                        hit = True
                if hit:
                    continue
                b = match.binop(e, ("=",))
                if b:
                    lhs = strip_casts(b[1])
                    d = match.deref_of(lhs)
                    if d is not None:
                        u = match.unop(d, ("++",))
                        if ref_of(u[1] if u else d) == target and (not u or u[2]):
                            val = symval(b[2], env, adv, rr)
                            if val is None:
                                raise Undecidable("%s: value written to the output not understood: %s" % (fn.nloc(e), dtable.describe(b[2])))
                            emitted.append(val)
                            continue
                    if lhs["k"] == "DeclRefExpr":
                        did = lhs["ref"]["id"]
                        if did in (b1, b2):
                            w = 1 if did == b1 else 2
                            if symval(b[2], env, adv, rr) == "next%d" % w:
                                adv.append(("adv", w))
                                continue
                            raise Undecidable("%s: cursor assigned something else than its successor" % fn.nloc(e))
                        if did not in state:
                            env[did] = symval(b[2], env, adv, rr)
                            continue
                raise Undecidable("%s: effect not understood in merge loop: %s" % (fn.nloc(e), dtable.describe(e)))
        except dtable._Need as nd:
            raise Undecidable("%s: condition inside the merge loop not understood (%s)" % (fn.nloc(loop), nd.key))
        want = 2 if v["comp(e2,e1)"] else 1
        if emitted != ["e%d" % want] or adv != [("adv", want)]:
            ck.violation("MERGE2-TABLE", fn.qname, "row:" + dtable.fmt_val(v),
                         "two-way merge must take from sequence %d (%s) but emits %s and advances %s"
                         % (want, dtable.fmt_val(v), emitted, [a[1] for a in adv]), fn.nloc(loop))
            bad = True
    # tail copy: the statements behind the loop as a decision table over (sequence 1 live, sequence 2 live)
    post = top[loops[0] + 1:]
    ck.require(post, "%s: nothing behind the merge loop" % fn.loc)

    def atomize_tail(n, run):
        ce = closure_expr(fn, n)
        if ce is not None:
            return bool(run.truth(ce))
        b = relop(n, ("==", "!=", "<", ">"))
        if b:
            l, r = ref_of(b[1]), ref_of(b[2])
            for w, bx, ex in seqs:
                if b[0] in ("==", "!=") and {l, r} == {bx, ex}:
                    return ("live%d" % w, b[0] == "==")
                if (b[0], l, r) in (("<", bx, ex), (">", ex, bx)):
                    return ("live%d" % w, False)
        if match.positive_test(n, msize):
            return ("size>0", False)
        b = match.binop(n, ("==", "<=", "<"))
        if b and ref_of(b[1]) == msize and ((b[0] in ("==", "<=") and const_int(b[2]) == 0) or (b[0] == "<" and const_int(b[2]) == 1)):
            return ("size>0", True)
        return None

    def tail_event(e):
        """('copy', w) / ('adv', w) for the two effects of the tail, Undecidable for anything else"""
        call = None
        b = match.binop(e, ("=",))
        if b and ref_of(b[1]) == target:
            call = match.call_named(match.strip_conv(b[2]), ("copy", "copy_n"))
            if call is None:
                raise Undecidable("%s: assignment to the output position not understood: %s" % (fn.nloc(e), dtable.describe(e)))
        if call is not None:
            a = [x for x in kids(call) if x is not None]
            if len(a) != 3:
                raise Undecidable("%s: copy with %d arguments" % (fn.nloc(e), len(a)))
            src, dst = ref_of(match.strip_conv(a[0])), ref_of(match.strip_conv(a[2]))
            if call["callee"]["name"] == "copy":
                q = match.binop(match.strip_conv(a[1]), ("+",))
                length_ok = bool(q) and {ref_of(q[1]), ref_of(q[2])} == {src, msize}
            else:
                length_ok = ref_of(a[1]) == msize
            if src in (b1, b2) and dst == target and length_ok:
                return ("copy", 1 if src == b1 else 2)
            raise Undecidable("%s: range of the tail copy not understood: %s" % (fn.nloc(e), dtable.describe(call)))
        for w, bx, ex in seqs:
            q = match.binop(e, ("+=",))
            if q and ref_of(q[1]) == bx and ref_of(q[2]) == msize:
                return ("adv", w)
            q = match.binop(e, ("=",))
            if q and ref_of(q[1]) == bx:
                r = match.binop(match.strip_conv(q[2]), ("+",))
                if r and {ref_of(r[1]), ref_of(r[2])} == {bx, msize}:
                    return ("adv", w)
            c = match.call_named(e, ("advance",))
            if c is not None and len(kids(c)) == 2 and ref_of(kids(c)[0]) == bx and ref_of(kids(c)[1]) == msize:
                return ("adv", w)
        raise Undecidable("%s: effect not understood behind the merge loop: %s" % (fn.nloc(e), dtable.describe(e)))
    tail = {"k": "CompoundStmt", "ch": pre + post, "id": None, "l": post[0].get("l")}
    tleaves = dtable.explore(tail, atomize_tail, fn)
    tatoms = list(dict.fromkeys(["live1", "live2"] + dtable.atoms_of(tleaves)))
    for v, lf in dtable.table(tleaves, None, tatoms):
        if v["live1"] == v["live2"] or not v.get("size>0", True):
            continue          # both live: only with max_size == 0; none live: size > total; max_size == 0: nothing to copy
        want = 1 if v["live1"] else 2
        if lf["stop"][0] != "return":
            raise Undecidable("%s: the statements behind the merge loop end with %s" % (fn.loc, lf["stop"][0]))
        evs = []
        for ev in lf["events"]:
            if ev[0] == "decl" and "lambda at" in (ev[1].get("ty") or ""):
                continue          # a closure object is made: nothing happens until it is called
            if ev[0] != "expr":
                raise Undecidable("%s: unexpected %s behind the merge loop" % (fn.loc, ev[0]))
            evs.append(tail_event(ev[1]))
        rv = lf["stop"][1][0]
        if rv is None or ref_of(match.strip_conv(rv)) != target:
            raise Undecidable("%s: value returned by the two-way merge not understood" % fn.loc)
        rows += 1
        if evs != [("copy", want), ("adv", want)]:
            # closed world: every effect behind the loop is a copy of max_size elements or an advance by max_size
            ck.violation("MERGE2-TABLE", fn.qname, "tail", "after the loop the remaining length is not copied from the non-exhausted sequence and that cursor advanced"
                         " (with sequence %d left: %s)" % (want, ", ".join("%s %d" % e for e in evs) or "nothing"), fn.nloc(post[0]))
            bad = True
            break
    ck.states += rows
    if not bad:
        ck.ok("MERGE2-TABLE", fn.qname, "3 rows: take sequence 2 iff comp(e2,e1), emit+advance the same sequence; tail copies max_size from the live sequence")


# ------------------------------------------------------------------ combined variants
UNGUARDED_PHASE = ("multiway_merge_3_variant", "multiway_merge_4_variant", "multiway_merge_loser_tree_unguarded")
GUARDED_PHASE = ("merge_advance", "multiway_merge_3_variant", "multiway_merge_loser_tree")


def size_arg(call):
    a = kids(call)
    return a[5] if call["callee"]["name"] == "merge_advance" else a[3]


def target_arg(call):
    a = kids(call)
    return a[4] if call["callee"]["name"] == "merge_advance" else a[2]


def _bare_ty(t):
    t = (t or "").strip()
    if t.startswith("const "):
        t = t[6:]
    return t.rstrip("&").strip()


_BUILTIN_TYPE_WORDS = {"const", "volatile", "unsigned", "signed", "long", "short", "int", "char", "bool", "float", "double", "void",
                       "wchar_t", "char8_t", "char16_t", "char32_t", "__int128", "size_t", "ptrdiff_t"}


def project_type(ty):
    """does the type name a class that is not one of the standard library (a class of the project, a local struct, a
    closure type - also as a template argument)?  Objects of such types run constructors / destructors whose bodies the
    skeleton does not follow."""
    import re
    ty = re.sub(r"\(lambda at [^)]*\)", "", ty or "")     # a closure object by itself does nothing; its calls are what counts
    for tok in re.findall(r"[A-Za-z_][A-Za-z0-9_]*(?:::[A-Za-z_][A-Za-z0-9_]*)*", ty or ""):
        if tok in _BUILTIN_TYPE_WORDS or tok.startswith(("std::", "__gnu_cxx::")):
            continue
        return True
    return "(" in (ty or "")


def is_pair_member(e):
    """e is x.first / x.second of a std::pair"""
    e = strip_casts(e)
    while e is not None and e["k"] == "ParenExpr" and kids(e):
        e = strip_casts(kids(e)[0])
    return e is not None and e["k"] == "MemberExpr" and e.get("member") in ("first", "second") and \
        (e.get("owner") or "std::pair").startswith("std::pair")


def side_effect_free(e):
    """no ++/--, assignment or call of a function (operators of iterators apart) below e"""
    for z in walk(e):
        if match.unop(z, ("++", "--")):
            return False
        if z["k"] in ("BinaryOperator", "CompoundAssignOperator", "CXXOperatorCallExpr") and z.get("op") in ASSIGN_OPS:
            return False
        if "callee" in z and z["k"] in ("CallExpr", "CXXMemberCallExpr"):
            return False
    return True


def skel_with_arrays():
    """skel.Skel in which a local builtin array T a[n] has an address: a[i], *(a + i) name the element ('mem', address
    + i), a + n is the address behind it; the elements of an initialiser list are stored.  Addresses start at 100 (the
    caller's sequences are the small numbers)"""
    from engine import skel

    class SkelArrays(skel.Skel):
        def ev(self, e):
            n = match.strip_conv(e)
            if n is not None and n["k"] == "UnaryOperator" and n.get("op") == "&" and kids(n) and side_effect_free(kids(n)[0]) \
                    and not is_pair_member(kids(n)[0]):
                # &a[i], &*p of an object that has an address in the skeleton is that address (a number)
                isnum = lambda v: isinstance(v, int) and not isinstance(v, bool)
                key = self.lvalue(kids(n)[0])
                if isinstance(key, tuple) and key[0] == "mem" and isnum(key[1]):
                    return key[1]
                if isinstance(key, tuple) and key[0] == "elem" and isnum(key[2]) and isnum(self.load(key[1])):
                    return self.load(key[1]) + key[2]
            if n is not None and n["k"] == "CallExpr" and "callee" not in n:
                # a call through a pointer to a function: the function if the pointer names exactly one, else not followed
                direct = self.resolve_indirect(n)
                if direct is not None:
                    return self.ev(direct)
                if getattr(self, "on_object", None) is not None:
                    self.on_object(n)
            try:
                return super().ev(e)
            except TypeError:
                # arithmetic on a value that is not a number (a pointer to an object, an iterator into a container)
                raise Undecidable("%s: arithmetic on a pointer / iterator not understood at line %s: %s"
                                  % (self.fn.full, (e or {}).get("l"), dtable.describe(e)[:60]))

        def resolve_indirect(self, n, depth=0):
            f0 = strip_casts(kids(n)[0]) if kids(n) else None
            while f0 is not None and (f0["k"] == "ParenExpr" or (f0["k"] == "UnaryOperator" and f0.get("op") in ("&", "*"))) and kids(f0):
                f0 = strip_casts(kids(f0)[0])
            r = ref_of(f0)
            if r is None or self.tu is None or depth > 3:
                return None
            f = self.tu.by_did.get(r)
            if f is None:
                # a pointer variable that is initialised once and never assigned
                v = next((z for z in walk(self.fn.body) if z["k"] == "VarDecl" and z.get("did") == r), None)
                if v is None or not kids(v) or kids(v)[0] is None or writes_to(self.fn.body, r):
                    return None
                return self.resolve_indirect(dict(n, ch=[kids(v)[0]] + kids(n)[1:]), depth + 1)
            if f.body is None:
                return None
            out = dict(n, callee={"did": f.did, "name": f.name, "qname": f.qname, "targs": list(f.targs)}, ch=kids(n)[1:])
            out.pop("indirect", None)
            return out

        def stmt(self, s):
            if s is None or s["k"] != "DeclStmt":
                return super().stmt(s)
            super().stmt(s)
            for v in kids(s):
                # an object of a project type runs a constructor / destructor whose body is not followed
                if v is not None and v.get("k") == "VarDecl" and getattr(self, "on_object", None) is not None:
                    ty = (v.get("ty") or "").rstrip()
                    if project_type(ty) or (ty.endswith(("&", "*")) and kids(v) and any(is_pair_member(z) for z in walk(kids(v)[0]))) \
                            or not v.get("name"):
                        self.on_object(v)      # also: a reference to one iterator of a pair, the object of a structured binding
            for v in kids(s):
                # a closure object is made: what it captures by copy is fixed now
                lam = self.closure_of(kids(v)[0]) if v is not None and v.get("k") == "VarDecl" and kids(v) and "lambda at" in (v.get("ty") or "") else None
                if lam is not None and any(not c.get("byref") for c in lam.get("captures", [])):
                    if not hasattr(self, "_snaps"):
                        self._snaps = {}
                    self._snaps[lam.get("id")] = self.capture(lam)
            for v in kids(s):
                ty = (v.get("ty") or "").rstrip() if v is not None and v.get("k") == "VarDecl" else ""
                if not ty.endswith("]") or ty.count("[") != 1:
                    continue
                size = ty[ty.rindex("[") + 1:-1].strip()
                if not size.isdigit():
                    continue
                if not hasattr(self, "arrays"):
                    self.arrays = {}
                base = 100 * (len(self.arrays) + 1)
                if int(size) >= 100 or base >= 900:
                    continue
                self.arrays[base] = int(size)
                self.env[v["did"]] = base
                init = kids(v)[0] if kids(v) else None
                if init is not None and init["k"] == "InitListExpr":
                    for i, el in enumerate(kids(init)):
                        self.store(("mem", base + i), self.ev(el))

        def inline(self, e, args):
            r = self.inline_closure(e, args)
            if r is NotImplemented:
                r = super().inline(e, args)
            if r is NotImplemented and getattr(self, "on_uninlined", None) is not None:
                self.on_uninlined(e)      # a call that is evaluated without its body
            return r

        def closure_of(self, fx):
            """the LambdaExpr that made the closure object fx: the expression itself or the initialiser of the local
            that holds it (a closure object cannot be assigned to)"""
            fx = strip_casts(fx)
            while fx is not None and fx["k"] in ("MaterializeTemporaryExpr", "CXXBindTemporaryExpr", "ExprWithCleanups", "ParenExpr",
                                                 "CXXConstructExpr") and len(kids(fx)) == 1:
                fx = strip_casts(kids(fx)[0])
            if fx is None:
                return None
            if fx["k"] == "LambdaExpr":
                return fx
            r = ref_of(fx)
            if r is None or self.depth > 8:
                return None
            if not hasattr(self, "_decls"):
                self._decls = {}
            d = self._decls.get(id(self.fn))
            if d is None:
                d = self._decls[id(self.fn)] = {z.get("did"): z for z in walk(self.fn.body) if z["k"] == "VarDecl"}
            v = d.get(r)
            if v is None or not kids(v) or (v.get("ty") or "").rstrip().endswith(("&", "*")):
                return None
            self.depth += 1
            try:
                return self.closure_of(kids(v)[0]) if strip_casts(kids(v)[0]) is not None and strip_casts(kids(v)[0])["k"] != "DeclRefExpr" else None
            finally:
                self.depth -= 1

        def inline_closure(self, e, args):
            """a call of a closure whose lambda captures by reference only runs the body of the lambda on the variables
            of the enclosing function (the body refers to them by their own declarations)"""
            if e["k"] != "CXXOperatorCallExpr" or e.get("op") != "()" or not args or self.tu is None or self.depth >= 5:
                return NotImplemented
            callee = self.tu.by_did.get(e["callee"].get("did"))
            lam = self.closure_of(args[0])
            if callee is None or callee.body is None or callee.kind != "lambda" or lam is None or lam.get("fn") != callee.did:
                return NotImplemented
            if any(z["k"] == "This" for z in walk(callee.body)):
                return NotImplemented
            # variables captured by copy have, inside the body, the value they had when the closure was made
            snap = None
            if any(not c.get("byref") for c in lam.get("captures", [])):
                direct = self.closure_of(args[0]) is lam and ref_of(args[0]) is None
                snap = self.capture(lam) if direct else getattr(self, "_snaps", {}).get(lam.get("id"))
                if snap is None:
                    return NotImplemented
            actual = args[1:]
            if len(actual) != len(callee.params):
                return NotImplemented
            saved_alias = dict(self.alias)
            missing = object()
            saved_env = {d: self.env.get(d, missing) for d in (snap or {})}
            for d, v in (snap or {}).items():
                self.alias.pop(d, None)
                self.env[d] = v
            for p_, a in zip(callee.params, actual):
                ty = (p_.get("ty") or "").rstrip()
                if ty.endswith("&") and not ty.endswith("&&") and "const" not in ty.split("<")[0]:
                    key = self.lvalue(a)
                    if key is None:
                        self.alias = saved_alias
                        return NotImplemented
                    self.alias[p_["did"]] = key
                elif ty.endswith("&") and self.lvalue(a) is not None:
                    self.alias[p_["did"]] = self.lvalue(a)
                else:
                    self.env[p_["did"]] = self.ev(a)
            self.depth += 1
            saved_fn = self.fn
            self.fn = callee
            try:
                self.run(kids(callee.body))
                ret = None
            except skel.Return as r_:
                ret = r_.v
            finally:
                self.fn = saved_fn
                self.depth -= 1
                self.alias = saved_alias
                for d, v in saved_env.items():
                    if snap is not None and not callee.d.get("const"):
                        snap[d] = self.env.get(d)          # a mutable lambda keeps what it stored in its copy
                    if v is missing:
                        self.env.pop(d, None)
                    else:
                        self.env[d] = v
            return ret

        def capture(self, lam):
            """the values of the variables that the lambda captures by copy, as they are now; None if a capture is not
            a plain scalar / iterator / container value of the skeleton (an array, *this, an init-capture)"""
            snap = {}
            for c in lam.get("captures", []):
                if c.get("byref"):
                    continue
                d = c.get("id")
                if d is None or c.get("init") or c.get("this"):
                    return None
                decl = next((p_ for p_ in self.fn.params if p_["did"] == d), None) or \
                    next((z for z in walk(self.fn.body) if z["k"] == "VarDecl" and z.get("did") == d), None)
                if decl is None or (decl.get("ty") or "").rstrip().endswith("]"):
                    return None
                snap[d] = self.load(self.alias[d]) if d in self.alias else self.env.get(d)
            return snap
    return SkelArrays


STD_PURE = ("iterpair_size", "min", "max", "distance", "size", "empty", "begin", "end", "cbegin", "cend", "data", "move",
            "forward", "next", "prev", "addressof", "__builtin_expect", "front", "back", "at", "capacity", "reserve")


def unfollowed_effect(e):
    """may the call e, which the skeleton evaluates without its body, change an object?  Not: operators of standard
    iterators / containers, constructions of standard types, selected observers of the standard library."""
    c = e["callee"]
    q = c.get("qname") or ""
    std = q.startswith(("std::", "__gnu_cxx::"))
    if e["k"] == "CXXOperatorCallExpr":
        return e.get("op") == "()" or not std
    if e["k"] in ("CXXConstructExpr", "CXXTemporaryObjectExpr"):
        return not std
    if (std and c["name"] in STD_PURE) or q in ("tlx::unused", "tlx::multiway_merge_detail::iterpair_size"):
        return False
    return True


class SeqVectors:
    """model of the whole sequences (pairs of iterators) that are moved around during one skeleton evaluation.
    The value of a std::vector of sequences is ('vec', indices of the sequences it holds), an iterator into it is
    ('it', container, position).  A single sequence read from the caller's array is the value ('seq', i, n): sequence
    i as it was after n merge phases had advanced it; it travels through locals and builtin arrays (skel_with_arrays)
    like any value.  cur / curver say which sequence (as of which phase) the caller's array holds at each position;
    what is stored there is also recorded in wb (position -> sequence).  Operations that may reach the caller's
    array without being followed (calls evaluated without body, objects of project types, member-wise changes of a
    pair, stores at places that are not understood) are collected in `foreign`: only an evaluation without them is a
    closed world in which 'nothing was written back' can be concluded."""

    def __init__(self, fn, seqs, K):
        self.fn, self.seqs, self.K = fn, seqs, K
        self.wb = {}
        self.cur = list(range(K))  # which sequence the caller's array holds at each position right now
        self.ver = [0] * K         # how many merge phases of non-zero length have advanced each sequence so far
        self.curver = [0] * K      # ... and as of which phase the caller's array holds it at each position
        self.stale = []            # uses of a copy of a sequence that a later merge phase has advanced (not decided)
        self.foreign = []          # operations that may change the caller's array in a way this model does not follow

    @staticmethod
    def is_it(v):
        return isinstance(v, tuple) and len(v) == 3 and v[0] == "it"

    @staticmethod
    def is_seq(v):
        """('seq', i, n): a copy of the whole sequence i (its pair of iterators) as it was after n merge phases"""
        return isinstance(v, tuple) and len(v) == 3 and v[0] == "seq"

    @property
    def moved(self):
        """a position of the caller's array holds another sequence than at the start"""
        return self.cur != list(range(self.K))

    def put(self, d, x, version=None):
        """sequence x (as it is after `version` phases; default: as it is now) is stored at position d of the caller's array"""
        self.wb[d] = x
        if 0 <= d < self.K:
            self.cur[d] = x
            self.curver[d] = self.ver[x] if version is None else version

    def out_of_date(self):
        """positions of the caller's array that hold a sequence as it was before the last merge phase that advanced it"""
        return [d for d in range(self.K) if self.curver[d] != self.ver[self.cur[d]]]

    def ident(self, sk, e):
        """the sequence that the pair e holds: an element of the caller's array (by its position and what was stored
        there) or a local copy of a whole sequence"""
        pos = seq_index(sk, e, self.seqs, self.K, by_value=False)
        if pos is not None:
            return self.cur[pos]
        return seq_index(sk, e, self.seqs, self.K)

    def pair_event(self, e, sk):
        """a whole sequence (the pair of iterators) of the caller's array as a value: reading seqs[i] gives ('seq', the
        sequence held at position i), which then travels through locals and local arrays like any value of the
        skeleton; seqs[d] = v stores it at position d and records in wb what is written back"""
        n = strip_casts(e)
        if n is None:
            return NotImplemented
        q = (n.get("callee") or {}).get("qname") or ""
        if n["k"] == "CXXOperatorCallExpr" and n.get("op") in ASSIGN_OPS and not q.startswith(("std::", "__gnu_cxx::")):
            self.foreign.append(n)             # an assignment operator of the project: its body is not followed
        if n["k"] in ("InitListExpr", "CXXFunctionalCastExpr", "CXXTemporaryObjectExpr", "CXXConstructExpr") and project_type(n.get("ty")):
            self.foreign.append(n)             # a temporary of a project type: constructor / destructor not followed
        if n["k"] == "CallExpr" and q in ("std::move", "std::forward") and len(kids(n)) == 1 and \
                _bare_ty(n.get("ty")).rstrip("&").strip().startswith("std::pair<"):
            return sk.ev(kids(n)[0])
        # member-wise changes of a pair (x.first = ..., ++x.first) are not followed
        w = match.binop(n, ASSIGN_OPS) if n["k"] in ("BinaryOperator", "CompoundAssignOperator", "CXXOperatorCallExpr") else None
        u = match.unop(n, ("++", "--"))
        lhs = strip_casts(w[1] if w else u[1] if u else None)
        while lhs is not None and lhs["k"] == "ParenExpr" and kids(lhs):
            lhs = strip_casts(kids(lhs)[0])
        if is_pair_member(lhs) or (lhs is not None and lhs["k"] == "DeclRefExpr" and lhs["ref"].get("kind") == "binding"):
            # seqs[d].first = c.first, where c is a copy of the sequence that position d holds, writes that sequence
            # back (the end of a sequence never changes); every other member-wise change is not followed
            rhs = strip_casts(w[2]) if w and w[0] == "=" else None
            while rhs is not None and rhs["k"] == "ParenExpr" and kids(rhs):
                rhs = strip_casts(kids(rhs)[0])
            if is_pair_member(lhs) and is_pair_member(rhs) and lhs["member"] == rhs["member"] == "first" and \
                    not lhs.get("arrow") and not rhs.get("arrow") and side_effect_free(lhs) and side_effect_free(rhs):
                d = seq_index(sk, kids(lhs)[0], self.seqs, self.K, by_value=False)
                v = sk.ev(kids(rhs)[0]) if d is not None else None
                if d is not None and self.is_seq(v) and self.cur[d] == v[1]:
                    if v[2] != self.ver[v[1]]:
                        self.stale.append("%s: a copy of sequence %d taken before a merge phase is stored in the caller's array after it"
                                          % (self.fn.nloc(n), v[1]))
                    self.put(d, v[1], v[2])
                    return None
            self.foreign.append(n)
            return NotImplemented
        if n["k"] == "UnaryOperator" and n.get("op") == "&" and kids(n) and is_pair_member(kids(n)[0]):
            self.foreign.append(n)             # a pointer to one iterator of a pair: what is stored through it is not followed
            return NotImplemented
        if not _bare_ty(n.get("ty")).startswith("std::pair<"):
            return NotImplemented
        b = match.binop(n, ("=",)) if n["k"] in ("BinaryOperator", "CXXOperatorCallExpr") else None
        if b:
            # every operand is evaluated exactly once here (the place may be *p++), the right one first
            v = sk.ev(b[2])
            pl = self.place(sk, b[1])
            if pl is None:
                self.foreign.append(n)         # a pair is stored somewhere: where is not understood
                return v
            if pl[0] == "key":
                sk.store(pl[1], v)             # a local object that holds a whole sequence
                return v
            if not self.is_seq(v):
                raise Undecidable("%s: value stored in %s not understood: %s"
                                  % (self.fn.nloc(n), "sequence %d of the caller's array" % pl[1] if pl[0] == "pos" else "a container of sequences",
                                     dtable.describe(b[2])))
            if v[2] != self.ver[v[1]]:
                # the copy does not hold what an intervening merge phase consumed; whether that phase moved this
                # sequence at all depends on the data: not decided (the caller raises, unless it has a finding)
                self.stale.append("%s: a copy of sequence %d taken before a merge phase is stored %s after it"
                                  % (self.fn.nloc(n), v[1], "in the caller's array" if pl[0] == "pos" else "in a container"))
            if pl[0] == "pos":
                self.put(pl[1], v[1], v[2])
            else:
                key, c, i_ = pl[1:]
                sk.store(key, ("vec", c[:i_] + (v[1],) + c[i_ + 1:]))
            return v
        if match.index_parts(n) or match.deref_of(n) is not None:
            pl = self.place(sk, n)
            if pl is None:
                return None
            if pl[0] == "pos":
                return ("seq", self.cur[pl[1]], self.curver[pl[1]])
            if pl[0] == "vec":
                i_ = pl[2][pl[3]]
                return ("seq", i_, self.ver[i_])       # what a container holds is what the last phase on it left
            return sk.load(pl[1])
        return NotImplemented

    def place(self, sk, e):
        """where the lvalue e of a whole sequence lives, with every part of e evaluated exactly once (e may be *p++):
        ('pos', d) position d of the caller's array | ('vec', container, its sequences, index) an element of a
        container of sequences | ('key', key) another object of the skeleton | None: not understood"""
        isnum = lambda v: isinstance(v, int) and not isinstance(v, bool)
        n = strip_casts(e)
        while n is not None and n["k"] == "ParenExpr" and kids(n):
            n = strip_casts(kids(n)[0])
        if n is None:
            return None
        key = None
        d = match.deref_of(n)
        ip = match.index_parts(n) if d is None else None
        if d is not None:
            pv = sk.ev(d)
            if self.is_it(pv):
                c = self.content(sk, pv[1])
                return ("vec", pv[1], c, pv[2]) if c is not None and 0 <= pv[2] < len(c) else None
            if isinstance(pv, tuple) and len(pv) == 2 and pv[0] == "ptr":
                key = pv[1]
            elif isnum(pv):
                key = ("mem", pv)
        elif ip:
            bty = (strip_casts(ip[0]).get("ty") or "").rstrip()
            if bty.endswith("*") or bty.endswith("]"):
                a, idx = sk.ev(ip[0]), sk.ev(ip[1])
                key = ("mem", a + idx) if isnum(a) and isnum(idx) else None
            else:
                base, idx = sk.lvalue(ip[0]), sk.ev(ip[1])
                c = self.content(sk, base) if base is not None else None
                if c is not None:
                    return ("vec", base, c, idx) if isnum(idx) and 0 <= idx < len(c) else None
                key = ("elem", base, idx) if base is not None and isnum(idx) else None
        else:
            key = sk.lvalue(n)
        if isinstance(key, tuple) and ((key[0] == "elem" and key[1] == self.seqs) or key[0] == "mem") and isnum(key[-1]) and 0 <= key[-1] < self.K:
            return ("pos", key[-1])
        if isinstance(key, tuple) and key[0] == "elem" and key[1] == self.seqs:
            return None                        # outside the caller's array
        return ("key", key) if key is not None else None

    def content(self, sk, key):
        v = sk.load(key)
        return v[1] if isinstance(v, tuple) and len(v) == 2 and v[0] == "vec" else None

    def alg(self, op, a, b, e):
        isnum = lambda v: isinstance(v, int) and not isinstance(v, bool)
        if self.is_seq(a) or self.is_seq(b):
            return None          # whole sequences are data: comparing two of them has no value in the skeleton
        if self.is_it(a) and isnum(b) and op in ("+", "-"):
            return ("it", a[1], a[2] + (b if op == "+" else -b))
        if isnum(a) and self.is_it(b) and op == "+":
            return ("it", b[1], b[2] + a)
        if self.is_it(a) and self.is_it(b) and a[1] == b[1] and op in ("-", "<", "<=", ">", ">="):
            return {"-": a[2] - b[2], "<": a[2] < b[2], "<=": a[2] <= b[2], ">": a[2] > b[2], ">=": a[2] >= b[2]}[op]
        return NotImplemented

    def span(self, sk, a, b):
        """the sequences in [a, b): of the caller's array (two numbers) or of a container (two iterators)"""
        isnum = lambda v: isinstance(v, int) and not isinstance(v, bool)
        if isnum(a) and isnum(b) and 0 <= a <= b <= self.K:
            return tuple(self.cur[a:b])
        if isnum(a) and isnum(b):
            # a range of a local builtin array that holds copies of whole sequences
            for base, n in getattr(sk, "arrays", {}).items():
                if base <= a <= b <= base + n:
                    c = tuple(sk.load(("mem", x)) for x in range(a, b))
                    if all(self.is_seq(x) for x in c):
                        for x in c:
                            if x[2] != self.ver[x[1]]:
                                self.stale.append("%s: a copy of sequence %d taken before a merge phase is used after it" % (self.fn.loc, x[1]))
                        return tuple(x[1] for x in c)
                    return None
        if self.is_it(a) and self.is_it(b) and a[1] == b[1]:
            c = self.content(sk, a[1])
            if c is not None and 0 <= a[2] <= b[2] <= len(c):
                return c[a[2]:b[2]]
        return None

    def phase(self, sk, a, b, n):
        """a merge phase of length n runs over the sequences in [a, b): -> (these sequences, does it run on the caller's
        array itself); the objects in the range then hold the advanced sequences, every other copy is out of date"""
        isnum = lambda v: isinstance(v, int) and not isinstance(v, bool)
        c = self.span(sk, a, b)
        direct = isnum(a) and isnum(b) and 0 <= a <= b <= self.K
        if c is not None and n > 0:
            if direct:
                for d in range(a, b):
                    if self.curver[d] != self.ver[self.cur[d]]:
                        self.stale.append("%s: a copy of sequence %d taken before a merge phase is used after it" % (self.fn.loc, self.cur[d]))
            for i in c:
                self.ver[i] += 1
            if direct:
                for d in range(a, b):
                    self.curver[d] = self.ver[self.cur[d]]
            if isnum(a) and not direct:
                for x in range(a, b):
                    i = sk.load(("mem", x))[1]
                    sk.store(("mem", x), ("seq", i, self.ver[i]))
        return c, direct

    def event(self, e, sk):
        fn = self.fn
        nm = e["callee"]["name"]
        args = [a for a in kids(e) if a is not None and a["k"] != "DefaultArg"]
        if e["k"] == "CXXOperatorCallExpr" and e.get("op") in ("++", "--", "+=", "-=") and args:
            # an iterator into a container of sequences is stepped
            key = sk.lvalue(args[0])
            old = sk.load(key) if key is not None else None
            if self.is_it(old):
                step = 1 if e["op"] in ("++", "--") else (sk.ev(args[1]) if len(args) == 2 else None)
                if not isinstance(step, int) or isinstance(step, bool):
                    raise Undecidable("%s: step of an iterator into a container of sequences not understood" % fn.nloc(e))
                new = ("it", old[1], old[2] + (step if e["op"] in ("++", "+=") else -step))
                sk.store(key, new)
                return old if e["op"] in ("++", "--") and len(args) == 2 else new
        if e["k"] in ("CXXConstructExpr", "CXXTemporaryObjectExpr") and (e.get("ty") or "").startswith("std::vector<"):
            if not args:
                return ("vec", ())
            if len(args) == 2:
                c = self.span(sk, sk.ev(args[0]), sk.ev(args[1]))
                if c is not None:
                    return ("vec", c)
            raise Undecidable("%s: construction of a container of sequences not understood" % fn.nloc(e))
        if e.get("member_call") and args:
            key = sk.lvalue(args[0])
            c = self.content(sk, key) if key is not None else None
            if c is None:
                return NotImplemented
            a = [sk.ev(x) for x in args[1:]] if nm not in ("insert", "push_back", "emplace_back") else None
            if nm in ("begin", "cbegin"):
                return ("it", key, 0)
            if nm in ("end", "cend"):
                return ("it", key, len(c))
            if nm == "size":
                return len(c)
            if nm == "empty":
                return not c
            if nm in ("reserve", "shrink_to_fit"):
                return None
            if nm == "erase" and len(a) == 1 and self.is_it(a[0]) and a[0][1] == key and 0 <= a[0][2] < len(c):
                sk.store(key, ("vec", c[:a[0][2]] + c[a[0][2] + 1:]))
                return a[0]
            if nm in ("insert", "push_back", "emplace_back"):
                pos = sk.ev(args[1]) if nm == "insert" else ("it", key, len(c))
                rest = args[2:] if nm == "insert" else args[1:]
                new = None
                if len(rest) == 1:
                    i_ = self.ident(sk, rest[0])
                    new = (i_,) if i_ is not None else None
                elif len(rest) == 2:
                    new = self.span(sk, sk.ev(rest[0]), sk.ev(rest[1]))
                if new is not None and self.is_it(pos) and pos[1] == key and 0 <= pos[2] <= len(c):
                    sk.store(key, ("vec", c[:pos[2]] + new + c[pos[2]:]))
                    return pos
            raise Undecidable("%s: operation %s on a container of sequences not understood" % (fn.nloc(e), nm))
        if e["k"] == "CallExpr" and nm in ("next", "prev") and args:
            v = sk.ev(args[0])
            n = sk.ev(args[1]) if len(args) > 1 else 1
            if isinstance(n, int) and not isinstance(n, bool):
                n = n if nm == "next" else -n
                if self.is_it(v):
                    return ("it", v[1], v[2] + n)
                if isinstance(v, int) and not isinstance(v, bool):
                    return v + n
            return None
        if e["k"] == "CallExpr" and nm in ("copy", "copy_n", "move") and len(args) == 3:
            a, b, d = sk.ev(args[0]), sk.ev(args[1]), sk.ev(args[2])
            isnum = lambda v: isinstance(v, int) and not isinstance(v, bool)
            in_array = isnum(a) and any(base <= a <= base + n for base, n in getattr(sk, "arrays", {}).items())
            if in_array and nm == "copy_n" and isnum(b):
                b = a + b
            if in_array and isnum(b) and isnum(d) and 0 <= d <= self.K:
                c = self.span(sk, a, b)
                if c is None or d + len(c) > self.K:
                    raise Undecidable("%s: copy out of an array of sequences not understood" % fn.nloc(e))
                for j, x in enumerate(c):
                    self.put(d + j, x)
                return d + len(c)
            if self.is_it(a):
                if nm == "copy_n" and isinstance(b, int) and not isinstance(b, bool):
                    b = ("it", a[1], a[2] + b)
                c = self.span(sk, a, b)
                if c is None or not isinstance(d, int) or isinstance(d, bool):
                    raise Undecidable("%s: copy out of a container of sequences not understood" % fn.nloc(e))
                for j, x in enumerate(c):
                    self.put(d + j, x)
                return d + len(c)
            self.foreign.append(e)                 # a copy whose source is not understood
            return None
        return NotImplemented

    def uninlined(self, e):
        """a call that the skeleton evaluates without its body: unless it cannot change any object it may be the place
        where sequences are written back"""
        if unfollowed_effect(e):
            self.foreign.append(e)


def check_combined(ck, tu):
    for name in ("multiway_merge_3_combined", "multiway_merge_4_combined", "multiway_merge_loser_tree_combined"):
        for fn in tu.some(qname=NS + name):
            ck.guarded(lambda fn=fn, name=name: combined_one(ck, fn, name))


def combined_one(ck, fn, name):
    """PHASE-LENGTH-SUM: the combined variants are evaluated on their integer skeleton for every (size S <= total T,
    overhang O in {-1, 0..T}, min_seq): the unguarded phase merges min(S, T - O) elements at target (skipped when a
    sequence is empty), the guarded phase continues where it stopped with the rest, and target + S is returned.
    TAIL-ORDER is read off the same evaluations: which two sequences the 3-way tail merges for each min_seq, and where
    the 4-way variant removes and re-inserts the exhausted sequence."""
    from engine import skel
    SkelArrays = skel_with_arrays()
    seqsp, seqse, targetp, sizep = [fn.params[i]["did"] for i in (0, 1, 2, 3)]
    K = 3 if "3" in name else 4 if "4" in name else 5
    def phase_kind(c):
        """'U' / 'G' for a call of an unguarded / guarded merge phase (wherever it is made: here or in a helper)"""
        if c["k"] != "CallExpr":
            return None
        nm_ = c["callee"]["name"]
        if nm_ in UNGUARDED_PHASE and ("unguarded" in nm_ or "unguarded_iterator" in (c["callee"].get("targs") or [""])[0]):
            return "U"
        return "G" if nm_ in GUARDED_PHASE else None
    seen_kinds = set()
    where = fn.qname + ("<%s>" % fn.targs[0] if name.endswith("tree_combined") else "")
    bad = None
    BASE = 1000
    npts = 0
    tails = []        # (min_seq, (i, j), node): the two sequences handed to the two-way tail merge
    moves = []        # (min_seq, sequences handed to a guarded phase of non-zero length, what was written back) per evaluation
    stale = []        # out-of-date copies of sequences met in some evaluation
    unfollowed = None # an operation the skeleton did not follow, met in an evaluation whose phases do not match
    for S in range(0, 5):
        for T in range(max(S, 1), 7):
            sizes = [T // K + (1 if i < T % K else 0) for i in range(K)]
            for O in [-1] + list(range(0, T + 1)):
                for m in range(K if K in (3, 4) else 1):
                    phases = []
                    vecs = SeqVectors(fn, seqsp, K)

                    def event(e, sk, O=O, T=T, m=m, sizes=sizes, phases=phases, vecs=vecs):
                        if K == 4:
                            r_ = vecs.pair_event(e, sk)
                            if r_ is not NotImplemented:
                                return r_
                        if "callee" not in e:
                            return NotImplemented
                        r_ = spaceship(e, sk)
                        if r_ is not NotImplemented:
                            return r_
                        nm = e["callee"]["name"]
                        if nm == "prepare_unguarded":
                            key = sk.lvalue(kids(e)[-1])
                            if key is None:
                                raise Undecidable("%s: min_sequence argument not understood" % fn.nloc(e))
                            sk.store(key, m)
                            return O
                        if nm == "iterpair_size" and kids(e):
                            i_ = seq_index(sk, kids(e)[0], seqsp, K)
                            if i_ is None or vecs.moved:
                                raise Undecidable("%s: sequence measured by iterpair_size not understood: %s" % (fn.nloc(e), dtable.describe(kids(e)[0])))
                            return sizes[i_]
                        if nm == "accumulate":
                            return T
                        if K == 4 and not phase_kind(e):
                            r_ = vecs.event(e, sk)
                            if r_ is not NotImplemented:
                                return r_
                        if nm == "merge_advance" and len(kids(e)) >= 4:
                            idxs = []
                            for a_ in (kids(e)[0], kids(e)[2]):
                                pi_ = pair_index(sk, a_, seqsp, K)
                                idxs.append(pi_[0] if pi_ and pi_[1] == "first" else None)
                            tails.append((m, tuple(idxs), e))
                        if phase_kind(e):
                            t_, n_ = sk.ev(target_arg(e)), sk.ev(size_arg(e))
                            if not isinstance(t_, int) or not isinstance(n_, int):
                                raise Undecidable("%s: target / length of a merge phase not understood at line %s" % (fn.loc, e.get("l")))
                            phases.append((phase_kind(e), t_, n_, e) + (vecs.phase(sk, sk.ev(kids(e)[0]), sk.ev(kids(e)[1]), n_) if K == 4 else (None, False)))
                            seen_kinds.add(phase_kind(e))
                            return t_ + max(n_, 0)
                        return NotImplemented
                    sk = SkelArrays(fn, {sizep: S, targetp: BASE, seqsp: 0, seqse: K}, None, event, max_iter=16)
                    sk.alg = vecs.alg
                    sk.on_uninlined = vecs.uninlined
                    sk.on_object = vecs.foreign.append
                    try:
                        sk.run(kids(fn.body))
                        ret = None
                    except skel.Return as r_:
                        ret = r_.v
                    if not isinstance(ret, int) or isinstance(ret, bool):
                        raise Undecidable("%s: value returned by the combined merge not understood" % fn.loc)
                    npts += 1
                    stale += vecs.stale
                    for ph in phases:
                        if ph[0] == "G" and ph[2] != 0:
                            moves.append((m, ph[4], dict(vecs.wb), ph[3], ph[5], list(vecs.cur), list(vecs.foreign)))
                    if vecs.out_of_date() and not vecs.foreign:
                        stale.append("%s: position %d of the caller's array is written before the last merge phase that advances its sequence"
                                     % (fn.loc, vecs.out_of_date()[0]))
                    if O == -1:
                        want = [("G", BASE, S)]
                    else:
                        u = min(S, T - O)
                        want = [("U", BASE, u), ("G", BASE + u, S - u)]
                    # a phase of length 0 merges nothing: calling it or leaving it out is the same
                    want = [w for w in want if w[2] != 0]
                    got = [(ph[0], ph[1], ph[2]) for ph in phases if ph[2] != 0]
                    if (got != want or ret != BASE + S) and vecs.foreign:
                        # a call that was evaluated without its body (or an object of a project type) may run a phase
                        # or change a length through a reference: this evaluation decides nothing
                        unfollowed = unfollowed or vecs.foreign[0]
                    elif (got != want or ret != BASE + S) and bad is None:
                        bad = (S, T, O, m, got, want, ret, phases[0][3] if phases else fn.body)
    if not bad and unfollowed is not None:
        raise Undecidable("%s: the phases of the combined merge are not decided: %s is evaluated without its body"
                          % (fn.nloc(unfollowed), dtable.describe(unfollowed)[:80]))
    if not bad:
        ck.require(seen_kinds == {"U", "G"}, "%s: could not identify the unguarded and guarded phases" % fn.loc)
    if bad:
        S, T, O, m, got, want, ret, node = bad

        def show(l):
            return ", ".join("%s %d at target+%d" % ("unguarded" if k_ == "U" else "guarded", n_, t_ - BASE) for k_, t_, n_ in l) or "nothing"
        ck.violation("PHASE-LENGTH-SUM", fn.qname, "phases",
                     "for size %d of %d elements with %s the phases merge {%s} and target+%s is returned; they must merge {%s} and return target+%d "
                     "(unguarded length min(size, total - overhang), the guarded phase continues where it stopped with the rest)"
                     % (S, T, "an empty sequence" if O == -1 else "overhang %d" % O, show(got), (ret - BASE) if isinstance(ret, int) else "?", show(want), S),
                     fn.nloc(node))
    else:
        ck.ok("PHASE-LENGTH-SUM", where, "%d points (size, total, overhang, min_seq): unguarded min(size, total - overhang) at target, guarded rest behind it, "
              "target + size returned" % npts)
    if name == "multiway_merge_3_combined":
        if not tails:
            raise Undecidable("%s: the two-way tail merge was never reached" % fn.loc)
        wrong = None
        for m_, idxs, node in tails:
            if None in idxs:
                raise Undecidable("%s: sequences handed to the two-way tail merge not understood" % fn.nloc(node))
            others = tuple(i for i in (0, 1, 2) if i != m_)
            if idxs != others and wrong is None:
                wrong = (m_, idxs, others, node)
        if wrong:
            m_, idxs, others, node = wrong
            ck.violation("TAIL-ORDER", fn.qname, "case=%d" % m_,
                         "when sequence %d is exhausted first the tail must merge sequences %d and %d in this order (ties go to the first range): got %s"
                         % (m_, others[0], others[1], list(idxs)), fn.nloc(node))
        else:
            ck.ok("TAIL-ORDER", fn.qname, "cases 0,1,2 merge the two remaining sequences in increasing index order")
    if name == "multiway_merge_4_combined":
        # the guarded 3-way phase gets the three sequences other than min_seq in their order, and every one of them is
        # written back to its own place (the sequence left out is put back at its own index)
        wrong = None
        if not moves:
            raise Undecidable("%s: how the exhausted sequence is left out and put back is not understood" % fn.loc)
        for m_, snap, wb, node, direct, final, foreign in moves:
            want = tuple(i for i in range(K) if i != m_)
            if snap is None:
                raise Undecidable("%s: the sequences handed to the guarded phase are not understood" % fn.nloc(node))
            if snap != want:
                wrong = wrong or (m_, "the guarded phase merges sequences %s" % list(snap))
                continue
            if direct:
                # the phase ran on the caller's array itself (the sequences were moved inside it): nothing is to be
                # written back, but every sequence must be at its own position again in the end
                back = [(i, final[i]) for i in range(K) if final[i] != i]
                if back:
                    wrong = wrong or (m_, "position %d of the caller's array ends up holding sequence %d" % back[0])
                continue
            back = [(i, wb[i]) for i in range(K) if i in wb and wb[i] != i]
            if back:
                wrong = wrong or (m_, "sequence %d is written back to position %d" % (back[0][1], back[0][0]))
                continue
            missing = [i for i in want if wb.get(i) is None]
            if missing and len(missing) == len(want) and not foreign:
                # closed world: the phase advanced copies (it merged at least one element, so one of them moved); every
                # call of this evaluation was followed or cannot store anything, no pair was stored at a place that is
                # not understood, no member of a pair was changed: nothing reached the caller's array
                wrong = wrong or (m_, "the guarded phase merges copies of sequences %s and none of them is written back to the caller's array" % list(want))
            elif missing:
                raise Undecidable("%s: how the sequences of the guarded phase are written back is not understood" % fn.loc)
        if wrong:
            ck.violation("TAIL-ORDER", fn.qname, "one-missing", "the sequence removed before the guarded phase is not re-inserted at its own index "
                         "(min_seq = %d: %s)" % wrong, fn.loc)
        elif stale:
            raise Undecidable(stale[0])
        else:
            ck.ok("TAIL-ORDER", fn.qname, "exhausted sequence min_seq is removed and re-inserted at the same index")


# ------------------------------------------------------------------ prepare_unguarded
HARMLESS_CALLS = ("iterpair_size", "min", "max", "distance", "size", "begin", "end", "move", "forward", "next", "prev", "unused",
                  "__builtin_expect", "operator()", "addressof")


def check_prepare(ck, tu):
    for fn in tu.some(qname=NS + "prepare_unguarded"):
        ck.guarded(lambda fn=fn: prepare_one(ck, fn))


def prepare_one(ck, fn):
    """PREPARE-BOUNDS: the part of prepare_unguarded() behind the minimum scan is evaluated on its index skeleton for 4
    sequences and every min_sequence; the result of every bound search is followed to the place where it is subtracted
    from the end of a sequence: each sequence must be counted exactly once, from upper_bound for s <= min_sequence in
    stable mode and from lower_bound otherwise (equal elements of earlier sequences are still merged unguarded, later
    ones are not)"""
    from engine import skel
    stable = fn.targs[0] == "true"
    seqs_b, seqs_e, minseq = fn.params[0]["did"], fn.params[1]["did"], fn.params[3]["did"]
    top = kids(fn.body)

    def plain_store(s_, to):
        """the right side of the statement `to = x` (a plain assignment to the variable to), else None"""
        b_ = match.binop(match.strip_conv(s_), ("=",)) if s_ is not None and s_["k"] in ("BinaryOperator", "ExprWithCleanups", "ParenExpr") else None
        return b_[2] if b_ and ref_of(b_[1]) == to else None

    def assigns(s_, to):
        return any(match.binop(z, ("=",)) and ref_of(match.binop(z, ("=",))[1]) == to for z in walk(s_) if z["k"] == "BinaryOperator")
    # the running arg-min may be kept in an integer local that is stored into min_sequence by a statement of the function
    # body behind the scan (`min_sequence = min_index;`): then that local is what takes every value 0..K-1 behind the
    # scan, and the store is evaluated like every other statement
    carriers = set()
    for s_ in top:
        r_ = ref_of(match.strip_conv(plain_store(s_, minseq))) if plain_store(s_, minseq) is not None else None
        v_ = local_decl(fn, r_) if r_ is not None else None
        if v_ is not None and (v_.get("ty") or "").replace("unsigned", "").strip() in ("int", "long", "short", "size_t", "std::size_t", "long long"):
            carriers.add(r_)
    scan = [i for i, s_ in enumerate(top) if s_ is not None and s_["k"] in ("ForStmt", "WhileStmt") and
            (assigns(s_, minseq) or any(assigns(s_, c_) for c_ in carriers))]
    ck.require(len(scan) == 1, "%s: minimum scan not found" % fn.loc)
    frag = top[scan[0] + 1:]
    # a carrier counts only if the scan loop writes it, it is declared before the scan and the first statement behind the
    # scan that touches min_sequence is that store; every other form is left to the evaluation (which cannot decide a
    # bound that depends on a value it does not know)
    carrier = None
    for s_ in frag:
        x_ = plain_store(s_, minseq)
        if x_ is not None:
            r_ = ref_of(match.strip_conv(x_))
            if r_ in carriers and assigns(top[scan[0]], r_) and not any(z.get("did") == r_ for f_ in frag for z in walk(f_) if z["k"] == "VarDecl"):
                carrier = r_
            break
        if any(ref_of(z) == minseq for z in walk(s_)):
            break
    K = 4
    bad = None
    sig = "stable" if stable else "unstable"
    # calls behind the scan that may compute a split point in a way the evaluation does not follow
    static_foreign = [z["callee"]["name"] for s_ in frag for z in walk(s_) if "callee" in z and z["k"] in ("CallExpr", "CXXMemberCallExpr")
                      and z["callee"]["name"] not in HARMLESS_CALLS + ("upper_bound", "lower_bound")]
    for m in range(K):
        calls = []       # every bound search executed: (name, sequence, node)
        used = []        # (number of the search, sequence whose end it is subtracted from)
        foreign = list(static_foreign)

        def event(e, sk, calls=calls, used=used, foreign=foreign):
            r_ = spaceship(e, sk)
            if r_ is not NotImplemented:
                return r_
            if "callee" in e and e["k"] in ("CallExpr", "CXXMemberCallExpr"):
                nm = e["callee"]["name"]
                if nm in ("upper_bound", "lower_bound") and e["k"] == "CallExpr" and kids(e):
                    pi = pair_index(sk, kids(e)[0], seqs_b, K)
                    if pi is None or pi[1] != "first":
                        raise Undecidable("%s: sequence of a bound search not understood" % fn.nloc(e))
                    calls.append((nm, pi[0], e))
                    return ("split", len(calls) - 1)
                if nm == "distance" and len(kids(e)) == 2:
                    a, b = sk.ev(kids(e)[0]), sk.ev(kids(e)[1])
                    if isinstance(a, tuple) and a[0] == "split" and isinstance(b, tuple) and b[0] == "second":
                        used.append((a[1], b[1]))
                    return None
                if nm not in HARMLESS_CALLS:
                    foreign.append(nm)
                return NotImplemented
            if e["k"] == "MemberExpr":
                pi = pair_index(sk, e, seqs_b, K)
                if pi:
                    return (pi[1], pi[0])
            return NotImplemented

        def alg(op, a, b, e, used=used):
            if op == "-" and isinstance(a, tuple) and a[0] == "second" and isinstance(b, tuple) and b[0] == "split":
                used.append((b[1], a[1]))
                return None
            return NotImplemented
        # with a carrier min_sequence itself holds nothing known until the store is evaluated
        sk = skel_with_arrays()(fn, {minseq: m, seqs_b: 0, seqs_e: K} if carrier is None else {carrier: m, seqs_b: 0, seqs_e: K}, None, event)
        sk.alg = alg
        # calls evaluated without their body (closures that capture by value, functions outside this file) and objects
        # of project types may compute a split point in a way the evaluation does not follow
        sk.on_uninlined = lambda e, foreign=foreign: foreign.append(e["callee"]["name"]) if unfollowed_effect(e) and \
            e["callee"]["name"] not in ("upper_bound", "lower_bound") else None
        sk.on_object = lambda v, foreign=foreign: foreign.append(("the constructor of %s" % v.get("name")) if v.get("k") == "VarDecl" and v.get("name")
                                                                 else "an operation that is not followed at line %s" % v.get("l"))
        try:
            sk.run(frag)
        except skel.Return:
            pass
        if carrier is not None and sk.env.get(minseq) != m:
            raise Undecidable("%s: value of min_sequence behind the minimum scan not understood" % fn.loc)
        got = {}
        for n_, q in used:
            name, idx, node = calls[n_]
            if idx != q:
                raise Undecidable("%s: split point of sequence %d is subtracted from the end of sequence %d" % (fn.nloc(node), idx, q))
            got.setdefault(q, []).append(name)
        loose = [calls[i] for i in range(len(calls)) if i not in {n_ for n_, _ in used}]
        for q in range(K):
            want = "upper_bound" if (stable and q <= m) else "lower_bound"
            if got.get(q) == [want] or bad is not None:
                continue
            if not got.get(q):
                # closed world: no bound search whose result went elsewhere, no other call that could compute a split
                if loose or foreign:
                    raise Undecidable("%s: with min_sequence = %d it is not understood how sequence %d enters the overhang (%s)"
                                      % (fn.loc, m, q, "result of a bound search is used in another way" if loose else "call of " + foreign[0]))
                bad = (":range", "with min_sequence = %d sequence %d of %d is not split at all: the split loops must cover all sequences "
                                 "(0..min_sequence inclusive, then the rest)" % (m, q, K), calls[0][2] if calls else fn.body)
            elif len(got[q]) > 1:
                bad = (":range", "with min_sequence = %d sequence %d is split %d times" % (m, q, len(got[q])), calls[0][2])
            else:
                bad = (":bound", "with min_sequence = %d sequence %d is split with %s; sequences <= min_sequence must be split with %s and later "
                                 "ones with lower_bound" % (m, q, got[q][0], "upper_bound" if stable else "lower_bound"), calls[0][2])
    if bad:
        ck.violation("PREPARE-BOUNDS", fn.qname, sig + bad[0], bad[1], fn.nloc(bad[2]))
    else:
        ck.ok("PREPARE-BOUNDS", "prepare_unguarded<%s>" % fn.targs[0], "4 sequences, every min_sequence: s <= min_sequence: %s; s > min_sequence: lower_bound; each once"
              % ("upper_bound" if stable else "lower_bound"))


# ------------------------------------------------------------------ dispatch
MWMA = {0: "LOSER_TREE", 1: "LOSER_TREE_COMBINED", 2: "LOSER_TREE_SENTINEL", 3: "BUBBLE"}
NEEDS_SENTINEL = lambda c: (c["callee"]["name"] == "multiway_merge_loser_tree_sentinel" or
                            (c["callee"]["name"] in ("multiway_merge_3_variant", "multiway_merge_4_variant") and
                             "unguarded_iterator" in (c["callee"].get("targs") or [""])[0]))


def stable_arg_of(c):
    """the Stable template argument carried by a callee, or None"""
    name = c["callee"]["name"]
    t = c["callee"].get("targs") or []
    if name in ("multiway_merge_bubble", "multiway_merge_loser_tree_combined", "multiway_merge_loser_tree_sentinel") and t:
        return t[0] == "true"
    if name in ("multiway_merge_loser_tree", "multiway_merge_loser_tree_unguarded") and t:
        lt = t[0]
        if "<" in lt:
            return lt.split("<", 1)[1].split(",")[0].strip() == "true"
    return None


def check_dispatch(ck, tu):
    front_ok = [True]
    # public front ends
    want = {"tlx::multiway_merge": ("false", "false"), "tlx::stable_multiway_merge": ("true", "false"),
            "tlx::multiway_merge_sentinels": ("false", "true"), "tlx::stable_multiway_merge_sentinels": ("true", "true")}

    def front(fn, q, flags):
        calls = [c for c in walk(fn.body) if match.call_named(c, ("multiway_merge_base",)) and c["k"] == "CallExpr"]
        if not calls:
            raise Undecidable("%s: front end does not call multiway_merge_base directly" % fn.loc)
        for c in calls:
            got = tuple((c["callee"].get("targs") or [])[:2])
            if len(got) != 2:
                raise Undecidable("%s: template arguments of multiway_merge_base not understood" % fn.nloc(c))
            bad = forwarded(fn, c)
            if got != flags or bad:
                front_ok[0] = False
                ck.violation("FRONTEND-FLAGS", q, "flags", "front end must call multiway_merge_base<%s,%s> with its own parameters in order" % flags
                             + (" (calls <%s,%s>)" % got if got != flags else " (argument %d is %s)" % (bad[0] + 1, bad[1])), fn.nloc(c))
                return
        ck.ok("FRONTEND-FLAGS", q, "-> multiway_merge_base<Stable=%s, Sentinels=%s>, all parameters forwarded in order" % flags)
    for q, flags in want.items():
        for fn in tu.some(qname=q):
            ck.guarded(lambda fn=fn, q=q, flags=flags: front(fn, q, flags))
    bases = tu.some(qname="tlx::multiway_merge_base")
    if front_ok[0] and not ck.deferred:
        ck.require(len(bases) == 4, "expected 4 instantiations of multiway_merge_base, found %d" % len(bases))
    for fn in bases:
        ck.guarded(lambda fn=fn: dispatch_one(ck, fn))


def dispatch_one(ck, fn):
    """the dispatcher is evaluated on its integer skeleton for every number of sequences k = 0..4, 5, 9 and every
    algorithm tag: whatever its control structure (nested switches, if chains, early returns, rewrites of the tag),
    the merge implementations that are executed are collected"""
    from engine import skel
    stable, sentinels = fn.targs[0] == "true", fn.targs[1] == "true"
    seqs_b, seqs_e, mw = fn.params[0]["did"], fn.params[1]["did"], fn.params[5]["did"]
    tag = "<%s,%s>" % (fn.targs[0], fn.targs[1])
    problems = 0
    for kc, kvals in ((0, (0,)), (1, (1,)), (2, (2,)), (3, (3,)), (4, (4,)), ("default", (5, 9))):
        for a in sorted(MWMA):
            impl, other = [], []
            for kv in kvals:
                def event(e, sk, impl=impl, other=other):
                    r_ = spaceship(e, sk)
                    if r_ is not NotImplemented:
                        return r_
                    if "callee" in e and e["k"] in ("CallExpr", "CXXMemberCallExpr"):
                        c = e["callee"]
                        if (c.get("qname") or "").startswith(NS) or c["name"] in ("merge_advance", "copy", "copy_n"):
                            if not any(x is e for x in impl):
                                impl.append(e)
                            return None
                        if c["name"] not in HARMLESS_CALLS and not any(x is e for x in other):
                            other.append(e)
                    return NotImplemented
                sk = skel_with_arrays()(fn, {seqs_b: 0, seqs_e: kv, mw: a}, None, event)
                sk.on_uninlined = lambda e, other=other: other.append(e) if unfollowed_effect(e) and not any(x is e for x in other) else None
                sk.on_object = lambda v, other=other: other.append({"k": "CallExpr", "l": v.get("l"), "f": v.get("f"), "id": v.get("id"), "callee": {
                    "name": "a call through a pointer" if v.get("k") == "CallExpr" else "the constructor of %s" % (v.get("name") or "an object")}})
                try:
                    sk.run(kids(fn.body))
                except skel.Return:
                    pass
            site = "%s k=%s mwma=%s" % (tag, kc, MWMA.get(a, a))
            if kc != 0 and not impl:
                if other:
                    raise Undecidable("%s: for %s only %s is called, which is not a known merge implementation"
                                      % (fn.nloc(other[0]), site, other[0]["callee"]["name"]))
                # closed world: the evaluation decided every branch and executed no call at all
                ck.violation("DISPATCH-TOTAL", fn.qname, tag + ":k=%s:mwma=%s" % (kc, MWMA.get(a, a)), "no merge implementation is reached for " + site, fn.loc)
                problems += 1
                continue
            for c in impl:
                st = stable_arg_of(c)
                if stable and st is False:
                    ck.violation("STABLE-PROPAGATE", fn.qname, tag + ":" + c["callee"]["name"],
                                 "stable merge reaches the unstable %s<%s> for %s" % (c["callee"]["name"], (c["callee"].get("targs") or ["?"])[0][:60], site), fn.nloc(c))
                    problems += 1
                if not sentinels and NEEDS_SENTINEL(c):
                    ck.violation("SENTINEL-REACH", fn.qname, tag + ":" + c["callee"]["name"],
                                 "%s requires sentinels but is reachable without them for %s" % (c["callee"]["name"], site), fn.nloc(c))
                    problems += 1
            if not problems:
                ck.ok("DISPATCH-TOTAL", site, "-> " + ",".join(sorted(set(c["callee"]["name"] for c in impl))) if impl else "-> nothing to do", nontrivial=bool(impl))
    if not problems:
        ck.ok("STABLE-PROPAGATE", "multiway_merge_base" + tag, "every reachable callee carries Stable=%s or is inherently stable" % fn.targs[0])
        ck.ok("SENTINEL-REACH", "multiway_merge_base" + tag, "evaluated for k = 0..4, 5, 9 and every algorithm tag: %s"
              % ("sentinel variants allowed" if sentinels else "no callee that needs sentinels is executed"))


# ------------------------------------------------------------------ loser-tree drivers
class _NeedE(Exception):
    pass


class LTFlow:
    """typestate of a loser-tree merge driver, executed abstractly over the statement tree.

    state = (tree, srcok, E, tpend, env)
      tree  FRESH (players being inserted) | SYNC (the tree holds the head of every sequence) | EMITTED (the winner's
            head was written to the output) | CONSUMED (the winner's sequence was advanced, the tree still holds the
            consumed element)
      srcok the winner variable holds min_source() of the tree as it is now
      E     what the path knows about `seqs[winner].first == seqs[winner].second` (None: nothing)
      tpend an element was written to *target and target was not advanced yet
      env   constants held by locals (bool/int, counters as exact small values or ('ge', n)), which reference locals are
            bound to the current winner, which locals hold a copy of the winner variable, and the mark ('?', True) of a
            path that went through a branch whose condition has no value
    Unknown conditions fork, so a path need not be feasible: see definite() for what counts as a finding."""

    def __init__(self, fn, lt, seqs, target, guarded, concrete=None):
        self.fn, self.lt, self.seqs, self.target, self.guarded = fn, lt, seqs, target, guarded
        # concrete mode: the scalars of one scenario are given (size, number of sequences, their length, the output
        # position as a number); then every condition except the exhaustion of the winner's sequence has a value and a
        # forbidden transition on a path without an undecided branch is a counterexample of that scenario
        self.concrete = concrete
        # winner variables: every local that is assigned / initialised from lt.min_source() somewhere (a helper that was
        # inlined by engine/normalize.py brings its own local per call site).  Which of them holds the winner of the tree
        # as it is now is a fact of the path: the mark (d, "winner") in env, set by the reading and dropped by the next one
        self.srcs = set()
        self.badlog = []         # [sig, msg, node, (statement, event, E)] forbidden transitions met on some path
        self.ok_keys = set()     # (statement, event, E) at which the transition was allowed on some path
        self.alias = {}          # did of a reference local -> ("first"/"second", index var did)
        self.pair_alias = {}     # did of a reference local bound to seqs[i] -> index var did
        self.index_nodes = {}    # "expr:..." index of a sequence -> its expression node
        self.nsteps = 0
        self.seen_events = set()
        self.returns = []        # concrete mode: (returned end, output position, advances, every branch decided, node) per return

    # ---- expression helpers
    def ltcall(self, x, names):
        if x is None or "callee" not in x:
            return None
        c = match.call_named(x, names)
        return c if c and c.get("member_call") and ref_of(kids(c)[0]) == self.lt else None

    def seq_field(self, e, env=None):
        """(field, index var did) if e is seqs[i].first/.second or a reference local bound to it"""
        e = strip_casts(e)
        while e is not None and e["k"] == "ParenExpr":
            e = strip_casts(kids(e)[0])
        if e is None:
            return None
        d = ref_of(e)
        if d is not None and d in self.alias:
            if env is not None and (d, "bound") not in env:
                raise ir.AnalysisBroken("%s: reference local used after the winner changed (line %s)" % (self.fn.full, e.get("l")))
            return self.alias[d]
        f = match.field_of(e)
        if f and f[1] in ("first", "second"):
            pd = ref_of(f[0])
            if pd is not None and pd in self.pair_alias:
                if env is not None and (pd, "bound") not in env:
                    raise ir.AnalysisBroken("%s: reference local used after the winner changed (line %s)" % (self.fn.full, e.get("l")))
                return (f[1], self.pair_alias[pd])
            p = match.index_parts(f[0])
            if p and ref_of(p[0]) == self.seqs:
                return (f[1], self.index_of(p[1]))
        return None

    def index_of(self, i):
        """the variable that indexes a sequence, or 'expr:<text>' for any other index expression"""
        if ref_of(i) is not None:
            return ref_of(i)
        key = "expr:" + dtable.describe(i)
        self.index_nodes[key] = i
        return key

    def is_winner(self, x, env, node):
        """does the index x name the sequence reported by min_source()?  True: it is the winner variable or a copy taken
        since; False on positive evidence only: a constant index, a second reading of the tree (the protocol reads the
        winner once per round), a variable into which no value of the winner flows; otherwise not decidable"""
        if self.current(x, env) or (x, "srccopy") in env:
            return True
        if x in self.srcs:
            # an earlier reading of min_source() kept in another variable: equal to the present winner or not
            raise ir.AnalysisBroken("%s: the sequence index at line %s holds an earlier reading of min_source(); whether it is "
                                    "still the winner is not decided" % (self.fn.full, node.get("l")))
        if isinstance(x, str):
            i = self.index_nodes.get(x)
            if i is not None and (const_int(i) is not None or any(self.ltcall(z, ("min_source",)) for z in walk(i))):
                return False
            raise ir.AnalysisBroken("%s: index of a sequence not understood at line %s: %s" % (self.fn.full, node.get("l"), x[5:]))
        related = set(self.srcs) | {self.lt} | {d for d, v in self.copies}
        v = local_decl(self.fn, x)
        if v is not None and (v.get("ty") or "").rstrip().endswith("&"):
            raise ir.AnalysisBroken("%s: sequence indexed through a reference local at line %s" % (self.fn.full, node.get("l")))
        srcs = [kids(v)[0]] if v is not None and kids(v) else []
        for w in writes_to(self.fn.body, x):
            b = match.binop(w, ASSIGN_OPS)
            if b:
                srcs.append(b[2])
            elif not match.unop(w, ("++", "--")):
                raise ir.AnalysisBroken("%s: sequence index whose address is taken at line %s" % (self.fn.full, node.get("l")))
        if any(z["k"] == "DeclRefExpr" and z["ref"]["id"] in related for s_ in srcs for z in walk(s_)):
            raise ir.AnalysisBroken("%s: it is not understood whether the sequence index at line %s holds the winner" % (self.fn.full, node.get("l")))
        return False

    copies = frozenset()

    def current(self, x, env):
        """x is the variable through which this path read min_source() last.  Before the first reading on a path no
        variable is marked: a winner variable then counts as current and the state's srcok (False) tells the truth"""
        if (x, "winner") in env:
            return True
        return x in self.srcs and not any(v == "winner" for d, v in env)

    def head_of(self, e, env):
        """index var if e is *seqs[i].first"""
        dd = match.deref_of(e)
        if dd is None:
            return None
        sf = self.seq_field(dd, env)
        return sf[1] if sf and sf[0] == "first" else None

    def value(self, e, st):
        """True / False / int / 'null' / ('head', var) / None (unknown); raises _NeedE when the answer depends on E"""
        e = strip_casts(e)
        if e is None:
            return None
        k = e["k"]
        if k in ("ParenExpr", "ExprWithCleanups", "MaterializeTemporaryExpr", "CXXBindTemporaryExpr"):
            return self.value(kids(e)[0], st)
        if "callee" in e and e["callee"]["name"] in ("__builtin_expect",) and kids(e):
            return self.value([a for a in kids(e) if a is not None][-2], st)
        if k in ("NullPtr", "CXXNullPtrLiteralExpr", "GNUNullExpr"):
            return "null"
        if k == "CXXBoolLiteralExpr":
            return bool(e.get("val"))
        ci = const_int(e)
        if ci is not None:
            return bool(ci) if (e.get("ty") or "") == "bool" else ci
        if k == "DeclRefExpr":
            for d, v in st[4]:
                if d == e["ref"]["id"] and v not in ("bound", "srccopy", "winner"):
                    return v
            return None
        if k == "UnaryOperator" and e.get("op") == "!":
            v = self.value(kids(e)[0], st)
            if v is None:
                return None
            if v == "null":
                return True
            if isinstance(v, tuple):
                return False
            return not v
        if k == "UnaryOperator" and e.get("op") == "&":
            h = self.head_of(kids(e)[0], st[4])
            return ("head", h) if h is not None else None
        if k == "ConditionalOperator":
            c = self.value(kids(e)[0], st)
            if c is None:
                return None
            return self.value(kids(e)[1] if c else kids(e)[2], st)
        isnum = lambda v: isinstance(v, int) and not isinstance(v, bool)
        if k == "UnaryOperator" and e.get("op") in ("++", "--") and ref_of(kids(e)[0]) is not None:
            # value of a counter stepped inside a condition (`if (++i >= n)`, `while (remaining-- > 0)`); the effect is
            # applied by expr_effects
            v = self.value(kids(e)[0], st)
            if not isnum(v):
                return None
            return v if e.get("postfix") else v + (1 if e["op"] == "++" else -1)
        if "callee" in e and e["k"] == "CallExpr":
            nm = e["callee"]["name"]
            args = [a for a in kids(e) if a is not None and a["k"] != "DefaultArg"]
            if nm in ("min", "max") and len(args) == 2:
                l, r = self.value(args[0], st), self.value(args[1], st)
                return (min(l, r) if nm == "min" else max(l, r)) if isnum(l) and isnum(r) else None
            if self.concrete and nm == "accumulate":
                return self.concrete["total"]
            if self.concrete and nm == "iterpair_size":
                return self.concrete["each"]
            return None
        b = match.binop(e, ("+", "-", "*"))
        if b and e["k"] in ("BinaryOperator", "CXXOperatorCallExpr"):
            l, r = self.value(b[1], st), self.value(b[2], st)
            if isnum(l) and isnum(r):
                return l + r if b[0] == "+" else l - r if b[0] == "-" else l * r
            return None
        b = relop(e, ("==", "!=", "<", ">", "<=", ">=")) if e["k"] in ("BinaryOperator", "CXXOperatorCallExpr") else None
        if b and e["k"] == "CXXOperatorCallExpr":
            l, r = self.value(b[1], st), self.value(b[2], st)
            if isnum(l) and isnum(r):
                return {"<": l < r, ">": l > r, "<=": l <= r, ">=": l >= r, "==": l == r, "!=": l != r}[b[0]]
            b = None
        if b:
            l, r = self.value(b[1], st), self.value(b[2], st)
            op = b[0]
            if isinstance(r, tuple) and r[0] == "ge":
                l, r, op = r, l, {"<": ">", ">": "<", "<=": ">=", ">=": "<=", "==": "==", "!=": "!="}[op]
            if isinstance(l, tuple) and l[0] == "ge" and isnum(r):
                if r < l[1]:
                    return {"==": False, "!=": True, "<": False, "<=": False, ">": True, ">=": True}[op]
                if r == l[1] and op in ("<", ">="):
                    return op == ">="
                return None
            if isnum(l) and isnum(r) and op not in ("==", "!="):
                return {"<": l < r, ">": l > r, "<=": l <= r, ">=": l >= r}[op]
            if op not in ("==", "!="):
                return None
        b = match.binop(e, ("==", "!="))
        if b:
            fa, fb = self.seq_field(b[1], st[4]), self.seq_field(b[2], st[4])
            if fa and fb and {fa[0], fb[0]} == {"first", "second"} and fa[1] == fb[1]:
                if self.current(fa[1], st[4]) or (fa[1], "srccopy") in st[4]:
                    if st[2] is None:
                        raise _NeedE()
                    return st[2] if b[0] == "==" else not st[2]
                return None
            l, r = self.value(b[1], st), self.value(b[2], st)
            if l is not None and r is not None and not isinstance(l, tuple) and not isinstance(r, tuple):
                return (l == r) if b[0] == "==" else (l != r)
            return None
        b = match.binop(e, ("&&", "||"))
        if b:
            l = self.value(b[1], st)
            if l is not None and bool(l) == (b[0] == "||"):
                return b[0] == "||"
            r = self.value(b[2], st)
            if l is not None and r is not None:
                return bool(r)
            if r is not None and bool(r) == (b[0] == "||"):
                return b[0] == "||"
            return None
        return None

    def bad(self, sig, msg, node, key=None, clean=None):
        self.badlog.append([sig, msg, node, key, clean])

    def definite(self):
        """(problems, undecided): unknown conditions fork, so a path of this analysis need not be feasible.  A forbidden
        transition counts as evidence only where every arrival at that statement (in the same knowledge about the
        winner's sequence) is forbidden: a feasible execution reaching the statement is then among them."""
        out, rest = [], []
        for sig, msg, node, key, clean in self.badlog:
            if self.concrete:
                # a path on which every branch was decided by the values of the scenario
                if clean and not any(p[0] == sig for p in out):
                    out.append((sig, "for size %d on %d sequences of %d elements: %s"
                                % (self.concrete["size"], self.concrete["k"], self.concrete["each"], msg), node))
            elif key is not None and key in self.ok_keys:
                rest.append((sig, msg, node))
            elif not any(p[0] == sig for p in out):
                out.append((sig, msg, node))
        return out, rest

    # ---- events
    def step(self, kind, st, node, x=None, args=None):
        """-> list of successor states; keeps book of the statements at which the transition was allowed / forbidden"""
        key = (id(node), kind, st[2])
        n0 = len(self.badlog)
        out = self._step(kind, st, node, x, args)
        if len(self.badlog) == n0:
            self.ok_keys.add(key)
        for b in self.badlog[n0:]:
            if b[3] is None:
                b[3] = key
            if b[4] is None:
                b[4] = ("?", True) not in st[4]
        return out

    def _step(self, kind, st, node, x=None, args=None):
        tree, srcok, E, tpend, env = st
        self.seen_events.add(kind)
        if kind == "START":
            if tree != "FRESH":
                self.bad("start-late", "insert_start() after init()", node)
            return [st]
        if kind == "INIT":
            if tree != "FRESH":
                self.bad("init-twice", "init() called on a tree that is already in use", node)
            return [("SYNC", False, None, tpend, env)]
        if tree == "FRESH":
            self.bad("pre-order", "the tree is used before init(): order must be insert_start x k, init(), min_source()", node)
            return []
        if kind == "MIN":
            # min_source() reports the winner of the tree as it is; aliases of the previous winner's sequence die
            # (and so do the marks of the variable that held the previous reading and of its copies)
            env2 = frozenset((d, v) for d, v in env if v not in ("bound", "srccopy", "winner") and d != x) | {(x, "winner")}
            return [(tree, True, None, tpend, env2)]
        if kind == "EMIT":
            if not self.is_winner(x, env, node) or not srcok:
                self.bad("winner-var", "the emitted element is not the head of the sequence reported by min_source()", node)
                return []
            if tree != "SYNC":
                self.bad("loop-order", "an element is emitted while the previous winner has not been replaced in the tree "
                         "(order must be min_source, emit, advance, delete_min_insert)", node)
                return []
            if tpend:
                self.bad("target", "the output position is overwritten: target was not advanced after the previous element", node)
                return []
            return [("EMITTED", srcok, E, True, env)]
        if kind == "TGT":
            if not tpend:
                self.bad("target", "target is advanced without an element having been written (hole in the output)", node)
                return []
            tv = [v for d, v in env if d == self.target and isinstance(v, int) and not isinstance(v, bool)]
            if tv:
                env = frozenset((d, v) for d, v in env if d != self.target) | {(self.target, tv[0] + 1)}
            return [(tree, srcok, E, False, env)]
        if kind == "ADV":
            if not self.is_winner(x, env, node) or not srcok:
                self.bad("winner-var", "the advanced sequence is not the one reported by min_source()", node)
                return []
            if tree != "EMITTED":
                self.bad("loop-order", "the winner's sequence is advanced %s (order must be min_source, emit, advance, delete_min_insert)"
                         % ("without its head having been emitted" if tree == "SYNC" else "twice"), node)
                return []
            env2 = frozenset((d, v) for d, v in env if v in ("bound", "srccopy", "winner") or isinstance(v, int) and not isinstance(v, bool) or (d, "E") not in self.edep)
            if self.concrete is not None:
                n = sum(v for d, v in env2 if d == "#adv")
                env2 = frozenset((d, v) for d, v in env2 if d != "#adv") | {("#adv", n + 1)}
            return [("CONSUMED", srcok, None, tpend, env2)]
        if kind == "DMI":
            if tree != "CONSUMED":
                self.bad("loop-order", "delete_min_insert() %s (order must be min_source, emit, advance, delete_min_insert)"
                         % ("before the winner was emitted and advanced" if tree == "SYNC" else "before the winner's sequence was advanced"), node)
                return []
            key, sup = args
            if self.guarded and E is None:
                out = []
                for e_ in (True, False):
                    out += self.step(kind, (tree, srcok, e_, tpend, env), node, x, args)
                return out
            stE = (tree, srcok, E, tpend, env)
            kv = self.value(key, stE)
            sv = self.value(sup, stE) if sup is not None else False
            if kv is None or sv is None or isinstance(sv, tuple) or sv == "null":
                raise ir.AnalysisBroken("%s: arguments of delete_min_insert() not understood at line %s" % (self.fn.full, node.get("l")))
            exhausted = bool(E) if self.guarded else False
            if bool(sv) != exhausted or (kv == "null") != exhausted:
                self.bad("feed", "the winner's next key must be fed from the winner's own sequence, exhausted iff first == second "
                         "(sequence %s: key %s, sup %s)" % ("exhausted" if exhausted else "not exhausted",
                                                           "nullptr" if kv == "null" else "given", bool(sv)), node)
                return []
            if not exhausted and not (isinstance(kv, tuple) and kv[0] == "head" and self.is_winner(kv[1], env, node)):
                self.bad("feed", "delete_min_insert is not fed from the current winner's sequence", node)
                return []
            if not srcok:
                self.bad("winner-var", "delete_min_insert is fed through a stale winner variable", node)
                return []
            return [("SYNC", False, None, tpend, env)]
        raise ir.AnalysisBroken("event " + kind)

    edep = frozenset()

    def expr(self, e, states):
        """executes an expression statement on a list of states"""
        e0 = strip_casts(e)
        while e0 is not None and e0["k"] in ("ExprWithCleanups", "ParenExpr"):
            e0 = strip_casts(kids(e0)[0])
        if e0 is None:
            return states
        fn = self.fn

        def each(kind, node, x=None, args=None):
            out = []
            for st in states:
                out += self.step(kind, st, node, x, args)
            return dedupe(out)
        c = self.ltcall(e0, ("insert_start",))
        if c:
            return each("START", c)
        c = self.ltcall(e0, ("init",))
        if c:
            return each("INIT", c)
        c = self.ltcall(e0, ("delete_min_insert",))
        if c:
            a = kids(c)[1:]
            return each("DMI", c, None, (a[0], a[1] if len(a) > 1 else None))
        b = match.binop(e0, ("=",))
        if b:
            lhs = strip_casts(b[1])
            d = match.deref_of(lhs)
            if d is not None and ref_of(strip_post(d)) == self.target:
                post = strip_post(d) is not strip_casts(d)
                out = []
                for st in states:
                    h = self.head_of(b[2], st[4])
                    if h is None:
                        raise ir.AnalysisBroken("%s: value written to the output not understood at line %s" % (fn.full, e0.get("l")))
                    for s2 in self.step("EMIT", st, e0, h):
                        out += self.step("TGT", s2, e0) if post else [s2]
                return dedupe(out)
            if ref_of(lhs) is not None and self.ltcall(match.strip_conv(b[2]), ("min_source",)):
                self.srcs.add(ref_of(lhs))
                return each("MIN", e0, ref_of(lhs))
            if ref_of(lhs) in self.srcs:
                raise ir.AnalysisBroken("%s: winner variable assigned from something else at line %s" % (fn.full, e0.get("l")))
            if ref_of(lhs) is not None and ref_of(lhs) not in (self.target, self.lt):
                return [self.assign(st, ref_of(lhs), b[2]) for st in states]
        u = match.unop(e0, ("++",))
        inc1 = match.binop(e0, ("+=",))
        if inc1 and const_int(inc1[2]) == 1:
            u = ("++", inc1[1])
        if u:
            if ref_of(u[1]) == self.target:
                return each("TGT", e0)
            out = []
            hit = False
            for st in states:
                sf = self.seq_field(u[1], st[4])
                if sf and sf[0] == "first":
                    hit = True
                    out += self.step("ADV", st, e0, sf[1])
                else:
                    out.append(st)
            if hit:
                return dedupe(out)
        # anything else must not touch the tree or the output position
        self.check_calls(e0)
        for z in walk(e0):
            if z["k"] == "LambdaExpr":
                continue
            if z["k"] == "DeclRefExpr" and z["ref"]["id"] == self.lt:
                raise ir.AnalysisBroken("%s: use of the loser tree not understood at line %s" % (fn.full, z.get("l")))
            w = match.unop(z, ("++", "--")) or (match.binop(z, ("=", "+=", "-=")) if z["k"] in ("BinaryOperator", "CompoundAssignOperator", "CXXOperatorCallExpr") else None)
            if w and ((ref_of(w[1]) == self.target or ref_of(w[1]) in self.srcs) or (z is not e0 and self.seq_field_safe(w[1]))):
                raise ir.AnalysisBroken("%s: update of the merge cursor not understood at line %s" % (fn.full, z.get("l")))
        # locals changed by ++/-- lose their constant; a counter stepped by one keeps a small exact value, then 'at least n'
        out = []
        for st in states:
            env = st[4]
            cnt = [(d, v) for d, v in env if step_of(e0, d) == 1 and
                   (isinstance(v, int) and not isinstance(v, bool) and v >= 0 or isinstance(v, tuple) and v[0] == "ge")]
            if cnt:
                d, v = cnt[0]
                nv = v if isinstance(v, tuple) else (v + 1 if v < 3 or self.concrete else ("ge", v + 1))
                out.append(st[:4] + (frozenset((d2, v2) for d2, v2 in env if d2 != d) | {(d, nv)},))
                continue
            down = [(d, v) for d, v in env if self.concrete is not None and isinstance(v, int) and not isinstance(v, bool)
                    and not isinstance(d, str) and step_of(e0, d) == -1]
            if down:
                # a countdown (--remaining) on the exact scalars of a scenario
                d, v = down[0]
                out.append(st[:4] + (frozenset((d2, v2) for d2, v2 in env if d2 != d) | {(d, v - 1)},))
                continue
            upd = match.binop(e0, ("+=", "-=")) if e0["k"] == "CompoundAssignOperator" else None
            if upd and ref_of(upd[1]) is not None:
                old = [v for d, v in env if d == ref_of(upd[1])]
                rv = self.value(upd[2], st)
                if old and all(isinstance(x, int) and not isinstance(x, bool) for x in (old[0], rv)):
                    nv = old[0] + rv if upd[0] == "+=" else old[0] - rv
                    out.append(st[:4] + (frozenset((d, v) for d, v in env if d != ref_of(upd[1])) | {(ref_of(upd[1]), nv)},))
                    continue
            for z in walk(e0):
                w = match.unop(z, ("++", "--")) or (match.binop(z, ("=", "+=", "-=", "*=", "/=")) if z["k"] in ("BinaryOperator", "CompoundAssignOperator") else None)
                if w and ref_of(w[1]) is not None:
                    env = frozenset((d, v) for d, v in env if d != ref_of(w[1]))
            out.append(st[:4] + (env,))
        return dedupe(out)

    def seq_field_safe(self, e):
        try:
            return self.seq_field(e)
        except ir.AnalysisBroken:
            return None

    def assign(self, st, did, rhs):
        env = frozenset((d, v) for d, v in st[4] if d != did)
        try:
            v = self.value(rhs, st)
        except _NeedE:
            v = None
        if isinstance(v, (bool, int)):
            env = env | {(did, v)}
        elif (ref_of(match.strip_conv(rhs)), "winner") in st[4] and st[1]:
            env = env | {(did, "srccopy")}
            self.copies = self.copies | {(did, "srccopy")}
        return st[:4] + (env,)

    def decl(self, v, states):
        fn = self.fn
        init = kids(v)[0] if kids(v) else None
        if v["did"] == self.lt or init is None:
            return states
        if "lambda at" not in (v.get("ty") or ""):
            self.check_calls(init)
        if self.ltcall(match.strip_conv(init), ("min_source",)):
            self.srcs.add(v["did"])
            out = []
            for st in states:
                out += self.step("MIN", st, v, v["did"])
            return dedupe(out)
        if any(self.ltcall(z, ("min_source", "delete_min_insert", "init", "insert_start")) for z in walk(init)):
            raise ir.AnalysisBroken("%s: use of the loser tree not understood at line %s" % (fn.full, v.get("l")))
        ty = v.get("ty") or ""
        if ty.rstrip().endswith("&"):
            sf = self.seq_field_safe(init)
            if sf:
                self.alias[v["did"]] = sf
                return dedupe([st[:4] + (st[4] | {(v["did"], "bound")},) for st in states])
            p = match.index_parts(init)
            if p and ref_of(p[0]) == self.seqs:
                self.pair_alias[v["did"]] = self.index_of(p[1])
                return dedupe([st[:4] + (st[4] | {(v["did"], "bound")},) for st in states])
            return states
        if ref_of(match.strip_conv(init)) in self.srcs:
            # a copy of a winner variable: it names the winner where that variable is the one read last on the path
            self.copies = self.copies | {(v["did"], "srccopy")}
            wd = ref_of(match.strip_conv(init))
            return dedupe([st[:4] + (frozenset((d, x) for d, x in st[4] if d != v["did"]) |
                                     ({(v["did"], "srccopy")} if st[1] and (wd, "winner") in st[4] else set()),) for st in states])
        out = []
        for st in states:
            pend = [st]
            while pend:
                s1 = pend.pop()
                try:
                    val = self.value(init, s1)
                except _NeedE:
                    pend += [s1[:2] + (True,) + s1[3:], s1[:2] + (False,) + s1[3:]]
                    self.edep = self.edep | {(v["did"], "E")}
                    continue
                env = frozenset((d, x) for d, x in s1[4] if d != v["did"])
                if isinstance(val, (bool, int)):
                    env = env | {(v["did"], val)}
                out.append(s1[:4] + (env,))
        return dedupe(out)

    def cond(self, c, states):
        """-> (true states, false states)"""
        t, f = [], []
        if c is None:
            return list(states), []
        for z in walk(c):
            if self.ltcall(z, ("min_source", "delete_min_insert", "init", "insert_start")):
                raise ir.AnalysisBroken("%s: loser tree used inside a condition at line %s" % (self.fn.full, z.get("l")))
        self.check_calls(c)
        pend = list(states)
        while pend:
            st = pend.pop()
            try:
                v = self.value(c, st)
            except _NeedE:
                pend += [st[:2] + (True,) + st[3:], st[:2] + (False,) + st[3:]]
                continue
            if v is None:
                if not self.emptiness_test(c):
                    st = st[:4] + (st[4] | {("?", True)},)
                t.append(st); f.append(st)
            elif v == "null" or v is False or v == 0:
                f.append(st)
            else:
                t.append(st)
        # side effects inside the condition (--remaining) drop constants
        t, f = self.expr_effects(c, t), self.expr_effects(c, f)
        return dedupe(t), dedupe(f)

    def emptiness_test(self, c):
        """c asks whether some sequence is exhausted (seqs[i].first ==/!= seqs[i].second): input data, either answer is
        possible whatever the scalars are"""
        c = strip_casts(c)
        while c is not None:
            if c["k"] == "UnaryOperator" and c.get("op") == "!" and not match.binop(c, ("==", "!=")):
                c = strip_casts(kids(c)[0])
            elif "callee" in c and c["callee"]["name"] == "__builtin_expect" and kids(c):
                c = strip_casts([a for a in kids(c) if a is not None][-2])
            else:
                break
        b = match.binop(c, ("==", "!=")) if c is not None else None
        if not b:
            return False
        fa, fb = self.seq_field_safe(b[1]), self.seq_field_safe(b[2])
        return bool(fa and fb and {fa[0], fb[0]} == {"first", "second"} and fa[1] == fb[1])

    def expr_effects(self, c, states):
        ws = [ref_of(w[1]) for z in walk(c) for w in [match.unop(z, ("++", "--")) or (match.binop(z, ("=", "+=", "-=")) if z["k"] in ("BinaryOperator", "CompoundAssignOperator") else None)] if w]
        if any(d in (self.target, self.lt) or d in self.srcs for d in ws if d is not None):
            raise ir.AnalysisBroken("%s: merge cursor changed inside a condition at line %s" % (self.fn.full, c.get("l")))
        ws = {d for d in ws if d is not None}
        if not ws:
            return states
        # a counter stepped by one, unconditionally evaluated (no short-circuit in c), keeps its exact value
        steps = {}
        if not any(z["k"] == "ConditionalOperator" or match.binop(z, ("&&", "||")) for z in walk(c)):
            for z in walk(c):
                u = match.unop(z, ("++", "--")) if z["k"] == "UnaryOperator" else None
                if u and ref_of(u[1]) is not None:
                    d = ref_of(u[1])
                    steps[d] = None if d in steps else (1 if u[0] == "++" else -1)
            for z in walk(c):
                w = match.binop(z, ("=", "+=", "-=")) if z["k"] in ("BinaryOperator", "CompoundAssignOperator") else None
                if w and ref_of(w[1]) in steps:
                    steps[ref_of(w[1])] = None
        out = []
        for st in states:
            env = frozenset((d, v) for d, v in st[4] if d not in ws)
            for d, dv in steps.items():
                old = [v for d2, v in st[4] if d2 == d and isinstance(v, int) and not isinstance(v, bool)]
                if dv is not None and old and (self.concrete is not None or 0 <= old[0] + dv <= 3):
                    env = env | {(d, old[0] + dv)}
            out.append(st[:4] + (env,))
        return out

    def block(self, stmts, states):
        """-> (fall-through, break, continue) state lists; returns are checked on the spot"""
        brk, cont = [], []
        for s in stmts:
            if not states:
                break
            states, b, c = self.stmt(s, states)
            brk += b
            cont += c
        return states, brk, cont

    def stmt(self, s, states):
        self.nsteps += 1
        if self.nsteps > 20000:
            raise ir.AnalysisBroken("%s: protocol analysis does not terminate" % self.fn.full)
        if s is None:
            return states, [], []
        k = s["k"]
        if k == "CompoundStmt":
            return self.block(kids(s), states)
        if k in ("NullStmt",):
            return states, [], []
        if k == "DeclStmt":
            for v in kids(s):
                if v["k"] == "VarDecl":
                    states = self.decl(v, states)
            return states, [], []
        if k == "IfStmt":
            c, t, e = kids(s)[0], kids(s)[1], kids(s)[2] if len(kids(s)) > 2 else None
            ts, fs = self.cond(c, states)
            a1, b1, c1 = self.stmt(t, ts) if ts else ([], [], [])
            a2, b2, c2 = (self.stmt(e, fs) if e is not None else (fs, [], [])) if fs else ([], [], [])
            return dedupe(a1 + a2), b1 + b2, c1 + c2
        if k == "ReturnStmt":
            if self.concrete is not None:
                # emission count of the scenario: the returned end, the output position and the number of advances
                rv = kids(s)[0] if kids(s) else None
                num = lambda env, d: ([v for d2, v in env if d2 == d and isinstance(v, int) and not isinstance(v, bool)] or [None])[0]
                for st in states:
                    try:
                        r = self.value(rv, st)
                    except _NeedE:
                        r = None
                    self.returns.append((r if isinstance(r, int) and not isinstance(r, bool) else None, num(st[4], self.target),
                                         num(st[4], "#adv") or 0, ("?", True) not in st[4], s))
            for st in states:
                if st[3]:
                    self.bad("target", "the function returns while the last written element is not included in the returned end "
                             "(target not advanced)", s, (id(s), "RET", None), ("?", True) not in st[4])
                else:
                    self.ok_keys.add((id(s), "RET", None))
            return [], [], []
        if k == "BreakStmt":
            return [], list(states), []
        if k == "ContinueStmt":
            return [], [], list(states)
        if k in ("ForStmt", "WhileStmt", "DoStmt"):
            init, c, inc, body = match.loop_parts(s)
            if init is not None:
                states, _, _ = self.stmt(init, states)
            head, exits = set(), []
            work = list(states)
            first = k == "DoStmt"
            while work:
                new = [st for st in dedupe(work) if st not in head]
                work = []
                if not new:
                    break
                head |= set(new)
                if first:
                    ts, fs = new, []
                else:
                    ts, fs = self.cond(c, new)
                exits += fs
                if not ts:
                    continue
                a, b, cn = self.stmt(body, ts)
                exits += b
                nxt = dedupe(a + cn)
                if inc is not None and nxt:
                    nxt = self.expr(inc, nxt)
                if k == "DoStmt" and nxt:
                    ts2, fs2 = self.cond(c, nxt)
                    exits += fs2
                    nxt = ts2
                    # states re-entering the body
                    first = True
                work = nxt
            return dedupe(exits), [], []
        if k in ("SwitchStmt", "GotoStmt", "LabelStmt", "CXXTryStmt"):
            raise ir.AnalysisBroken("%s: %s in a loser-tree driver" % (self.fn.full, k))
        inl = self.closure_body(s)
        if inl is not None:
            return self.block(inl, states)
        return self.expr(s, states), [], []

    # ---- closures and helpers
    NOT_FOLLOWED_OK = ("tlx::unused", "tlx::multiway_merge_detail::iterpair_size")

    def check_calls(self, e):
        """a call of a closure or of a project function with a body, other than the members of the tree (which the
        protocol reads), runs statements this analysis does not see: they may emit, advance or feed"""
        tu = getattr(self.fn, "tu", None)
        for z in walk(e):
            if z["k"] == "CallExpr" and "callee" not in z:
                raise ir.AnalysisBroken("%s: the call through a pointer at line %s is not followed" % (self.fn.full, z.get("l")))
            if "callee" not in z:
                continue
            if z["k"] == "CXXOperatorCallExpr" and z.get("op") == "()" and kids(z) and \
                    "lambda at" in ((strip_casts(kids(z)[0]) or {}).get("ty") or ""):
                raise ir.AnalysisBroken("%s: the body of the closure called at line %s is not followed" % (self.fn.full, z.get("l")))
            if z.get("member_call") and kids(z) and ref_of(kids(z)[0]) == self.lt:
                continue
            f = tu.by_did.get(z["callee"].get("did")) if tu is not None else None
            if f is not None and f.body is not None and f.kind not in ("ctor", "dtor") and f.qname not in self.NOT_FOLLOWED_OK \
                    and z["k"] in ("CallExpr", "CXXMemberCallExpr"):
                raise ir.AnalysisBroken("%s: the body of %s called at line %s is not followed" % (self.fn.full, f.name, z.get("l")))

    def closure_body(self, s):
        """the statements run by the expression statement s if it is a call of a closure whose lambda captures by
        reference only: the body of the lambda, its parameters replaced by the (plain) arguments; None if s is no such
        call.  The body works on the variables of this function (it refers to them by their own declarations)."""
        n = strip_casts(s)
        while n is not None and n["k"] in ("ExprWithCleanups", "ParenExpr") and kids(n):
            n = strip_casts(kids(n)[0])
        tu = getattr(self.fn, "tu", None)
        if n is None or tu is None or n["k"] != "CXXOperatorCallExpr" or n.get("op") != "()" or not kids(n):
            return None
        if not hasattr(self, "_inl"):
            self._inl = {}
        if id(n) in self._inl:
            return self._inl[id(n)][1]
        fx = strip_casts(kids(n)[0])
        while fx is not None and fx["k"] in ("MaterializeTemporaryExpr", "CXXBindTemporaryExpr", "ExprWithCleanups", "ParenExpr") and kids(fx):
            fx = strip_casts(kids(fx)[0])
        lam = fx if fx is not None and fx["k"] == "LambdaExpr" else None
        if lam is None and ref_of(fx) is not None:
            v = local_decl(self.fn, ref_of(fx))
            init = match.strip_conv(kids(v)[0]) if v is not None and kids(v) and not (v.get("ty") or "").rstrip().endswith(("&", "*")) else None
            while init is not None and init["k"] in ("MaterializeTemporaryExpr", "CXXBindTemporaryExpr", "ExprWithCleanups", "ParenExpr") and kids(init):
                init = match.strip_conv(kids(init)[0])
            lam = init if init is not None and init["k"] == "LambdaExpr" else None
        f = tu.by_did.get(n["callee"].get("did"))
        if lam is None or f is None or f.body is None or f.kind != "lambda" or lam.get("fn") != f.did:
            return None
        where = "%s: closure called at line %s" % (self.fn.full, n.get("l"))
        if any(not c.get("byref") for c in lam.get("captures", [])):
            raise ir.AnalysisBroken(where + " captures by copy")
        args = kids(n)[1:]
        if len(args) != len(f.params):
            raise ir.AnalysisBroken(where + " with %d arguments for %d parameters" % (len(args), len(f.params)))
        sub = {}
        for prm, a in zip(f.params, args):
            a0 = strip_casts(a)
            ty = (prm.get("ty") or "").rstrip()
            byref = ty.endswith("&") and not ty.endswith("&&")
            if a0 is None or a0["k"] not in ("DeclRefExpr", "IntegerLiteral", "CXXBoolLiteralExpr") or \
                    (not byref and (writes_to(f.body, prm["did"]) or (a0["k"] == "DeclRefExpr" and writes_to(f.body, a0["ref"]["id"])))):
                raise ir.AnalysisBroken(where + ": argument %s is not a plain variable that the body leaves alone" % dtable.describe(a))
            sub[prm["did"]] = a0
        stmts = [x for x in kids(f.body)] if f.body["k"] == "CompoundStmt" else [f.body]
        if stmts and stmts[-1] is not None and stmts[-1]["k"] == "ReturnStmt":
            rv = kids(stmts[-1])[0] if kids(stmts[-1]) else None
            stmts = stmts[:-1] + ([rv] if rv is not None else [])
        for x in stmts:
            for z in walk(x):
                if z["k"] in ("ReturnStmt", "GotoStmt", "LabelStmt", "This"):
                    raise ir.AnalysisBroken(where + ": %s inside the body" % z["k"])

        def repl(x):
            if x is None:
                return None
            if x["k"] == "DeclRefExpr" and x["ref"]["id"] in sub:
                return sub[x["ref"]["id"]]
            if "ch" in x:
                return dict(x, ch=[repl(c) for c in x["ch"]])
            return x
        body = [repl(x) for x in stmts] if sub else stmts
        self._inl[id(n)] = (n, body)             # kept: the statements of one call site are the same objects on every visit
        return body


def strip_post(d):
    """x for x++ (builtin or overloaded postfix increment), else d"""
    d = strip_casts(d)
    while d is not None and d["k"] == "ParenExpr":
        d = strip_casts(kids(d)[0])
    if d is not None and d["k"] == "UnaryOperator" and d.get("op") == "++" and d.get("postfix"):
        return strip_casts(kids(d)[0])
    if d is not None and d["k"] == "CXXOperatorCallExpr" and d.get("op") == "++" and len(kids(d)) == 3:
        return strip_casts(kids(d)[1])
    return d


def dedupe(states):
    seen, out = set(), []
    for s in states:
        if s not in seen:
            seen.add(s)
            out.append(s)
    return out


def check_lt_protocol(ck, tu):
    for name in ("multiway_merge_loser_tree", "multiway_merge_loser_tree_unguarded"):
        fns = tu.some(qname=NS + name)
        for fn in fns[:2]:
            ck.guarded(lambda fn=fn, name=name: lt_one(ck, fn, name))


def lt_one(ck, fn, name):
    guarded = not name.endswith("unguarded")
    seqs = fn.params[0]["did"]
    target = fn.params[2]["did"]
    ltv = [x for x in ir.walk(fn.body) if x["k"] == "VarDecl" and x.get("ty", "").startswith("tlx::LoserTree")]
    ck.require(len(ltv) == 1, "%s: loser tree local not found" % fn.loc)
    lt = ltv[0]["did"]
    fl = LTFlow(fn, lt, seqs, target, guarded)
    problems = []
    # (a) start loop: every player t in [0,k) inserted with its own head
    loops = [s for s in kids(fn.body) if s["k"] in ("ForStmt", "WhileStmt")]
    start = [l for l in loops if any(fl.ltcall(x, ("insert_start",)) for x in ir.walk(l))]
    ck.require(len(start) == 1, "%s: start loop not found" % fn.loc)
    sl = start[0]
    init, cond, inc, body = match.loop_parts(sl)
    tvar = [x["did"] for x in ir.walk(init) if x["k"] == "VarDecl"] if init is not None else []
    if not tvar:
        tvar = [x["did"] for x in ir.walk(fn.body) if x["k"] == "VarDecl" and x.get("did") not in (seqs, target, lt) and
                any(step_of(z, x["did"]) == 1 for z in ir.walk(sl))]
    ck.require(len(tvar) >= 1, "%s: index of the start loop not found" % fn.loc)
    def loop_index(i):
        """True: i is the loop index (or an unchanged copy of it); False: a constant; otherwise not decidable"""
        r = ref_of(match.strip_conv(resolve_local(fn, i)))
        if r is not None and r in tvar:
            return True
        if r is None and const_int(i) is not None:
            return False
        raise ir.AnalysisBroken("%s: argument of insert_start() not understood at line %s: %s" % (fn.full, i.get("l"), dtable.describe(i)))
    for c in [x for x in ir.walk(body) if fl.ltcall(x, ("insert_start",))]:
        a = kids(c)[1:]
        if len(a) < 3:
            raise ir.AnalysisBroken("%s: insert_start() with %d arguments at line %s" % (fn.full, len(a), c.get("l")))
        if not loop_index(a[1]):
            problems.append(("start-source", "insert_start is not called with the loop index as source", c))
        key = strip_casts(a[0])
        if key["k"] != "NullPtr" and const_int(a[2]) != 1:
            f = match.field_of(match.deref_of(kids(key)[0])) if key["k"] == "UnaryOperator" and key.get("op") == "&" and match.deref_of(kids(key)[0]) is not None else None
            q = match.index_parts(f[0]) if f and f[1] == "first" else None
            if not q or ref_of(q[0]) != seqs:
                raise ir.AnalysisBroken("%s: key of insert_start() not understood at line %s" % (fn.full, c.get("l")))
            if not loop_index(q[1]):
                problems.append(("start-key", "insert_start does not take the head of sequence t", c))
    # (b) the protocol as a typestate over every path of the driver
    st0 = ("FRESH", False, None, False, frozenset())
    fall, _, _ = fl.block(kids(fn.body), [st0])
    if fall:
        raise ir.AnalysisBroken("%s: driver falls off its end" % fn.full)
    need = {"START", "INIT", "MIN", "EMIT", "TGT", "ADV", "DMI"}
    found, undecided = fl.definite()
    if not found and undecided:
        for size_ in (3, 1):
            sc = {"size": size_, "k": 3, "each": 2, "total": 6}
            fc = LTFlow(fn, lt, seqs, target, guarded, concrete=sc)
            seeds = {seqs: 0, fn.params[1]["did"]: sc["k"], target: 1000, fn.params[3]["did"]: size_}
            try:
                fall_c, _, _ = fc.block(kids(fn.body), [("FRESH", False, None, False, frozenset(seeds.items()))])
            except ir.AnalysisBroken:
                continue
            found = fc.definite()[0]
            if found:
                break
    if not found and undecided:
        sig, msg, node = undecided[0]
        raise ir.AnalysisBroken("%s: on some paths only: %s; whether these paths can be taken is not decided" % (fn.nloc(node), msg))
    if not found and not need <= fl.seen_events:
        raise ir.AnalysisBroken("%s: protocol events %s never seen" % (fn.full, sorted(need - fl.seen_events)))
    problems += found
    if not problems:
        problems += lt_count(fn, lt, seqs, target, guarded)
    if problems:
        for sig, msg, node in problems[:3]:
            ck.violation("LT-PROTOCOL", fn.qname, ("guarded:" if guarded else "unguarded:") + sig, msg, fn.nloc(node))
    else:
        ck.ok("LT-PROTOCOL", "%s<%s>" % (name, fn.targs[0].split("<")[0]),
              "typestate over all paths: insert_start x k -> init -> (min_source, emit+advance that source, "
              "delete_min_insert fed from that source, sup iff exhausted)*")


LT_COUNT_SIZES = (0, 1, 2, 3, 6)


def lt_count(fn, lt, seqs, target, guarded):
    """emission count of a loser-tree driver: for a requested length `size` (not above the total) the driver writes exactly
    `size` elements, returns target + size and advances inputs exactly `size` times -- also for size 0, which the combined
    variant passes whenever the requested length lies inside the unguarded prefix.  Decided by running the typestate
    executor on concrete scalars (3 sequences of 2 elements, output position a number); the only undecided conditions
    are exhaustion tests of input sequences, which fork.  A forked path need not be feasible, so a wrong count is a
    counterexample only when every return of the scenario, all reached through decided branches, has it."""
    for size_ in LT_COUNT_SIZES:
        sc = {"size": size_, "k": 3, "each": 2, "total": 6}
        fc = LTFlow(fn, lt, seqs, target, guarded, concrete=sc)
        base = 1000
        seeds = {seqs: 0, fn.params[1]["did"]: sc["k"], target: base, fn.params[3]["did"]: size_}
        fall, _, _ = fc.block(kids(fn.body), [("FRESH", False, None, False, frozenset(seeds.items()))])
        where = "%s: emission count for size %d on 3 sequences of 2 elements" % (fn.full, size_)
        if fall:
            raise ir.AnalysisBroken(where + ": driver falls off its end")
        if fc.badlog:
            raise ir.AnalysisBroken(where + ": a path ends in a transition the protocol forbids (%s)" % fc.badlog[0][1])
        if not fc.returns:
            raise ir.AnalysisBroken(where + ": no return reached")
        wrong = [r for r in fc.returns if r[0] != base + size_ or r[1] != base + size_ or r[2] != size_]
        if not wrong:
            continue
        if any(r[0] is None or r[1] is None for r in fc.returns):
            raise ir.AnalysisBroken(where + ": returned end or output position has no value")
        if len(wrong) < len(fc.returns) or not all(r[3] for r in fc.returns):
            raise ir.AnalysisBroken(where + ": differs between paths whose feasibility is not decided")
        r = wrong[0]
        return [("count", "for size %d on %d sequences of %d elements the driver writes %d element(s), returns target + %d and "
                 "advances inputs %d time(s); exactly size elements must be written, target + size returned and size elements "
                 "taken from the inputs" % (size_, sc["k"], sc["each"], r[1] - base, r[0] - base, r[2]), r[4])]
    return []


# ------------------------------------------------------------------ bubble merge
def check_bubble(ck, tu):
    for fn in tu.some(qname=NS + "multiway_merge_bubble"):
        ck.guarded(lambda fn=fn: bubble_one(ck, fn))


def bubble_one(ck, fn):
    stable = fn.targs[0] == "true"
    comp = fn.params[4]["did"]
    # the key array is the local whose elements are handed to the comparator, the source array the other local
    # that is exchanged element-wise
    locs = {x["did"] for x in ir.walk(fn.body) if x["k"] == "VarDecl"}
    plv, srcv = set(), set()
    for x in ir.walk(fn.body):
        fc = match.functor_call(x)
        if fc and ref_of(fc[0]) == comp:
            for a in fc[1]:
                q = match.index_parts(a)
                if q and ref_of(q[0]) in locs:
                    plv.add(ref_of(q[0]))
    for x in ir.walk(fn.body):
        if match.call_named(x, ("swap", "iter_swap")) and len(kids(x)) == 2:
            qs = [match.index_parts(a) for a in kids(x)]
            if all(qs) and ref_of(qs[0][0]) == ref_of(qs[1][0]) and ref_of(qs[0][0]) in locs - plv:
                srcv.add(ref_of(qs[0][0]))
    ck.require(len(plv) == 1 and len(srcv) == 1, "%s: key/source arrays not found" % fn.loc)
    pl, src = next(iter(plv)), next(iter(srcv))

    def pos_of(e, arr):
        """('rel', var_did, off) / ('abs', n) index of arr[...]"""
        p = match.index_parts(e)
        if not p or ref_of(p[0]) != arr:
            return None
        i = strip_casts(p[1])
        c = const_int(i)
        if c is not None and i["k"] == "IntegerLiteral":
            return ("abs", None, c)
        if ref_of(i) is not None:
            return ("rel", ref_of(i), 0)
        b = match.binop(i, ("+", "-"))
        if b and ref_of(b[1]) is not None and const_int(b[2]) is not None:
            return ("rel", ref_of(b[1]), const_int(b[2]) if b[0] == "+" else -const_int(b[2]))
        return None

    def make_atomize(extra=None):
        def atomize(n, run):
            ce = closure_expr(fn, n)
            if ce is not None:
                return bool(run.truth(ce))
            if extra:
                r = extra(n)
                if r is not None:
                    return r
            fc = match.functor_call(n)
            if fc and ref_of(fc[0]) == comp and len(fc[1]) == 2:
                a, b = pos_of(fc[1][0], pl), pos_of(fc[1][1], pl)
                if a and b and a[1] == b[1] and abs(a[2] - b[2]) == 1:
                    return ("comp(hi,lo)", False) if a[2] > b[2] else ("comp(lo,hi)", False)
                raise dtable.Undecidable("%s: comparator on unexpected operands: %s" % (fn.nloc(n), dtable.describe(n)))
            b = match.binop(n, ("<", ">"))
            if b and strip_casts(n)["k"] == "BinaryOperator":
                a, c = pos_of(b[1], src), pos_of(b[2], src)
                if a and c and a[1] == c[1] and abs(a[2] - c[2]) == 1:
                    hi_first = a[2] > c[2]
                    lt = b[0] == "<"
                    # normalise to src[hi] < src[lo]  (C)  /  src[lo] < src[hi]  (D)
                    return ("src(hi)<src(lo)", False) if hi_first == lt else ("src(lo)<src(hi)", False)
            return None
        return atomize

    def consistent(v):
        if v.get("in-range") and v.get("at-most") is False:
            return False
        return not (v.get("comp(hi,lo)") and v.get("comp(lo,hi)")) and not (v.get("src(hi)<src(lo)") and v.get("src(lo)<src(hi)")) \
            and (v.get("src(hi)<src(lo)") or v.get("src(lo)<src(hi)") or "src(hi)<src(lo)" not in v)

    def swap_spec(v):
        A, B = v["comp(hi,lo)"], v["comp(lo,hi)"]
        C, D = v.get("src(hi)<src(lo)", False), v.get("src(lo)<src(hi)", False)
        if stable:
            return (A or (not A and not B and C)), (B or (not A and not B and D))
        return A, B
    spec_atoms = ["comp(hi,lo)", "comp(lo,hi)"] + (["src(hi)<src(lo)", "src(lo)<src(hi)"] if stable else [])
    n_sites = 0
    bad = False
    # (1) swap decisions: if-statements and while-conditions guarding std::swap(pl[..], pl[..])
    for x in ir.walk(fn.body):
        cond = None
        if x["k"] == "IfStmt" and any(match.call_named(y, ("swap",)) for y in ir.walk(kids(x)[1])):
            if const_int(kids(x)[0]) is not None:
                continue
            cond = kids(x)[0]
            body = kids(x)[1]
        elif x["k"] in ("WhileStmt", "ForStmt") and match.loop_parts(x)[1] is not None and match.loop_parts(x)[3] is not None and \
                any(match.call_named(y, ("swap",)) for y in kids(match.loop_parts(x)[3]) if y):
            cond = match.loop_parts(x)[1]
            body = match.loop_parts(x)[3]
            if any(y["k"] in ("WhileStmt", "ForStmt") for y in ir.walk(body)):
                continue
        if cond is None:
            continue
        # reachable for this instantiation? (if (Stable) ... else ...)
        if not reachable_const(fn, x):
            continue
        # a statement that merely encloses the deciding if / loop is not itself the decision
        inner = [y for y in ir.walk(body) if y is not body and y["k"] in ("IfStmt", "WhileStmt", "ForStmt")
                 and any(match.call_named(z, ("swap",)) for z in ir.walk(y))]
        if inner and not any(match.call_named(y, ("swap",)) for y in (kids(body) if body["k"] == "CompoundStmt" else [body]) if y):
            continue

        # the position that is compared: index variable of the comparator's operands in this condition
        idxv = set()
        for z in ir.walk(cond):
            fc = match.functor_call(z)
            if fc and ref_of(fc[0]) == comp:
                idxv |= {q[1] for q in (pos_of(a, pl) for a in fc[1]) if q and q[0] == "rel"}

        def extra(n, idxv=idxv):
            """position < bound: 'in-range'; position <= bound: 'at-most' (either operand order)"""
            b = match.binop(n, ("<", ">", "<=", ">="))
            if b and strip_casts(n)["k"] == "BinaryOperator" and pos_of(b[1], src) is None and ref_of(b[1]) is not None and ref_of(b[2]) is not None \
                    and len(idxv) == 1 and (ref_of(b[1]) in idxv) != (ref_of(b[2]) in idxv):
                op = b[0] if ref_of(b[1]) in idxv else {"<": ">", ">": "<", "<=": ">=", ">=": "<="}[b[0]]
                return {"<": ("in-range", False), ">=": ("in-range", True), "<=": ("at-most", False), ">": ("at-most", True)}[op]
            return None
        leaves = dtable.explore(cond, make_atomize(extra), fn, as_expr=True)
        if not {"comp(hi,lo)", "comp(lo,hi)"} & set(dtable.atoms_of(leaves)):
            raise Undecidable("%s: neighbour exchange that is not decided by a comparison: %s" % (fn.nloc(cond), dtable.describe(cond)[:80]))
        atoms = list(dict.fromkeys(spec_atoms + dtable.atoms_of(leaves)))
        if "at-most" in atoms and "in-range" not in atoms:
            atoms.append("in-range")
        n_sites += 1
        for v, lf in dtable.table(leaves, consistent, atoms):
            if "in-range" in v and not v["in-range"]:
                if lf["result"]:
                    ck.violation("BUBBLE-TABLE", fn.qname, "%s:swap-range" % ("stable" if stable else "unstable"), "sink-down continues beyond the live players", fn.nloc(cond))
                    bad = True
                continue
            req, forb = swap_spec(v)
            if (req and not lf["result"]) or (forb and lf["result"]):
                ck.violation("BUBBLE-TABLE", fn.qname, "%s:swap:%s" % ("stable" if stable else "unstable", dtable.fmt_val(v)),
                             "neighbour exchange decision wrong for (%s): exchanges=%s" % (dtable.fmt_val(v), lf["result"]), fn.nloc(cond))
                bad = True
        # swapped things: both arrays at the same positions
        sw = [y for y in ir.walk(body) if match.call_named(y, ("swap",))]
        arrs = set()
        for y in sw:
            if len(kids(y)) != 2:
                continue
            a, b = kids(y)
            for arr in (pl, src):
                pa, pb = pos_of(a, arr), pos_of(b, arr)
                if pa and pb and pa[1] == pb[1] and abs(pa[2] - pb[2]) == 1:
                    arrs.add(arr)
        if arrs != {pl, src}:
            # closed world: the guarded statement holds nothing but recognised neighbour exchanges and the step of a counter
            for y in (kids(body) if body["k"] == "CompoundStmt" else [body]):
                if y is None or y["k"] == "NullStmt":
                    continue
                if match.call_named(y, ("swap",)) and len(kids(y)) == 2 and any(pos_of(kids(y)[0], ar) and pos_of(kids(y)[1], ar) for ar in (pl, src)):
                    continue
                if any(step_of(y, d) is not None for d in locs - {pl, src}):
                    continue
                raise Undecidable("%s: statement next to the neighbour exchange not understood: %s" % (fn.nloc(y), dtable.describe(y)[:80]))
            ck.violation("BUBBLE-TABLE", fn.qname, "%s:swap-both" % ("stable" if stable else "unstable"), "key and source arrays are not exchanged together", fn.nloc(x))
            bad = True
    # (2) emission loops: while ((nrp == 1 || cmp) && size > 0) inside the outer loop
    emis = []
    for x in ir.walk(fn.body):
        if x["k"] in ("WhileStmt", "ForStmt") and match.loop_parts(x)[1] is not None and reachable_const(fn, x):
            body = match.loop_parts(x)[3]
            if any(step_of(y, fn.params[2]["did"]) == 1 for y in kids(body) if y):
                emis.append(x)
    ctxs = []
    for w in emis:
        # context: enclosing if-conditions inside the function
        ctx = []
        node, par = w, fn.parent(w)
        while par is not None:
            if par["k"] == "IfStmt" and const_int(kids(par)[0]) is None:
                in_then = any(y is node for y in ir.walk(kids(par)[1]))
                ctx.append((kids(par)[0], in_then))
            node, par = par, fn.parent(par)

        def extra(n):
            b = match.binop(n, ("==",))
            if b and const_int(b[2]) == 1 and ref_of(b[1]) is not None:
                return ("single", False)
            if match.positive_test(n, fn.params[3]["did"]):
                return ("size>0", False)
            return None
        at = make_atomize(extra)

        cond = match.loop_parts(w)[1]
        leaves = dtable.explore(cond, at, fn, as_expr=True)
        if "size>0" not in dtable.atoms_of(leaves) and any(
                z["k"] == "DeclRefExpr" and z["ref"]["id"] == fn.params[3]["did"]
                for y in ir.walk(match.loop_parts(w)[3]) if y["k"] in ("IfStmt", "ConditionalOperator") for z in ir.walk(kids(y)[0])):
            raise Undecidable("%s: the remaining length is tested inside the emission loop, not in its guard" % fn.nloc(w))
        if "single" not in dtable.atoms_of(leaves):
            # closed world: no other place decides the case of a single live sequence
            for y in ir.walk(fn.body):
                if y["k"] == "IfStmt" and reachable_const(fn, y):
                    for z in ir.walk(kids(y)[0]):
                        q = match.binop(z, ("==", "!=", "<", "<=", ">", ">=")) if z["k"] == "BinaryOperator" else None
                        if q and ((ref_of(q[1]) is not None and const_int(q[2]) in (1, 2)) or (ref_of(q[2]) is not None and const_int(q[1]) in (1, 2))):
                            raise Undecidable("%s: the case of a single live sequence is decided outside the guard of the emission loop" % fn.nloc(y))
        ctx_leaves = [(dtable.explore(c, at, fn, as_expr=True), pol) for c, pol in ctx]
        atoms = ["comp(hi,lo)", "comp(lo,hi)", "single", "size>0"] + (["src(hi)<src(lo)", "src(lo)<src(hi)"] if stable else [])
        for ls, _ in ctx_leaves:
            atoms += dtable.atoms_of(ls)
        atoms = list(dict.fromkeys(atoms + dtable.atoms_of(leaves)))
        n_sites += 1
        for v, lf in dtable.table(leaves, consistent, atoms):
            if not v["size>0"]:
                if lf["result"]:
                    ck.violation("BUBBLE-TABLE", fn.qname, "emit:size", "emission continues although the requested length is exhausted", fn.nloc(cond))
                    bad = True
                continue
            holds = True
            for ls, pol in ctx_leaves:
                for v2, l2 in dtable.table(ls, None, atoms):
                    if v2 == v:
                        holds = holds and (l2["result"] == pol)
                        break
            if not holds:
                continue
            ctxs.append(tuple(sorted(v.items())))
            if v["single"]:
                if not lf["result"]:
                    ck.violation("BUBBLE-TABLE", fn.qname, "emit:single", "with a single live sequence emission must continue", fn.nloc(cond))
                    bad = True
                continue
            # head = position 0 ('lo'), next = position 1 ('hi')
            A, B = v["comp(hi,lo)"], v["comp(lo,hi)"]
            C, D = v.get("src(hi)<src(lo)", False), v.get("src(lo)<src(hi)", False)
            if stable:
                must = B or (not A and not B and D)
                mustnot = A or (not A and not B and C)
            else:
                must, mustnot = B, A
            if (must and not lf["result"]) or (mustnot and lf["result"]):
                ck.violation("BUBBLE-TABLE", fn.qname, "%s:emit:%s" % ("stable" if stable else "unstable", dtable.fmt_val(v)),
                             "emission of the front player %s although %s (%s)" % ("stops" if must else "continues",
                             "it is the stable minimum" if must else "the next player precedes it", dtable.fmt_val(v)), fn.nloc(cond))
                bad = True
    ck.require(n_sites >= 3, "%s: bubble decisions not found (%d)" % (fn.loc, n_sites))
    if not bad:
        ck.ok("BUBBLE-TABLE", "multiway_merge_bubble<%s>" % fn.targs[0], "%d decision sites (initial sort, sink-down, emission loops) agree with the %s order"
              % (n_sites, "stable (key, source)" if stable else "key"))


def reachable_const(fn, node):
    """False if the node sits in the dead branch of an if with a compile-time constant condition"""
    n, par = node, fn.parent(node)
    while par is not None:
        if par["k"] == "IfStmt":
            cv = const_int(kids(par)[0])
            if cv is not None:
                in_then = kids(par)[1] is not None and any(y is n for y in ir.walk(kids(par)[1]))
                if in_then != bool(cv):
                    return False
        n, par = par, fn.parent(par)
    return True
