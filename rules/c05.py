"""C05 — sequential multiway merge: order automata for the 3/4-way merges (A3),
comparison-operator tables, two-way merge decisions, phase-length conservation,
dispatch/propagation rules, loser-tree driver protocol."""
from engine import ir, dtable, match, order, cfg as cfgm
from engine.ir import kids, strip_casts, const_int, ref_of

NS = "tlx::multiway_merge_detail::"


def check_merge34(ck, tu):
    for name, k in (("multiway_merge_3_variant", 3), ("multiway_merge_4_variant", 4)):
        fns = tu.some(qname=NS + name)
        for fn in fns:
            guarded = "unguarded_iterator" not in fn.targs[0]
            reported = set()

            def report(rule, sig, msg, node, fn=fn, reported=reported):
                if (rule, sig) in reported:
                    return
                reported.add((rule, sig))
                ck.violation(rule, fn.qname, ("guarded:" if guarded else "unguarded:") + sig, msg, fn.nloc(node))
            prog = order.MergeProgram(fn, tu)
            ck.require(prog.k == k, "%s: %d sequence cursors found, expected %d" % (fn.loc, prog.k, k))
            ex = order.Explorer(prog, guarded, report)
            n = ex.run()
            ck.states += n
            labels = len(prog.labels) - len(ex.finish_labels())
            ck.require(ex.finish_checked, "%s: finish block never reached" % fn.loc)
            where = "%s<%s>" % (name, "guarded" if guarded else "unguarded")
            if not reported:
                ck.ok("MERGE34-STABLE-MIN", where, "%d abstract states (label x weak order of %d heads), %d emissions checked, %d transitions over %d labels"
                      % (n, k, ex.emissions, ex.transitions, labels),
                      sample=dict(rule="MERGE34-STABLE-MIN", fn=where, states=n, emissions=ex.emissions, labels=labels))
                ck.ok("MERGE34-PAIRING", where, "every emission is followed by ++target, --size, ++same sequence and a length test")
                ck.ok("MERGE34-WRITEBACK", where, "finish writes all %d cursors back and returns target" % k)
            # operator tables of this iterator class
            for did, table in prog.ops.items():
                opfn = tu.by_did[did]
                opname = opfn.d.get("op") or opfn.name.replace("operator", "")
                bad = order.check_op_table(table, opname, guarded)
                w = "%s %s" % ("guarded_iterator" if guarded else "unguarded_iterator", opfn.name)
                if bad:
                    row, got, want = bad[0]
                    ck.violation("GUARD-OPS-TABLE", opfn.qname, ("guarded:" if guarded else "unguarded:") + opname,
                                 "%s returns %s for (exhausted1=%s, exhausted2=%s, comp(1,2)=%s, comp(2,1)=%s), must be %s"
                                 % (opfn.name, got, row[0], row[1], row[2], row[3], want), opfn.loc)
                else:
                    ck.ok("GUARD-OPS-TABLE", w + " (k=%d)" % k, "truth table over (exhausted1, exhausted2, comp12, comp21) matches %s" % opname)


def run(ck):
    ck.explanation = (
        "The 3- and 4-way goto-encoded merges are read as goto programs and explored as order automata: abstract state = (label, "
        "weak order of the k heads incl. exhausted); comparisons are evaluated with the truth tables extracted from the iterator "
        "classes' own operator< / operator<=; at every emission the emitted head must be the stable minimum, every emission must be "
        "paired with ++target, --size, ++that sequence and a length test, and the finish block must write all cursors back. Two-way "
        "merges, the bubble merge, the loser-tree drivers, prepare_unguarded, the combined variants' phase lengths and the dispatcher "
        "are decided by decision tables, event-order and value-set rules on the instantiated AST. Given sorted inputs and size <= "
        "total this decides order, stability and the advance contract of the k<=4 variants completely; for k>=5 the global order "
        "rests on C09 plus the tournament argument (stated, not machine-checked). Length arithmetic inside prepare_unguarded and "
        "k=1 copy are not decided.")
    ck.assumptions = ["inputs are sorted by the comparator, which is a strict weak order", "size <= total number of elements",
                      "sentinel variants: each sequence is followed by a sentinel greater than all real elements"]
    defs = []
    tu = ir.extract("witness/C05_multiway_merge.cpp")
    check_merge34(ck, tu)
    check_merge2(ck, tu)
    check_combined(ck, tu)
    check_prepare(ck, tu)
    check_dispatch(ck, tu)
    check_lt_protocol(ck, tu)
    check_bubble(ck, tu)
    # the k >= 5 variants stand on the loser trees: their replay / initialisation tables are decided for the tree classes
    # instantiated here (copy-based for small elements, pointer-based for elements larger than two words)
    from rules import c09
    from rules.parcommon import check_comp_threaded_all
    nct = check_comp_threaded_all(ck, tu, ("tlx::multiway_merge_detail::", "tlx::multiway_merge", "tlx::stable_multiway_merge"))
    ck.require(nct >= 2, "no standard ordering algorithm found in the merge functions")
    n_trees = c09.check_trees_in(ck, tu)
    tu_big = ir.extract("witness/C05_multiway_merge.cpp", defines=["WITNESS_T=std::string"], extra_flags=["-include", "string"])
    n_trees += c09.check_trees_in(ck, tu_big)
    ck.require(n_trees >= 8, "expected the copy- and pointer-based loser trees (guarded and unguarded, stable and unstable), found %d" % n_trees)
    if ck.tier == "thorough":
        for defs in (["WITNESS_T=std::string"], ["WITNESS_GREATER"]):
            tu2 = ir.extract("witness/C05_multiway_merge.cpp", defines=defs, extra_flags=["-include", "string"])
            check_merge34(ck, tu2)
            check_merge2(ck, tu2)
            check_combined(ck, tu2)
            check_prepare(ck, tu2)
            check_dispatch(ck, tu2)
            check_lt_protocol(ck, tu2)
            check_bubble(ck, tu2)
    m = 3 if ck.tier == "thorough" else 1
    for rule, n in (("MERGE34-STABLE-MIN", 4), ("MERGE34-PAIRING", 4), ("MERGE34-WRITEBACK", 4), ("GUARD-OPS-TABLE", 8),
                    ("MERGE2-TABLE", 3), ("PHASE-LENGTH-SUM", 4), ("TAIL-ORDER", 2), ("PREPARE-BOUNDS", 2),
                    ("DISPATCH-TOTAL", 60), ("STABLE-PROPAGATE", 4), ("SENTINEL-REACH", 4), ("FRONTEND-FLAGS", 4),
                    ("LT-PROTOCOL", 3), ("BUBBLE-TABLE", 2)):
        ck.floor(rule, n * m)


# ------------------------------------------------------------------ two-way merge
def check_merge2(ck, tu):
    for name in ("merge_advance_usual", "merge_advance_movc"):
        for fn in tu.some(qname="tlx::" + name):
            b1, e1, b2, e2, target, msize, comp = [p["did"] for p in fn.params]
            loops = [s for s in kids(fn.body) if s["k"] == "WhileStmt"]
            ck.require(len(loops) == 1, "%s: one merge loop expected" % fn.loc)
            cond, body = kids(loops[0])
            # loop guard: all three conjuncts
            conj = []

            def flat(n):
                b = match.binop(n, ("&&",))
                if b and strip_casts(n)["k"] == "BinaryOperator":
                    flat(b[1]); flat(b[2])
                else:
                    conj.append(n)
            flat(cond)
            have = set()
            for c in conj:
                b = match.binop(c, ("!=", ">", "<"))
                if b:
                    ids = {ref_of(b[1]), ref_of(b[2])}
                    if ids == {b1, e1} and b[0] == "!=":
                        have.add("seq1")
                    elif ids == {b2, e2} and b[0] == "!=":
                        have.add("seq2")
                    elif ref_of(b[1]) == msize and b[0] == ">" and const_int(b[2]) == 0:
                        have.add("size")
            if have != {"seq1", "seq2", "size"}:
                ck.violation("MERGE2-TABLE", fn.qname, "loop-guard", "merge loop guard lacks %s" % sorted({"seq1", "seq2", "size"} - have), fn.nloc(cond))
                continue

            def symval(e, run, side_effects=None):
                e = strip_casts(e)
                d = match.deref_of(e)
                if d is not None:
                    u = match.unop(d, ("++",))
                    base = u[1] if u else d
                    r = ref_of(base)
                    if r in (b1, b2):
                        w = 1 if r == b1 else 2
                        if u and side_effects is not None:
                            side_effects.append(("adv", w))
                        return "e%d" % w
                    return None
                if e["k"] == "DeclRefExpr":
                    v = run.env.get(e["ref"]["id"])
                    if isinstance(v, str):
                        return v
                    if isinstance(v, dict):
                        return symval(v, run)
                b = match.binop(e, ("+",))
                if b and const_int(b[2]) == 1 and ref_of(b[1]) in (b1, b2):
                    return "next%d" % (1 if ref_of(b[1]) == b1 else 2)
                return None

            def atomize(n, run):
                fc = match.functor_call(n)
                if fc and ref_of(fc[0]) == comp and len(fc[1]) == 2:
                    a, b = symval(fc[1][0], run), symval(fc[1][1], run)
                    if (a, b) == ("e2", "e1"):
                        return ("comp(e2,e1)", False)
                    if (a, b) == ("e1", "e2"):
                        return ("comp(e1,e2)", False)
                    raise dtable.Undecidable("%s: comparator on unexpected operands" % fn.nloc(n))
                return None
            leaves = dtable.explore(body, atomize, fn)
            atoms = ["comp(e2,e1)", "comp(e1,e2)"]
            bad = False
            rows = 0
            for v, lf in dtable.table(leaves, lambda v: not (v["comp(e2,e1)"] and v["comp(e1,e2)"]), atoms):
                rows += 1
                run = lf["run"]
                env = {}
                emitted, adv = [], []

                class R:            # evaluation environment replaying the events in order
                    pass
                r = R()
                r.env = env
                for ev in lf["events"]:
                    if ev[0] == "decl":
                        vd = ev[1]
                        if kids(vd):
                            env[vd["did"]] = symval(kids(vd)[0], r, adv)
                        continue
                    if ev[0] != "expr":
                        raise dtable.Undecidable("%s: unexpected %s in merge loop" % (fn.loc, ev[0]))
                    e = ev[1]
                    b = match.binop(e, ("=",))
                    if b:
                        lhs = strip_casts(b[1])
                        d = match.deref_of(lhs)
                        if d is not None:
                            u = match.unop(d, ("++",))
                            if ref_of(u[1] if u else d) == target:
                                emitted.append(symval(b[2], r, adv))
                                continue
                        if lhs["k"] == "DeclRefExpr":
                            val = symval(b[2], r, adv)
                            did = lhs["ref"]["id"]
                            if did in (b1, b2):
                                w = 1 if did == b1 else 2
                                if val == "next%d" % w:
                                    adv.append(("adv", w))
                                    continue
                                raise dtable.Undecidable("%s: cursor assigned something else than its successor" % fn.nloc(e))
                            env[did] = val
                            continue
                    u = match.unop(e, ("++", "--"))
                    if u:
                        rr = ref_of(u[1])
                        if rr in (target, msize):
                            continue
                        if rr in (b1, b2):
                            adv.append(("adv", 1 if rr == b1 else 2))
                            continue
                    raise dtable.Undecidable("%s: effect not understood in merge loop: %s" % (fn.nloc(e), dtable.describe(e)))
                want = 2 if v["comp(e2,e1)"] else 1
                if emitted != ["e%d" % want] or adv != [("adv", want)]:
                    ck.violation("MERGE2-TABLE", fn.qname, "row:" + dtable.fmt_val(v),
                                 "two-way merge must take from sequence %d (%s) but emits %s and advances %s"
                                 % (want, dtable.fmt_val(v), emitted, [a[1] for a in adv]), fn.nloc(loops[0]))
                    bad = True
            # tail copy
            tail = [s for s in kids(fn.body) if s["k"] == "IfStmt"]
            okt = False
            if len(tail) == 1:
                c, t, e = kids(tail[0])
                b = match.binop(c, ("!=",))
                if b and {ref_of(b[1]), ref_of(b[2])} == {b1, e1}:
                    def copies(branch, bx):
                        cp = [x for x in ir.walk(branch) if match.call_named(x, ("copy", "copy_n"))]
                        ad = [x for x in ir.walk(branch) if match.binop(x, ("+=",)) and ref_of(match.binop(x, ("+=",))[1]) == bx]
                        if len(cp) != 1 or len(ad) != 1:
                            return False
                        a = kids(cp[0])
                        okc = ref_of(a[0]) == bx and match.binop(a[1], ("+",)) and ref_of(match.binop(a[1], ("+",))[1]) == bx and \
                            ref_of(match.binop(a[1], ("+",))[2]) == msize and ref_of(a[2]) == target
                        return bool(okc and ref_of(match.binop(ad[0], ("+=",))[2]) == msize)
                    okt = copies(t, b1) and e is not None and copies(e, b2)
            if not okt:
                ck.violation("MERGE2-TABLE", fn.qname, "tail", "after the loop the remaining length is not copied from the non-exhausted sequence and that cursor advanced", fn.loc)
                bad = True
            ck.states += rows
            if not bad:
                ck.ok("MERGE2-TABLE", fn.qname, "3 rows: take sequence 2 iff comp(e2,e1), emit+advance the same sequence; tail copies max_size from the live sequence")
    for fn in tu.some(qname="tlx::merge_advance"):
        calls = [x for x in ir.walk(fn.body) if match.call_named(x, ("merge_advance_movc", "merge_advance_usual"))]
        okf = len(calls) == 1 and [ref_of(a) for a in kids(calls[0])] == [p["did"] for p in fn.params]
        if okf:
            ck.ok("MERGE2-TABLE", fn.qname + " (forward)", "forwards all 7 parameters in their roles", nontrivial=False)
        else:
            ck.violation("MERGE2-TABLE", fn.qname, "forward", "merge_advance does not forward its parameters in order", fn.loc)


# ------------------------------------------------------------------ combined variants
def lin(e, env=None):
    """linear form {did: coef, 1: const} of an integer expression, or None"""
    e = strip_casts(e)
    c = const_int(e)
    if c is not None and e["k"] == "IntegerLiteral":
        return {1: c}
    if e["k"] == "DeclRefExpr":
        return {e["ref"]["id"]: 1}
    b = match.binop(e, ("+", "-"))
    if b:
        l, r = lin(b[1]), lin(b[2])
        if l is None or r is None:
            return None
        out = dict(l)
        for k, v in r.items():
            out[k] = out.get(k, 0) + (v if b[0] == "+" else -v)
        return {k: v for k, v in out.items() if v}
    return None


UNGUARDED_PHASE = ("multiway_merge_3_variant", "multiway_merge_4_variant", "multiway_merge_loser_tree_unguarded")
GUARDED_PHASE = ("merge_advance", "multiway_merge_3_variant", "multiway_merge_loser_tree")


def size_arg(call):
    a = kids(call)
    return a[5] if call["callee"]["name"] == "merge_advance" else a[3]


def target_arg(call):
    a = kids(call)
    return a[4] if call["callee"]["name"] == "merge_advance" else a[2]


def check_combined(ck, tu):
    for name in ("multiway_merge_3_combined", "multiway_merge_4_combined", "multiway_merge_loser_tree_combined"):
        for fn in tu.some(qname=NS + name):
            sizep = fn.params[3]["did"]
            targetp = fn.params[2]["did"]
            calls = [x for x in ir.walk(fn.body) if "callee" in x and x["k"] == "CallExpr"]
            ung = [c for c in calls if c["callee"]["name"] in UNGUARDED_PHASE and
                   ("unguarded" in c["callee"]["name"] or "unguarded_iterator" in (c["callee"].get("targs") or [""])[0])]
            gua = [c for c in calls if c["callee"]["name"] in GUARDED_PHASE and c not in ung]
            ck.require(len(ung) == 1 and gua, "%s: could not identify the unguarded and guarded phases" % fn.loc)
            where = fn.qname + ("<%s>" % fn.targs[0] if name.endswith("tree_combined") else "")
            U = ref_of(size_arg(ung[0]))
            Vs = set(ref_of(size_arg(c)) for c in gua)
            if U is None or len(Vs) != 1 or None in Vs:
                raise dtable.Undecidable("%s: phase lengths are not plain variables" % fn.loc)
            V = Vs.pop()
            # U = min(size, ...)
            ud = [x for x in ir.walk(fn.body) if x["k"] == "VarDecl" and x["did"] == U]
            okU = False
            if ud and kids(ud[0]):
                m = match.call_named(kids(ud[0])[0], ("min",))
                okU = bool(m and sizep in [ref_of(a) for a in kids(m)])
            if not okU:
                ck.violation("PHASE-LENGTH-SUM", fn.qname, "unguarded-cap", "the unguarded phase length is not capped by the requested size (min(size, ...))", fn.loc)
                continue
            # the if-statement holding the unguarded call
            par = fn.parent(ung[0])
            node = ung[0]
            ifs = None
            while par is not None:
                if par["k"] == "IfStmt":
                    ifs = (par, any(y is node for y in ir.walk(kids(par)[1])))
                    break
                node, par = par, fn.parent(par)
            ck.require(ifs is not None and ifs[1], "%s: unguarded phase is not in the then-branch of an if" % fn.loc)
            then_b, else_b = kids(ifs[0])[1], kids(ifs[0])[2]
            okall = True
            for br, want, what in ((then_b, {sizep: 1, U: -1}, "size - unguarded_size"), (else_b, {sizep: 1}, "size")):
                asg = [match.binop(x, ("=",)) for x in ir.walk(br) if match.binop(x, ("=",)) and ref_of(match.binop(x, ("=",))[1]) == V] if br else []
                if len(asg) != 1:
                    ck.violation("PHASE-LENGTH-SUM", fn.qname, "assign:" + what.replace(" ", ""), "guarded phase length is not set exactly once in the %s branch"
                                 % ("unguarded" if br is then_b else "fallback"), fn.nloc(ifs[0]))
                    okall = False
                    continue
                got = lin(asg[0][2])
                if got != want:
                    ck.violation("PHASE-LENGTH-SUM", fn.qname, "value:" + what.replace(" ", ""),
                                 "the two phases must emit exactly `size` elements: guarded length must be %s, is %s"
                                 % (what, dtable.describe(asg[0][2])), fn.nloc(asg[0][2]))
                    okall = False
            # target chaining: guarded phase starts where the unguarded one stopped
            tv = set(ref_of(target_arg(c)) for c in gua)
            chain = False
            if len(tv) == 1 and None not in tv:
                t = tv.pop()
                a_then = [match.binop(x, ("=",)) for x in ir.walk(then_b) if match.binop(x, ("=",)) and ref_of(match.binop(x, ("=",))[1]) == t]
                a_else = [match.binop(x, ("=",)) for x in ir.walk(else_b) if match.binop(x, ("=",)) and ref_of(match.binop(x, ("=",))[1]) == t] if else_b else []
                chain = len(a_then) == 1 and strip_casts(a_then[0][2]) is ung[0] and len(a_else) == 1 and ref_of(a_else[0][2]) == targetp \
                    and ref_of(target_arg(ung[0])) == targetp
            if not chain:
                ck.violation("PHASE-LENGTH-SUM", fn.qname, "target-chain", "the guarded phase does not continue at the position where the unguarded phase stopped", fn.loc)
                okall = False
            if okall:
                ck.ok("PHASE-LENGTH-SUM", where, "unguarded_size = min(size, ...); guarded length = size - unguarded_size (size when skipped); targets chained")
            if name == "multiway_merge_3_combined":
                check_tail_order(ck, fn, gua)
            if name == "multiway_merge_4_combined":
                check_one_missing(ck, fn)


def check_tail_order(ck, fn, gua):
    from rules.c15 import flatten_switch
    sw = [x for x in ir.walk(fn.body) if x["k"] == "SwitchStmt"]
    ck.require(len(sw) == 1, "%s: one switch(min_seq) expected" % fn.loc)
    flat = flatten_switch(kids(sw[0])[1])
    seqs = fn.params[0]["did"]
    seen = {}
    cur = None
    for e in flat:
        if e[0] == "case":
            cur = e[1]
        elif e[0] == "default":
            cur = "default"
        elif e[0] == "stmt" and cur not in (None, "default"):
            for c in ir.walk(e[1]):
                if match.call_named(c, ("merge_advance",)):
                    idx = []
                    for a in kids(c)[:4]:
                        f = match.field_of(a)
                        p = match.index_parts(f[0]) if f else None
                        idx.append((const_int(p[1]), f[1]) if p and ref_of(p[0]) == seqs else None)
                    seen[cur] = idx
    okall = True
    for m in (0, 1, 2):
        others = [i for i in (0, 1, 2) if i != m]
        want = [(others[0], "first"), (others[0], "second"), (others[1], "first"), (others[1], "second")]
        if seen.get(m) != want:
            ck.violation("TAIL-ORDER", fn.qname, "case=%d" % m,
                         "when sequence %d is exhausted first the tail must merge sequences %d and %d in this order (ties go to the first range): got %s"
                         % (m, others[0], others[1], seen.get(m)), fn.nloc(sw[0]))
            okall = False
    if okall:
        ck.ok("TAIL-ORDER", fn.qname, "cases 0,1,2 merge the two remaining sequences in increasing index order")


def check_one_missing(ck, fn):
    # the sequence removed for the guarded 3-way phase is put back at the same index
    mv = None
    for x in ir.walk(fn.body):
        if match.call_named(x, ("prepare_unguarded",)):
            mv = ref_of(kids(x)[-1])
    pos = {}
    for x in ir.walk(fn.body):
        c = match.call_named(x, ("erase", "insert"))
        if c and c.get("member_call"):
            a = match.strip_conv(kids(c)[1])
            b = match.binop(a, ("+",))
            pos[c["callee"]["name"]] = ref_of(b[2]) if b else None
            if c["callee"]["name"] == "insert":
                p = match.index_parts(kids(c)[2])
                pos["insert-value"] = ref_of(p[1]) if p else None
    if mv is not None and pos.get("erase") == mv and pos.get("insert") == mv and pos.get("insert-value") == mv:
        ck.ok("TAIL-ORDER", fn.qname, "exhausted sequence min_seq is removed and re-inserted at the same index")
    else:
        ck.violation("TAIL-ORDER", fn.qname, "one-missing", "the sequence removed before the guarded phase is not re-inserted at its own index", fn.loc)


# ------------------------------------------------------------------ prepare_unguarded
def check_prepare(ck, tu):
    for fn in tu.some(qname=NS + "prepare_unguarded"):
        stable = fn.targs[0] == "true"
        minseq = fn.params[3]["did"]
        loops = [s for s in kids(fn.body) if s["k"] == "ForStmt"]
        ck.require(len(loops) == 3, "%s: expected three loops (scan, <= min_sequence, rest)" % fn.loc)
        first, second = loops[1], loops[2]
        c = match.binop(kids(first)[1], ("<=", "<"))
        bound_ok = bool(c and c[0] == "<=" and ref_of(c[2]) == minseq)

        def bounds(loop):
            out = []

            def rec(n):
                if n is None:
                    return
                if n["k"] == "IfStmt":
                    cv = const_int(kids(n)[0])
                    if cv is not None:
                        rec(kids(n)[1] if cv else kids(n)[2])
                        return
                x = match.call_named(n, ("upper_bound", "lower_bound")) if "callee" in n else None
                if x is not None and n["k"] == "CallExpr":
                    out.append(x["callee"]["name"])
                for ch in kids(n):
                    rec(ch)
                if "init" in n:
                    rec(n["init"])
            rec(kids(loop)[3])
            return out
        b1, b2 = bounds(first), bounds(second)
        want1 = ["upper_bound"] if stable else ["lower_bound"]
        sig = "stable" if stable else "unstable"
        if not bound_ok:
            ck.violation("PREPARE-BOUNDS", fn.qname, sig + ":range", "the first split loop must cover sequences 0..min_sequence inclusive", fn.nloc(first))
        elif b1 != want1 or b2 != ["lower_bound"]:
            ck.violation("PREPARE-BOUNDS", fn.qname, sig + ":bound",
                         "sequences <= min_sequence must be split with %s and later ones with lower_bound (got %s / %s)" % (want1[0], b1, b2), fn.nloc(first))
        else:
            ck.ok("PREPARE-BOUNDS", "prepare_unguarded<%s>" % fn.targs[0], "s <= min_sequence: %s; s > min_sequence: lower_bound" % want1[0])


# ------------------------------------------------------------------ dispatch
MWMA = {0: "LOSER_TREE", 1: "LOSER_TREE_COMBINED", 2: "LOSER_TREE_SENTINEL", 3: "BUBBLE"}
NEEDS_SENTINEL = lambda c: (c["callee"]["name"] == "multiway_merge_loser_tree_sentinel" or
                            (c["callee"]["name"] in ("multiway_merge_3_variant", "multiway_merge_4_variant") and
                             "unguarded_iterator" in (c["callee"].get("targs") or [""])[0]))


def stable_arg_of(c):
    """the Stable template argument carried by a callee, or None"""
    name = c["callee"]["name"]
    t = c["callee"].get("targs") or []
    if name in ("multiway_merge_bubble", "multiway_merge_loser_tree_combined", "multiway_merge_loser_tree_sentinel") and t:
        return t[0] == "true"
    if name in ("multiway_merge_loser_tree", "multiway_merge_loser_tree_unguarded") and t:
        lt = t[0]
        if "<" in lt:
            return lt.split("<", 1)[1].split(",")[0].strip() == "true"
    return None


def check_dispatch(ck, tu):
    from rules.c15 import flatten_switch
    front_ok = True
    # public front ends
    want = {"tlx::multiway_merge": ("false", "false"), "tlx::stable_multiway_merge": ("true", "false"),
            "tlx::multiway_merge_sentinels": ("false", "true"), "tlx::stable_multiway_merge_sentinels": ("true", "true")}
    for q, flags in want.items():
        for fn in tu.some(qname=q):
            calls = [c for c in ir.walk(fn.body) if match.call_named(c, ("multiway_merge_base",))]
            okf = len(calls) == 1 and tuple(calls[0]["callee"]["targs"][:2]) == flags and \
                [ref_of(a) for a in kids(calls[0])] == [p["did"] for p in fn.params]
            if okf:
                ck.ok("FRONTEND-FLAGS", q, "-> multiway_merge_base<Stable=%s, Sentinels=%s>, all parameters forwarded in order" % flags)
            else:
                front_ok = False
                ck.violation("FRONTEND-FLAGS", q, "flags", "front end must call multiway_merge_base<%s,%s> with its own parameters in order" % flags, fn.loc)
    bases = tu.some(qname="tlx::multiway_merge_base")
    if front_ok:
        ck.require(len(bases) == 4, "expected 4 instantiations of multiway_merge_base, found %d" % len(bases))
    for fn in bases:
        stable, sentinels = fn.targs[0] == "true", fn.targs[1] == "true"
        mw = fn.params[5]["did"]
        tag = "<%s,%s>" % (fn.targs[0], fn.targs[1])
        vs = {0, 1, 2, 3}
        top = kids(fn.body)
        ksw = None

        def remap(s, vs):
            """`if (<constants> && mwma == A) mwma = B;` narrows the value set of the algorithm tag"""
            c, t, e = kids(s)
            asg = [match.binop(x, ("=",)) for x in ir.walk(t) if match.binop(x, ("=",)) and ref_of(match.binop(x, ("=",))[1]) == mw]
            if not asg:
                return vs, False
            conj = []

            def flat(n):
                b = match.binop(n, ("&&",))
                if b and strip_casts(n)["k"] == "BinaryOperator":
                    flat(b[1]); flat(b[2])
                else:
                    conj.append(n)
            flat(c)
            const_ok, eqv, unknown = True, None, False
            for x in conj:
                cv = const_int(x)
                b = match.binop(x, ("==",))
                if cv is not None:
                    const_ok = const_ok and bool(cv)
                elif b and ref_of(b[1]) == mw and const_int(b[2]) is not None:
                    eqv = const_int(b[2])
                else:
                    unknown = True
            if unknown or e is not None or len(asg) != 1 or const_int(asg[0][2]) is None:
                raise dtable.Undecidable("%s: rewrite of the algorithm tag not understood" % fn.nloc(s))
            if const_ok and eqv is not None and eqv in vs:
                vs = (vs - {eqv}) | {const_int(asg[0][2])}
            return vs, True
        for s in top:
            if s["k"] == "IfStmt":
                vs, was = remap(s, vs)
                if not was:
                    raise dtable.Undecidable("%s: statement before the dispatch switch not understood" % fn.nloc(s))
            elif s["k"] == "SwitchStmt":
                ksw = s
        ck.require(ksw is not None, "%s: switch(k) not found" % fn.loc)
        flat_k = flatten_switch(kids(ksw)[1])
        # split into k-classes
        classes = {}
        cur = None
        for e in flat_k:
            if e[0] == "case":
                cur = e[1]; classes.setdefault(cur, [])
            elif e[0] == "default":
                cur = "default"; classes.setdefault(cur, [])
            elif cur is not None:
                classes[cur].append(e[1])
        ck.require(set(classes) >= {0, 1, 2, 3, 4, "default"}, "%s: switch(k) lacks a case (%s)" % (fn.loc, sorted(map(str, classes))))
        problems = 0
        vs_top = vs
        for kc, stmts in classes.items():
            inner = [x for s in stmts for x in ir.walk(s) if x["k"] == "SwitchStmt"]
            reach = {}
            # rewrites of the tag inside this k-class, in front of its own switch
            vs = set(vs_top)
            for s0 in stmts:
                for x in ([s0] if s0["k"] == "IfStmt" else [y for y in kids(s0) if y and y["k"] == "IfStmt"] if s0["k"] == "CompoundStmt" else []):
                    if inner and any(z is inner[0] for z in ir.walk(x)):
                        continue
                    vs, _ = remap(x, vs)
            if inner:
                fl = flatten_switch(kids(inner[0])[1])
                cases = {}
                cur = None
                for e in fl:
                    if e[0] == "case":
                        cur = e[1]; cases.setdefault(cur, [])
                    elif e[0] == "default":
                        cur = "default"; cases.setdefault(cur, [])
                    elif cur is not None:
                        # fallthrough: a statement belongs to every open label until break
                        cases[cur].append(e[1])
                for a in sorted(vs):
                    body = cases.get(a, cases.get("default", []))
                    reach[a] = [c for s in body for c in ir.walk(s) if "callee" in c and c["k"] == "CallExpr"]
            else:
                calls = [c for s in stmts for c in ir.walk(s) if "callee" in c and c["k"] == "CallExpr"]
                for a in sorted(vs):
                    reach[a] = calls
            for a, calls in reach.items():
                impl = [c for c in calls if c["callee"]["qname"].startswith(NS) or c["callee"]["name"] in ("merge_advance", "copy")]
                site = "%s k=%s mwma=%s" % (tag, kc, MWMA.get(a, a))
                if kc != 0 and not impl:
                    ck.violation("DISPATCH-TOTAL", fn.qname, tag + ":k=%s:mwma=%s" % (kc, MWMA.get(a, a)), "no merge implementation is reached for " + site, fn.nloc(ksw))
                    problems += 1
                    continue
                for c in impl:
                    st = stable_arg_of(c)
                    if stable and st is False:
                        ck.violation("STABLE-PROPAGATE", fn.qname, tag + ":" + c["callee"]["name"],
                                     "stable merge reaches the unstable %s<%s> for %s" % (c["callee"]["name"], (c["callee"].get("targs") or ["?"])[0][:60], site), fn.nloc(c))
                        problems += 1
                    if not sentinels and NEEDS_SENTINEL(c):
                        ck.violation("SENTINEL-REACH", fn.qname, tag + ":" + c["callee"]["name"],
                                     "%s requires sentinels but is reachable without them for %s" % (c["callee"]["name"], site), fn.nloc(c))
                        problems += 1
                    if not stable and st is True and False:
                        pass
                if not problems:
                    ck.ok("DISPATCH-TOTAL", site, "-> " + ",".join(sorted(set(c["callee"]["name"] for c in impl))) if impl else "-> nothing to do", nontrivial=bool(impl))
        if not problems:
            ck.ok("STABLE-PROPAGATE", "multiway_merge_base" + tag, "every reachable callee carries Stable=%s or is inherently stable" % fn.targs[0])
            ck.ok("SENTINEL-REACH", "multiway_merge_base" + tag, "mwma value set after the guard: %s" % sorted(MWMA[v] for v in vs_top))


# ------------------------------------------------------------------ loser-tree drivers
def check_lt_protocol(ck, tu):
    for name in ("multiway_merge_loser_tree", "multiway_merge_loser_tree_unguarded"):
        fns = tu.some(qname=NS + name)
        for fn in fns[:2]:
            guarded = not name.endswith("unguarded")
            seqs = fn.params[0]["did"]
            target = fn.params[2]["did"]
            ltv = [x for x in ir.walk(fn.body) if x["k"] == "VarDecl" and x.get("ty", "").startswith("tlx::LoserTree")]
            ck.require(len(ltv) == 1, "%s: loser tree local not found" % fn.loc)
            lt = ltv[0]["did"]

            def ltcall(x, names):
                if x is None or "callee" not in x:
                    return None
                c = match.call_named(x, names)
                return c if c and c.get("member_call") and ref_of(kids(c)[0]) == lt else None

            def seq_first(e, idxvar=None):
                """index variable if e is seqs[i].first"""
                f = match.field_of(e)
                if f and f[1] == "first":
                    p = match.index_parts(f[0])
                    if p and ref_of(p[0]) == seqs:
                        return ref_of(p[1])
                return None

            def classify(s, src):
                """event kind of a top-level statement"""
                evs = []
                for x in ir.walk(s):
                    if ltcall(x, ("delete_min_insert",)):
                        evs.append(("DMI", x))
                    if ltcall(x, ("min_source",)):
                        evs.append(("MIN", x))
                    if ltcall(x, ("init",)):
                        evs.append(("INIT", x))
                    if ltcall(x, ("insert_start",)):
                        evs.append(("START", x))
                b = match.binop(s, ("=",))
                if b:
                    d = match.deref_of(b[1])
                    if d is not None and ref_of(d) == target:
                        dd = match.deref_of(b[2])
                        evs.append(("EMIT", seq_first(dd) if dd is not None else None))
                u = match.unop(s, ("++",))
                if u:
                    if ref_of(u[1]) == target:
                        evs.append(("TGT", None))
                    elif seq_first(u[1]) is not None:
                        evs.append(("ADV", seq_first(u[1])))
                return evs
            # source variable: assigned from min_source()
            src = None
            for x in ir.walk(fn.body):
                if x["k"] == "VarDecl" and kids(x) and ltcall(strip_casts(kids(x)[0]), ("min_source",)):
                    src = x["did"]
            ck.require(src is not None, "%s: winner variable not found" % fn.loc)
            loops = [s for s in kids(fn.body) if s["k"] in ("ForStmt", "WhileStmt")]
            main = [l for l in loops if any(ltcall(x, ("delete_min_insert",)) for x in ir.walk(l))]
            start = [l for l in loops if any(ltcall(x, ("insert_start",)) for x in ir.walk(l))]
            ck.require(len(main) == 1 and len(start) == 1, "%s: start loop / replay loop not found" % fn.loc)
            problems = []
            # (a) start loop: every player t in [0,k) inserted with its own head
            sl = start[0]
            init, cond, inc, body = match.loop_parts(sl)
            tvar = [x["did"] for x in ir.walk(init) if x["k"] == "VarDecl"]
            for c in [x for x in ir.walk(body) if ltcall(x, ("insert_start",))]:
                a = kids(c)[1:]
                if ref_of(a[1]) not in tvar:
                    problems.append(("start-source", "insert_start is not called with the loop index as source", c))
                key = strip_casts(a[0])
                if key["k"] != "NullPtr" and const_int(a[2]) != 1:
                    ad = key if key["k"] == "UnaryOperator" and key["op"] == "&" else None
                    dd = match.deref_of(kids(ad)[0]) if ad else None
                    if dd is None or seq_first(dd) not in tvar:
                        problems.append(("start-key", "insert_start does not take the head of sequence t", c))
            # (b) order of events before and inside the replay loop
            seq_events = []
            pre = kids(fn.body)[kids(fn.body).index(sl) + 1: kids(fn.body).index(main[0])]
            for s in pre:
                seq_events += [e[0] for e in classify(s, src)]
            pre_s = [e for e in seq_events if e in ("INIT", "MIN", "EMIT", "ADV")]
            if pre_s[:1] != ["INIT"] or "MIN" not in pre_s or pre_s.index("MIN") > pre_s.index("EMIT") if "EMIT" in pre_s else True:
                problems.append(("pre-order", "before the loop the order must be init(), min_source(), emit, advance: got %s" % pre_s, pre[0] if pre else fn.body))
            mbody = match.loop_parts(main[0])[3]
            evs = []
            for s in kids(mbody):
                if s["k"] == "IfStmt":
                    # sup iff exhausted
                    c, t, e = kids(s)
                    b = match.binop(c, ("==",))
                    ok_if = False
                    if b:
                        fa, fb = match.field_of(b[1]), match.field_of(b[2])
                        ia = match.index_parts(fa[0]) if fa else None
                        ib = match.index_parts(fb[0]) if fb else None
                        if fa and fb and {fa[1], fb[1]} == {"first", "second"} and ia and ib and ref_of(ia[1]) == src and ref_of(ib[1]) == src:
                            dt = [x for x in ir.walk(t) if ltcall(x, ("delete_min_insert",))]
                            de = [x for x in ir.walk(e) if ltcall(x, ("delete_min_insert",))] if e else []
                            if len(dt) == 1 and len(de) == 1:
                                at, ae = kids(dt[0])[1:], kids(de[0])[1:]
                                ok_if = strip_casts(at[0])["k"] == "NullPtr" and const_int(at[1]) == 1 and const_int(ae[1]) == 0
                                k_ = strip_casts(ae[0])
                                dd = match.deref_of(kids(k_)[0]) if k_["k"] == "UnaryOperator" and k_["op"] == "&" else None
                                ok_if = ok_if and dd is not None and seq_first(dd) == src
                    if not ok_if:
                        problems.append(("feed", "the winner's next key must be fed from the winner's own sequence, exhausted iff first == second", s))
                    evs.append(("DMI", src))
                    continue
                for e in classify(s, src):
                    if e[0] == "DMI":
                        a = kids(e[1])[1:]
                        k_ = strip_casts(a[0])
                        dd = match.deref_of(kids(k_)[0]) if k_["k"] == "UnaryOperator" and k_["op"] == "&" else None
                        if dd is None or seq_first(dd) != src:
                            problems.append(("feed", "delete_min_insert is not fed from the current winner's sequence", e[1]))
                        evs.append(("DMI", src))
                    elif e[0] == "MIN":
                        b = match.binop(s, ("=",))
                        evs.append(("MIN", ref_of(b[1]) if b else None))
                    else:
                        evs.append(e)
            kinds = [e[0] for e in evs if e[0] in ("DMI", "MIN", "EMIT", "ADV")]
            if kinds[:2] != ["DMI", "MIN"] or sorted(kinds[2:]) != ["ADV", "EMIT"] or kinds.index("EMIT") > kinds.index("ADV"):
                problems.append(("loop-order", "replay loop must do delete_min_insert, min_source, emit, advance in this order: got %s" % kinds, main[0]))
            for e in evs:
                if e[0] in ("EMIT", "ADV", "MIN") and e[1] != src:
                    problems.append(("winner-var", "%s does not use the winner reported by min_source()" % e[0], main[0]))
            if problems:
                for sig, msg, node in problems[:3]:
                    ck.violation("LT-PROTOCOL", fn.qname, ("guarded:" if guarded else "unguarded:") + sig, msg, fn.nloc(node))
            else:
                ck.ok("LT-PROTOCOL", "%s<%s>" % (name, fn.targs[0].split("<")[0]),
                      "insert_start x k -> init -> (min_source, emit+advance that source, delete_min_insert fed from that source)*")


# ------------------------------------------------------------------ bubble merge
def check_bubble(ck, tu):
    for fn in tu.some(qname=NS + "multiway_merge_bubble"):
        stable = fn.targs[0] == "true"
        comp = fn.params[4]["did"]
        plv = [x["did"] for x in ir.walk(fn.body) if x["k"] == "VarDecl" and x["name"] == "pl"]
        srcv = [x["did"] for x in ir.walk(fn.body) if x["k"] == "VarDecl" and x["name"] == "source"]
        ck.require(len(plv) == 1 and len(srcv) == 1, "%s: key/source arrays not found" % fn.loc)
        pl, src = plv[0], srcv[0]

        def pos_of(e, arr):
            """('rel', var_did, off) / ('abs', n) index of arr[...]"""
            p = match.index_parts(e)
            if not p or ref_of(p[0]) != arr:
                return None
            i = strip_casts(p[1])
            c = const_int(i)
            if c is not None and i["k"] == "IntegerLiteral":
                return ("abs", None, c)
            if ref_of(i) is not None:
                return ("rel", ref_of(i), 0)
            b = match.binop(i, ("+", "-"))
            if b and ref_of(b[1]) is not None and const_int(b[2]) is not None:
                return ("rel", ref_of(b[1]), const_int(b[2]) if b[0] == "+" else -const_int(b[2]))
            return None

        def make_atomize(extra=None):
            def atomize(n, run):
                if extra:
                    r = extra(n)
                    if r is not None:
                        return r
                fc = match.functor_call(n)
                if fc and ref_of(fc[0]) == comp and len(fc[1]) == 2:
                    a, b = pos_of(fc[1][0], pl), pos_of(fc[1][1], pl)
                    if a and b and a[1] == b[1] and abs(a[2] - b[2]) == 1:
                        return ("comp(hi,lo)", False) if a[2] > b[2] else ("comp(lo,hi)", False)
                    raise dtable.Undecidable("%s: comparator on unexpected operands: %s" % (fn.nloc(n), dtable.describe(n)))
                b = match.binop(n, ("<", ">"))
                if b and strip_casts(n)["k"] == "BinaryOperator":
                    a, c = pos_of(b[1], src), pos_of(b[2], src)
                    if a and c and a[1] == c[1] and abs(a[2] - c[2]) == 1:
                        hi_first = a[2] > c[2]
                        lt = b[0] == "<"
                        # normalise to src[hi] < src[lo]  (C)  /  src[lo] < src[hi]  (D)
                        return ("src(hi)<src(lo)", False) if hi_first == lt else ("src(lo)<src(hi)", False)
                return None
            return atomize

        def consistent(v):
            return not (v.get("comp(hi,lo)") and v.get("comp(lo,hi)")) and not (v.get("src(hi)<src(lo)") and v.get("src(lo)<src(hi)")) \
                and (v.get("src(hi)<src(lo)") or v.get("src(lo)<src(hi)") or "src(hi)<src(lo)" not in v)

        def swap_spec(v):
            A, B = v["comp(hi,lo)"], v["comp(lo,hi)"]
            C, D = v.get("src(hi)<src(lo)", False), v.get("src(lo)<src(hi)", False)
            if stable:
                return (A or (not A and not B and C)), (B or (not A and not B and D))
            return A, B
        spec_atoms = ["comp(hi,lo)", "comp(lo,hi)"] + (["src(hi)<src(lo)", "src(lo)<src(hi)"] if stable else [])
        n_sites = 0
        bad = False
        # (1) swap decisions: if-statements and while-conditions guarding std::swap(pl[..], pl[..])
        for x in ir.walk(fn.body):
            cond = None
            if x["k"] == "IfStmt" and any(match.call_named(y, ("swap",)) for y in ir.walk(kids(x)[1])):
                if const_int(kids(x)[0]) is not None:
                    continue
                cond = kids(x)[0]
                body = kids(x)[1]
            elif x["k"] == "WhileStmt" and any(match.call_named(y, ("swap",)) for y in kids(kids(x)[1]) if y):
                cond = kids(x)[0]
                body = kids(x)[1]
                if any(y["k"] in ("WhileStmt", "ForStmt") for y in ir.walk(body)):
                    continue
            if cond is None:
                continue
            # reachable for this instantiation? (if (Stable) ... else ...)
            if not reachable_const(fn, x):
                continue

            def extra(n):
                b = match.binop(n, ("<",))
                if b and strip_casts(n)["k"] == "BinaryOperator" and pos_of(b[1], src) is None and ref_of(b[1]) is not None and ref_of(b[2]) is not None:
                    return ("in-range", False)
                return None
            leaves = dtable.explore(cond, make_atomize(extra), fn, as_expr=True)
            atoms = list(dict.fromkeys(spec_atoms + dtable.atoms_of(leaves)))
            n_sites += 1
            for v, lf in dtable.table(leaves, consistent, atoms):
                if "in-range" in v and not v["in-range"]:
                    if lf["result"]:
                        ck.violation("BUBBLE-TABLE", fn.qname, "%s:swap-range" % ("stable" if stable else "unstable"), "sink-down continues beyond the live players", fn.nloc(cond))
                        bad = True
                    continue
                req, forb = swap_spec(v)
                if (req and not lf["result"]) or (forb and lf["result"]):
                    ck.violation("BUBBLE-TABLE", fn.qname, "%s:swap:%s" % ("stable" if stable else "unstable", dtable.fmt_val(v)),
                                 "neighbour exchange decision wrong for (%s): exchanges=%s" % (dtable.fmt_val(v), lf["result"]), fn.nloc(cond))
                    bad = True
            # swapped things: both arrays at the same positions
            sw = [y for y in ir.walk(body) if match.call_named(y, ("swap",))]
            arrs = set()
            for y in sw:
                a, b = kids(y)
                for arr in (pl, src):
                    pa, pb = pos_of(a, arr), pos_of(b, arr)
                    if pa and pb and pa[1] == pb[1] and abs(pa[2] - pb[2]) == 1:
                        arrs.add(arr)
            if arrs != {pl, src}:
                ck.violation("BUBBLE-TABLE", fn.qname, "%s:swap-both" % ("stable" if stable else "unstable"), "key and source arrays are not exchanged together", fn.nloc(x))
                bad = True
        # (2) emission loops: while ((nrp == 1 || cmp) && size > 0) inside the outer loop
        emis = []
        for x in ir.walk(fn.body):
            if x["k"] == "WhileStmt" and reachable_const(fn, x):
                body = kids(x)[1]
                if any(match.unop(y, ("++",)) and ref_of(match.unop(y, ("++",))[1]) == fn.params[2]["did"] for y in kids(body) if y) :
                    emis.append(x)
        ctxs = []
        for w in emis:
            # context: enclosing if-conditions inside the function
            ctx = []
            node, par = w, fn.parent(w)
            while par is not None:
                if par["k"] == "IfStmt" and const_int(kids(par)[0]) is None:
                    in_then = any(y is node for y in ir.walk(kids(par)[1]))
                    ctx.append((kids(par)[0], in_then))
                node, par = par, fn.parent(par)

            def extra(n):
                b = match.binop(n, ("==",))
                if b and const_int(b[2]) == 1 and ref_of(b[1]) is not None:
                    return ("single", False)
                b = match.binop(n, (">",))
                if b and ref_of(b[1]) == fn.params[3]["did"] and const_int(b[2]) == 0:
                    return ("size>0", False)
                return None
            at = make_atomize(extra)

            def abs_atom(n, run, at=at):
                r = at(n, run)
                return r
            cond = kids(w)[0]
            leaves = dtable.explore(cond, at, fn, as_expr=True)
            ctx_leaves = [(dtable.explore(c, at, fn, as_expr=True), pol) for c, pol in ctx]
            atoms = ["comp(hi,lo)", "comp(lo,hi)", "single", "size>0"] + (["src(hi)<src(lo)", "src(lo)<src(hi)"] if stable else [])
            for ls, _ in ctx_leaves:
                atoms += dtable.atoms_of(ls)
            atoms = list(dict.fromkeys(atoms + dtable.atoms_of(leaves)))
            n_sites += 1
            for v, lf in dtable.table(leaves, consistent, atoms):
                if not v["size>0"]:
                    if lf["result"]:
                        ck.violation("BUBBLE-TABLE", fn.qname, "emit:size", "emission continues although the requested length is exhausted", fn.nloc(cond))
                        bad = True
                    continue
                holds = True
                for ls, pol in ctx_leaves:
                    for v2, l2 in dtable.table(ls, None, atoms):
                        if v2 == v:
                            holds = holds and (l2["result"] == pol)
                            break
                if not holds:
                    continue
                ctxs.append(tuple(sorted(v.items())))
                if v["single"]:
                    if not lf["result"]:
                        ck.violation("BUBBLE-TABLE", fn.qname, "emit:single", "with a single live sequence emission must continue", fn.nloc(cond))
                        bad = True
                    continue
                # head = position 0 ('lo'), next = position 1 ('hi')
                A, B = v["comp(hi,lo)"], v["comp(lo,hi)"]
                C, D = v.get("src(hi)<src(lo)", False), v.get("src(lo)<src(hi)", False)
                if stable:
                    must = B or (not A and not B and D)
                    mustnot = A or (not A and not B and C)
                else:
                    must, mustnot = B, A
                if (must and not lf["result"]) or (mustnot and lf["result"]):
                    ck.violation("BUBBLE-TABLE", fn.qname, "%s:emit:%s" % ("stable" if stable else "unstable", dtable.fmt_val(v)),
                                 "emission of the front player %s although %s (%s)" % ("stops" if must else "continues",
                                 "it is the stable minimum" if must else "the next player precedes it", dtable.fmt_val(v)), fn.nloc(cond))
                    bad = True
        ck.require(n_sites >= 3, "%s: bubble decisions not found (%d)" % (fn.loc, n_sites))
        if not bad:
            ck.ok("BUBBLE-TABLE", "multiway_merge_bubble<%s>" % fn.targs[0], "%d decision sites (initial sort, sink-down, emission loops) agree with the %s order"
                  % (n_sites, "stable (key, source)" if stable else "key"))


def reachable_const(fn, node):
    """False if the node sits in the dead branch of an if with a compile-time constant condition"""
    n, par = node, fn.parent(node)
    while par is not None:
        if par["k"] == "IfStmt":
            cv = const_int(kids(par)[0])
            if cv is not None:
                in_then = kids(par)[1] is not None and any(y is n for y in ir.walk(kids(par)[1]))
                if in_then != bool(cv):
                    return False
        n, par = par, fn.parent(par)
    return True
