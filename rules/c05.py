"""C05 — sequential multiway merge: order automata for the 3/4-way merges (A3),
comparison-operator tables, two-way merge decisions, phase-length conservation,
dispatch/propagation rules, loser-tree driver protocol."""
from engine import ir, dtable, match, order, cfg as cfgm
from engine.ir import kids, strip_casts, const_int, ref_of, walk

NS = "tlx::multiway_merge_detail::"


def check_merge34(ck, tu):
    for name, k in (("multiway_merge_3_variant", 3), ("multiway_merge_4_variant", 4)):
        fns = tu.some(qname=NS + name)
        for fn in fns:
            guarded = "unguarded_iterator" not in fn.targs[0]
            reported = set()

            def report(rule, sig, msg, node, fn=fn, reported=reported):
                if (rule, sig) in reported:
                    return
                reported.add((rule, sig))
                ck.violation(rule, fn.qname, ("guarded:" if guarded else "unguarded:") + sig, msg, fn.nloc(node))
            prog = order.MergeProgram(fn, tu)
            ck.require(prog.k == k, "%s: %d sequence cursors found, expected %d" % (fn.loc, prog.k, k))
            ex = order.Explorer(prog, guarded, report)
            n = ex.run()
            ck.states += n
            labels = len(prog.labels) - len(ex.finish_labels())
            ck.require(ex.finish_checked, "%s: finish block never reached" % fn.loc)
            where = "%s<%s>" % (name, "guarded" if guarded else "unguarded")
            if not reported:
                ck.ok("MERGE34-STABLE-MIN", where, "%d abstract states (label x weak order of %d heads), %d emissions checked, %d transitions over %d labels"
                      % (n, k, ex.emissions, ex.transitions, labels),
                      sample=dict(rule="MERGE34-STABLE-MIN", fn=where, states=n, emissions=ex.emissions, labels=labels))
                ck.ok("MERGE34-PAIRING", where, "every emission is followed by ++target, --size, ++same sequence and a length test")
                ck.ok("MERGE34-WRITEBACK", where, "finish writes all %d cursors back and returns target" % k)
            # operator tables of this iterator class
            for did, table in prog.ops.items():
                opfn = tu.by_did[did]
                opname = opfn.d.get("op") or opfn.name.replace("operator", "")
                bad = order.check_op_table(table, opname, guarded)
                w = "%s %s" % ("guarded_iterator" if guarded else "unguarded_iterator", opfn.name)
                if bad:
                    row, got, want = bad[0]
                    ck.violation("GUARD-OPS-TABLE", opfn.qname, ("guarded:" if guarded else "unguarded:") + opname,
                                 "%s returns %s for (exhausted1=%s, exhausted2=%s, comp(1,2)=%s, comp(2,1)=%s), must be %s"
                                 % (opfn.name, got, row[0], row[1], row[2], row[3], want), opfn.loc)
                else:
                    ck.ok("GUARD-OPS-TABLE", w + " (k=%d)" % k, "truth table over (exhausted1, exhausted2, comp12, comp21) matches %s" % opname)


def run(ck):
    ck.explanation = (
        "The 3- and 4-way goto-encoded merges are read as goto programs and explored as order automata: abstract state = (label, "
        "weak order of the k heads incl. exhausted); comparisons are evaluated with the truth tables extracted from the iterator "
        "classes' own operator< / operator<=; at every emission the emitted head must be the stable minimum, every emission must be "
        "paired with ++target, --size, ++that sequence and a length test, and the finish block must write all cursors back. Two-way "
        "merges, the bubble merge, the loser-tree drivers, prepare_unguarded, the combined variants' phase lengths and the dispatcher "
        "are decided by decision tables, event-order and value-set rules on the instantiated AST. Given sorted inputs and size <= "
        "total this decides order, stability and the advance contract of the k<=4 variants completely; for k>=5 the global order "
        "rests on C09 plus the tournament argument (stated, not machine-checked). Length arithmetic inside prepare_unguarded and "
        "k=1 copy are not decided.")
    ck.assumptions = ["inputs are sorted by the comparator, which is a strict weak order", "size <= total number of elements",
                      "sentinel variants: each sequence is followed by a sentinel greater than all real elements"]
    defs = []
    tu = ir.extract("witness/C05_multiway_merge.cpp")
    check_merge34(ck, tu)
    check_merge2(ck, tu)
    check_combined(ck, tu)
    check_prepare(ck, tu)
    check_dispatch(ck, tu)
    check_lt_protocol(ck, tu)
    check_bubble(ck, tu)
    # the k >= 5 variants stand on the loser trees: their replay / initialisation tables are decided for the tree classes
    # instantiated here (copy-based for small elements, pointer-based for elements larger than two words)
    from rules import c09
    from rules.parcommon import check_comp_threaded_all
    nct = check_comp_threaded_all(ck, tu, ("tlx::multiway_merge_detail::", "tlx::multiway_merge", "tlx::stable_multiway_merge"))
    ck.require(nct >= 2, "no standard ordering algorithm found in the merge functions")
    n_trees = c09.check_trees_in(ck, tu)
    tu_big = ir.extract("witness/C05_multiway_merge.cpp", defines=["WITNESS_T=std::string"], extra_flags=["-include", "string"])
    n_trees += c09.check_trees_in(ck, tu_big)
    ck.require(n_trees >= 8, "expected the copy- and pointer-based loser trees (guarded and unguarded, stable and unstable), found %d" % n_trees)
    if ck.tier == "thorough":
        for defs in (["WITNESS_T=std::string"], ["WITNESS_GREATER"]):
            tu2 = ir.extract("witness/C05_multiway_merge.cpp", defines=defs, extra_flags=["-include", "string"])
            check_merge34(ck, tu2)
            check_merge2(ck, tu2)
            check_combined(ck, tu2)
            check_prepare(ck, tu2)
            check_dispatch(ck, tu2)
            check_lt_protocol(ck, tu2)
            check_bubble(ck, tu2)
    m = 3 if ck.tier == "thorough" else 1
    for rule, n in (("MERGE34-STABLE-MIN", 4), ("MERGE34-PAIRING", 4), ("MERGE34-WRITEBACK", 4), ("GUARD-OPS-TABLE", 8),
                    ("MERGE2-TABLE", 3), ("PHASE-LENGTH-SUM", 4), ("TAIL-ORDER", 2), ("PREPARE-BOUNDS", 2),
                    ("DISPATCH-TOTAL", 60), ("STABLE-PROPAGATE", 4), ("SENTINEL-REACH", 4), ("FRONTEND-FLAGS", 4),
                    ("LT-PROTOCOL", 3), ("BUBBLE-TABLE", 2)):
        ck.floor(rule, n * m)


# ------------------------------------------------------------------ two-way merge
def check_merge2(ck, tu):
    for name in ("merge_advance_usual", "merge_advance_movc"):
        for fn in tu.some(qname="tlx::" + name):
            b1, e1, b2, e2, target, msize, comp = [p["did"] for p in fn.params]
            loops = [s for s in kids(fn.body) if s["k"] == "WhileStmt"]
            ck.require(len(loops) == 1, "%s: one merge loop expected" % fn.loc)
            cond, body = kids(loops[0])
            # loop guard: all three conjuncts
            conj = []

            def flat(n):
                b = match.binop(n, ("&&",))
                if b and strip_casts(n)["k"] == "BinaryOperator":
                    flat(b[1]); flat(b[2])
                else:
                    conj.append(n)
            flat(cond)
            have = set()
            for c in conj:
                b = match.binop(c, ("!=", ">", "<"))
                if b:
                    ids = {ref_of(b[1]), ref_of(b[2])}
                    if ids == {b1, e1} and b[0] == "!=":
                        have.add("seq1")
                    elif ids == {b2, e2} and b[0] == "!=":
                        have.add("seq2")
                    elif ref_of(b[1]) == msize and b[0] == ">" and const_int(b[2]) == 0:
                        have.add("size")
            if have != {"seq1", "seq2", "size"}:
                ck.violation("MERGE2-TABLE", fn.qname, "loop-guard", "merge loop guard lacks %s" % sorted({"seq1", "seq2", "size"} - have), fn.nloc(cond))
                continue

            def symval(e, run, side_effects=None):
                e = strip_casts(e)
                d = match.deref_of(e)
                if d is not None:
                    u = match.unop(d, ("++",))
                    base = u[1] if u else d
                    r = ref_of(base)
                    if r in (b1, b2):
                        w = 1 if r == b1 else 2
                        if u and side_effects is not None:
                            side_effects.append(("adv", w))
                        return "e%d" % w
                    return None
                if e["k"] == "DeclRefExpr":
                    v = run.env.get(e["ref"]["id"])
                    if isinstance(v, str):
                        return v
                    if isinstance(v, dict):
                        return symval(v, run)
                b = match.binop(e, ("+",))
                if b and const_int(b[2]) == 1 and ref_of(b[1]) in (b1, b2):
                    return "next%d" % (1 if ref_of(b[1]) == b1 else 2)
                return None

            def atomize(n, run):
                fc = match.functor_call(n)
                if fc and ref_of(fc[0]) == comp and len(fc[1]) == 2:
                    a, b = symval(fc[1][0], run), symval(fc[1][1], run)
                    if (a, b) == ("e2", "e1"):
                        return ("comp(e2,e1)", False)
                    if (a, b) == ("e1", "e2"):
                        return ("comp(e1,e2)", False)
                    raise dtable.Undecidable("%s: comparator on unexpected operands" % fn.nloc(n))
                return None
            leaves = dtable.explore(body, atomize, fn)
            atoms = ["comp(e2,e1)", "comp(e1,e2)"]
            bad = False
            rows = 0
            for v, lf in dtable.table(leaves, lambda v: not (v["comp(e2,e1)"] and v["comp(e1,e2)"]), atoms):
                rows += 1
                run = lf["run"]
                env = {}
                emitted, adv = [], []

                class R:            # evaluation environment replaying the events in order
                    pass
                r = R()
                r.env = env
                for ev in lf["events"]:
                    if ev[0] == "decl":
                        vd = ev[1]
                        if kids(vd):
                            env[vd["did"]] = symval(kids(vd)[0], r, adv)
                        continue
                    if ev[0] != "expr":
                        raise dtable.Undecidable("%s: unexpected %s in merge loop" % (fn.loc, ev[0]))
                    e = ev[1]
                    b = match.binop(e, ("=",))
                    if b:
                        lhs = strip_casts(b[1])
                        d = match.deref_of(lhs)
                        if d is not None:
                            u = match.unop(d, ("++",))
                            if ref_of(u[1] if u else d) == target:
                                emitted.append(symval(b[2], r, adv))
                                continue
                        if lhs["k"] == "DeclRefExpr":
                            val = symval(b[2], r, adv)
                            did = lhs["ref"]["id"]
                            if did in (b1, b2):
                                w = 1 if did == b1 else 2
                                if val == "next%d" % w:
                                    adv.append(("adv", w))
                                    continue
                                raise dtable.Undecidable("%s: cursor assigned something else than its successor" % fn.nloc(e))
                            env[did] = val
                            continue
                    u = match.unop(e, ("++", "--"))
                    if u:
                        rr = ref_of(u[1])
                        if rr in (target, msize):
                            continue
                        if rr in (b1, b2):
                            adv.append(("adv", 1 if rr == b1 else 2))
                            continue
                    raise dtable.Undecidable("%s: effect not understood in merge loop: %s" % (fn.nloc(e), dtable.describe(e)))
                want = 2 if v["comp(e2,e1)"] else 1
                if emitted != ["e%d" % want] or adv != [("adv", want)]:
                    ck.violation("MERGE2-TABLE", fn.qname, "row:" + dtable.fmt_val(v),
                                 "two-way merge must take from sequence %d (%s) but emits %s and advances %s"
                                 % (want, dtable.fmt_val(v), emitted, [a[1] for a in adv]), fn.nloc(loops[0]))
                    bad = True
            # tail copy
            tail = [s for s in kids(fn.body) if s["k"] == "IfStmt"]
            okt = False
            if len(tail) == 1:
                c, t, e = kids(tail[0])
                b = match.binop(c, ("!=",))
                if b and {ref_of(b[1]), ref_of(b[2])} == {b1, e1}:
                    def copies(branch, bx):
                        cp = [x for x in ir.walk(branch) if match.call_named(x, ("copy", "copy_n"))]
                        ad = [x for x in ir.walk(branch) if match.binop(x, ("+=",)) and ref_of(match.binop(x, ("+=",))[1]) == bx]
                        if len(cp) != 1 or len(ad) != 1:
                            return False
                        a = kids(cp[0])
                        okc = ref_of(a[0]) == bx and match.binop(a[1], ("+",)) and ref_of(match.binop(a[1], ("+",))[1]) == bx and \
                            ref_of(match.binop(a[1], ("+",))[2]) == msize and ref_of(a[2]) == target
                        return bool(okc and ref_of(match.binop(ad[0], ("+=",))[2]) == msize)
                    okt = copies(t, b1) and e is not None and copies(e, b2)
            if not okt:
                ck.violation("MERGE2-TABLE", fn.qname, "tail", "after the loop the remaining length is not copied from the non-exhausted sequence and that cursor advanced", fn.loc)
                bad = True
            ck.states += rows
            if not bad:
                ck.ok("MERGE2-TABLE", fn.qname, "3 rows: take sequence 2 iff comp(e2,e1), emit+advance the same sequence; tail copies max_size from the live sequence")
    for fn in tu.some(qname="tlx::merge_advance"):
        calls = [x for x in ir.walk(fn.body) if match.call_named(x, ("merge_advance_movc", "merge_advance_usual"))]
        okf = len(calls) == 1 and [ref_of(a) for a in kids(calls[0])] == [p["did"] for p in fn.params]
        if okf:
            ck.ok("MERGE2-TABLE", fn.qname + " (forward)", "forwards all 7 parameters in their roles", nontrivial=False)
        else:
            ck.violation("MERGE2-TABLE", fn.qname, "forward", "merge_advance does not forward its parameters in order", fn.loc)


# ------------------------------------------------------------------ combined variants
def lin(e, env=None):
    """linear form {did: coef, 1: const} of an integer expression, or None"""
    e = strip_casts(e)
    c = const_int(e)
    if c is not None and e["k"] == "IntegerLiteral":
        return {1: c}
    if e["k"] == "DeclRefExpr":
        return {e["ref"]["id"]: 1}
    b = match.binop(e, ("+", "-"))
    if b:
        l, r = lin(b[1]), lin(b[2])
        if l is None or r is None:
            return None
        out = dict(l)
        for k, v in r.items():
            out[k] = out.get(k, 0) + (v if b[0] == "+" else -v)
        return {k: v for k, v in out.items() if v}
    return None


UNGUARDED_PHASE = ("multiway_merge_3_variant", "multiway_merge_4_variant", "multiway_merge_loser_tree_unguarded")
GUARDED_PHASE = ("merge_advance", "multiway_merge_3_variant", "multiway_merge_loser_tree")


def size_arg(call):
    a = kids(call)
    return a[5] if call["callee"]["name"] == "merge_advance" else a[3]


def target_arg(call):
    a = kids(call)
    return a[4] if call["callee"]["name"] == "merge_advance" else a[2]


def check_combined(ck, tu):
    """PHASE-LENGTH-SUM: the combined variants are evaluated on their integer skeleton for every (size S <= total T,
    overhang O in {-1, 0..T}, min_seq): the unguarded phase merges min(S, T - O) elements at target (skipped when a
    sequence is empty), the guarded phase continues where it stopped with the rest, and target + S is returned."""
    from engine import skel
    for name in ("multiway_merge_3_combined", "multiway_merge_4_combined", "multiway_merge_loser_tree_combined"):
        for fn in tu.some(qname=NS + name):
            sizep, targetp = fn.params[3]["did"], fn.params[2]["did"]
            K = 3 if "3" in name else 4 if "4" in name else 5
            calls = [x for x in ir.walk(fn.body) if "callee" in x and x["k"] == "CallExpr"]
            ung = [c for c in calls if c["callee"]["name"] in UNGUARDED_PHASE and
                   ("unguarded" in c["callee"]["name"] or "unguarded_iterator" in (c["callee"].get("targs") or [""])[0])]
            gua = [c for c in calls if c["callee"]["name"] in GUARDED_PHASE and c not in ung]
            ck.require(len(ung) >= 1 and gua, "%s: could not identify the unguarded and guarded phases" % fn.loc)
            ung_ids, gua_ids = {c["id"] for c in ung}, {c["id"] for c in gua}
            where = fn.qname + ("<%s>" % fn.targs[0] if name.endswith("tree_combined") else "")
            bad = None
            BASE = 1000
            npts = 0
            tails = []
            for S in range(0, 5):
                for T in range(max(S, 1), 7):
                    for O in [-1] + list(range(0, T + 1)):
                        for m in range(K if "3" in name else 1):
                            phases = []

                            def event(e, sk, O=O, T=T, m=m):
                                if "callee" not in e:
                                    return NotImplemented
                                nm = e["callee"]["name"]
                                if nm == "prepare_unguarded":
                                    key = sk.lvalue(kids(e)[-1])
                                    if key is None:
                                        raise dtable.Undecidable("%s: min_sequence argument not understood" % fn.loc)
                                    sk.store(key, m)
                                    return O
                                if nm in ("iterpair_size",):
                                    return T
                                if nm == "accumulate":
                                    return T
                                if nm == "merge_advance" and len(kids(e)) >= 4:
                                    idxs = []
                                    for a_ in (kids(e)[0], kids(e)[2]):
                                        f_ = match.field_of(a_)
                                        ip_ = match.index_parts(f_[0]) if f_ else None
                                        idxs.append(sk.ev(ip_[1]) if ip_ and ref_of(ip_[0]) == fn.params[0]["did"] else None)
                                    tails.append((m, tuple(idxs), e))
                                if e["id"] in ung_ids or e["id"] in gua_ids:
                                    t_, n_ = sk.ev(target_arg(e)), sk.ev(size_arg(e))
                                    if not isinstance(t_, int) or not isinstance(n_, int):
                                        raise dtable.Undecidable("%s: target / length of a merge phase not understood at line %s" % (fn.loc, e.get("l")))
                                    phases.append(("U" if e["id"] in ung_ids else "G", t_, n_, e))
                                    return t_ + max(n_, 0)
                                return NotImplemented
                            # one sequence carries the whole input: the total is returned by iterpair_size once
                            sk = skel.Skel(fn, {sizep: S, targetp: BASE, fn.params[0]["did"]: 0, fn.params[1]["did"]: 1}, None, event, max_iter=16)
                            try:
                                sk.run(kids(fn.body))
                                ret = None
                            except skel.Return as r_:
                                ret = r_.v
                            npts += 1
                            if O == -1:
                                want = [("G", BASE, S)]
                            else:
                                u = min(S, T - O)
                                want = [("U", BASE, u), ("G", BASE + u, S - u)]
                            got = [(k_, t_, n_) for k_, t_, n_, _ in phases if not (k_ == "U" and n_ == 0 and O == -1)]
                            if (got != want or ret != BASE + S) and bad is None:
                                bad = (S, T, O, m, got, want, ret, phases[0][3] if phases else fn.body)
            if bad:
                S, T, O, m, got, want, ret, node = bad

                def show(l):
                    return ", ".join("%s %d at target+%d" % ("unguarded" if k_ == "U" else "guarded", n_, t_ - BASE) for k_, t_, n_ in l) or "nothing"
                ck.violation("PHASE-LENGTH-SUM", fn.qname, "phases",
                             "for size %d of %d elements with %s the phases merge {%s} and target+%s is returned; they must merge {%s} and return target+%d "
                             "(unguarded length min(size, total - overhang), the guarded phase continues where it stopped with the rest)"
                             % (S, T, "an empty sequence" if O == -1 else "overhang %d" % O, show(got), (ret - BASE) if isinstance(ret, int) else "?", show(want), S),
                             fn.nloc(node))
            else:
                ck.ok("PHASE-LENGTH-SUM", where, "%d points (size, total, overhang, min_seq): unguarded min(size, total - overhang) at target, guarded rest behind it, "
                      "target + size returned" % npts)
            if name == "multiway_merge_3_combined":
                wrong = None
                for m_, idxs, node in tails:
                    others = tuple(i for i in (0, 1, 2) if i != m_)
                    if idxs != others and wrong is None:
                        wrong = (m_, idxs, others, node)
                if not tails:
                    raise dtable.Undecidable("%s: the two-way tail merge was never reached" % fn.loc)
                if wrong:
                    m_, idxs, others, node = wrong
                    ck.violation("TAIL-ORDER", fn.qname, "case=%d" % m_,
                                 "when sequence %d is exhausted first the tail must merge sequences %d and %d in this order (ties go to the first range): got %s"
                                 % (m_, others[0], others[1], list(idxs)), fn.nloc(node))
                else:
                    ck.ok("TAIL-ORDER", fn.qname, "cases 0,1,2 merge the two remaining sequences in increasing index order")
            if name == "multiway_merge_4_combined":
                check_one_missing(ck, fn)


def check_tail_order(ck, fn, gua):
    from rules.c15 import flatten_switch
    sw = [x for x in ir.walk(fn.body) if x["k"] == "SwitchStmt"]
    ck.require(len(sw) == 1, "%s: one switch(min_seq) expected" % fn.loc)
    flat = flatten_switch(kids(sw[0])[1])
    seqs = fn.params[0]["did"]
    seen = {}
    cur = None
    for e in flat:
        if e[0] == "case":
            cur = e[1]
        elif e[0] == "default":
            cur = "default"
        elif e[0] == "stmt" and cur not in (None, "default"):
            for c in ir.walk(e[1]):
                if match.call_named(c, ("merge_advance",)):
                    idx = []
                    for a in kids(c)[:4]:
                        f = match.field_of(a)
                        p = match.index_parts(f[0]) if f else None
                        idx.append((const_int(p[1]), f[1]) if p and ref_of(p[0]) == seqs else None)
                    seen[cur] = idx
    okall = True
    for m in (0, 1, 2):
        others = [i for i in (0, 1, 2) if i != m]
        want = [(others[0], "first"), (others[0], "second"), (others[1], "first"), (others[1], "second")]
        if seen.get(m) != want:
            ck.violation("TAIL-ORDER", fn.qname, "case=%d" % m,
                         "when sequence %d is exhausted first the tail must merge sequences %d and %d in this order (ties go to the first range): got %s"
                         % (m, others[0], others[1], seen.get(m)), fn.nloc(sw[0]))
            okall = False
    if okall:
        ck.ok("TAIL-ORDER", fn.qname, "cases 0,1,2 merge the two remaining sequences in increasing index order")


def check_one_missing(ck, fn):
    # the sequence removed for the guarded 3-way phase is put back at the same index
    mv = None
    for x in ir.walk(fn.body):
        if match.call_named(x, ("prepare_unguarded",)):
            mv = ref_of(kids(x)[-1])
    pos = {}
    for x in ir.walk(fn.body):
        c = match.call_named(x, ("erase", "insert"))
        if c and c.get("member_call"):
            a = match.strip_conv(kids(c)[1])
            b = match.binop(a, ("+",))
            pos[c["callee"]["name"]] = ref_of(b[2]) if b else None
            if c["callee"]["name"] == "insert":
                p = match.index_parts(kids(c)[2])
                pos["insert-value"] = ref_of(p[1]) if p else None
    if mv is not None and pos.get("erase") == mv and pos.get("insert") == mv and pos.get("insert-value") == mv:
        ck.ok("TAIL-ORDER", fn.qname, "exhausted sequence min_seq is removed and re-inserted at the same index")
    elif mv is None or "erase" not in pos or "insert" not in pos or None in (pos.get("erase"), pos.get("insert"), pos.get("insert-value")):
        raise dtable.Undecidable("%s: how the exhausted sequence is left out and put back is not understood" % fn.loc)
    else:
        ck.violation("TAIL-ORDER", fn.qname, "one-missing", "the sequence removed before the guarded phase is not re-inserted at its own index", fn.loc)


# ------------------------------------------------------------------ prepare_unguarded
def check_prepare(ck, tu):
    """PREPARE-BOUNDS: the part of prepare_unguarded() behind the minimum scan is evaluated on its index skeleton for 4
    sequences and every min_sequence: each sequence is split exactly once, with upper_bound for s <= min_sequence in stable
    mode and lower_bound otherwise (equal elements of earlier sequences are still merged unguarded, later ones are not)"""
    from engine import skel
    for fn in tu.some(qname=NS + "prepare_unguarded"):
        stable = fn.targs[0] == "true"
        seqs_b, seqs_e, minseq = fn.params[0]["did"], fn.params[1]["did"], fn.params[3]["did"]
        top = kids(fn.body)
        scan = [i for i, s_ in enumerate(top) if s_["k"] in ("ForStmt", "WhileStmt") and
                any(match.binop(z, ("=",)) and ref_of(match.binop(z, ("=",))[1]) == minseq for z in ir.walk(s_) if z["k"] == "BinaryOperator")]
        ck.require(len(scan) == 1, "%s: minimum scan not found" % fn.loc)
        frag = top[scan[0] + 1:]
        K = 4
        bad = None
        sig = "stable" if stable else "unstable"
        for m in range(K):
            calls = []

            def event(e, sk):
                if "callee" in e and e["callee"]["name"] in ("upper_bound", "lower_bound") and e["k"] == "CallExpr":
                    f = match.field_of(kids(e)[0])
                    ip = match.index_parts(f[0]) if f else None
                    idx = sk.ev(ip[1]) if ip and ref_of(ip[0]) == seqs_b else None
                    calls.append((e["callee"]["name"], idx, e))
                    return None
                return NotImplemented
            sk = skel.Skel(fn, {minseq: m, seqs_b: 0, seqs_e: K}, None, event)
            try:
                sk.run(frag)
            except skel.Return:
                pass
            if any(c[1] is None for c in calls):
                raise dtable.Undecidable("%s: sequence index of a bound search not understood" % fn.loc)
            got = {}
            for name, idx, node in calls:
                got.setdefault(idx, []).append(name)
            for q in range(K):
                want = "upper_bound" if (stable and q <= m) else "lower_bound"
                if got.get(q) != [want] and bad is None:
                    if not got.get(q):
                        bad = (":range", "with min_sequence = %d sequence %d of %d is not split at all: the split loops must cover all sequences "
                                         "(0..min_sequence inclusive, then the rest)" % (m, q, K), calls[0][2] if calls else fn.body)
                    elif len(got[q]) > 1:
                        bad = (":range", "with min_sequence = %d sequence %d is split %d times" % (m, q, len(got[q])), calls[0][2])
                    else:
                        bad = (":bound", "with min_sequence = %d sequence %d is split with %s; sequences <= min_sequence must be split with %s and later "
                                         "ones with lower_bound" % (m, q, got[q][0], "upper_bound" if stable else "lower_bound"), calls[0][2])
        if bad:
            ck.violation("PREPARE-BOUNDS", fn.qname, sig + bad[0], bad[1], fn.nloc(bad[2]))
        else:
            ck.ok("PREPARE-BOUNDS", "prepare_unguarded<%s>" % fn.targs[0], "4 sequences, every min_sequence: s <= min_sequence: %s; s > min_sequence: lower_bound; each once"
                  % ("upper_bound" if stable else "lower_bound"))


# ------------------------------------------------------------------ dispatch
MWMA = {0: "LOSER_TREE", 1: "LOSER_TREE_COMBINED", 2: "LOSER_TREE_SENTINEL", 3: "BUBBLE"}
NEEDS_SENTINEL = lambda c: (c["callee"]["name"] == "multiway_merge_loser_tree_sentinel" or
                            (c["callee"]["name"] in ("multiway_merge_3_variant", "multiway_merge_4_variant") and
                             "unguarded_iterator" in (c["callee"].get("targs") or [""])[0]))


def stable_arg_of(c):
    """the Stable template argument carried by a callee, or None"""
    name = c["callee"]["name"]
    t = c["callee"].get("targs") or []
    if name in ("multiway_merge_bubble", "multiway_merge_loser_tree_combined", "multiway_merge_loser_tree_sentinel") and t:
        return t[0] == "true"
    if name in ("multiway_merge_loser_tree", "multiway_merge_loser_tree_unguarded") and t:
        lt = t[0]
        if "<" in lt:
            return lt.split("<", 1)[1].split(",")[0].strip() == "true"
    return None


def check_dispatch(ck, tu):
    from rules.c15 import flatten_switch
    front_ok = True
    # public front ends
    want = {"tlx::multiway_merge": ("false", "false"), "tlx::stable_multiway_merge": ("true", "false"),
            "tlx::multiway_merge_sentinels": ("false", "true"), "tlx::stable_multiway_merge_sentinels": ("true", "true")}
    for q, flags in want.items():
        for fn in tu.some(qname=q):
            calls = [c for c in ir.walk(fn.body) if match.call_named(c, ("multiway_merge_base",))]
            okf = len(calls) == 1 and tuple(calls[0]["callee"]["targs"][:2]) == flags and \
                [ref_of(a) for a in kids(calls[0])] == [p["did"] for p in fn.params]
            if okf:
                ck.ok("FRONTEND-FLAGS", q, "-> multiway_merge_base<Stable=%s, Sentinels=%s>, all parameters forwarded in order" % flags)
            else:
                front_ok = False
                ck.violation("FRONTEND-FLAGS", q, "flags", "front end must call multiway_merge_base<%s,%s> with its own parameters in order" % flags, fn.loc)
    bases = tu.some(qname="tlx::multiway_merge_base")
    if front_ok:
        ck.require(len(bases) == 4, "expected 4 instantiations of multiway_merge_base, found %d" % len(bases))
    for fn in bases:
        stable, sentinels = fn.targs[0] == "true", fn.targs[1] == "true"
        mw = fn.params[5]["did"]
        tag = "<%s,%s>" % (fn.targs[0], fn.targs[1])
        vs = {0, 1, 2, 3}
        top = kids(fn.body)
        ksw = None

        def remap(s, vs):
            """`if (<constants> && mwma == A) mwma = B;` narrows the value set of the algorithm tag"""
            c, t, e = kids(s)
            asg = [match.binop(x, ("=",)) for x in ir.walk(t) if match.binop(x, ("=",)) and ref_of(match.binop(x, ("=",))[1]) == mw]
            if not asg:
                return vs, False
            conj = []

            def flat(n):
                b = match.binop(n, ("&&",))
                if b and strip_casts(n)["k"] == "BinaryOperator":
                    flat(b[1]); flat(b[2])
                else:
                    conj.append(n)
            flat(c)
            const_ok, eqv, unknown = True, None, False
            for x in conj:
                cv = const_int(x)
                b = match.binop(x, ("==",))
                if cv is not None:
                    const_ok = const_ok and bool(cv)
                elif b and ref_of(b[1]) == mw and const_int(b[2]) is not None:
                    eqv = const_int(b[2])
                else:
                    unknown = True
            if unknown or e is not None or len(asg) != 1 or const_int(asg[0][2]) is None:
                raise dtable.Undecidable("%s: rewrite of the algorithm tag not understood" % fn.nloc(s))
            if const_ok and eqv is not None and eqv in vs:
                vs = (vs - {eqv}) | {const_int(asg[0][2])}
            return vs, True
        for s in top:
            if s["k"] == "IfStmt":
                vs, was = remap(s, vs)
                if not was:
                    raise dtable.Undecidable("%s: statement before the dispatch switch not understood" % fn.nloc(s))
            elif s["k"] == "SwitchStmt":
                ksw = s
        ck.require(ksw is not None, "%s: switch(k) not found" % fn.loc)
        flat_k = flatten_switch(kids(ksw)[1])
        # split into k-classes
        classes = {}
        cur = None
        for e in flat_k:
            if e[0] == "case":
                cur = e[1]; classes.setdefault(cur, [])
            elif e[0] == "default":
                cur = "default"; classes.setdefault(cur, [])
            elif cur is not None:
                classes[cur].append(e[1])
        ck.require(set(classes) >= {0, 1, 2, 3, 4, "default"}, "%s: switch(k) lacks a case (%s)" % (fn.loc, sorted(map(str, classes))))
        problems = 0
        vs_top = vs
        for kc, stmts in classes.items():
            inner = [x for s in stmts for x in ir.walk(s) if x["k"] == "SwitchStmt"]
            reach = {}
            # rewrites of the tag inside this k-class, in front of its own switch
            vs = set(vs_top)
            for s0 in stmts:
                for x in ([s0] if s0["k"] == "IfStmt" else [y for y in kids(s0) if y and y["k"] == "IfStmt"] if s0["k"] == "CompoundStmt" else []):
                    if inner and any(z is inner[0] for z in ir.walk(x)):
                        continue
                    vs, _ = remap(x, vs)
            if inner:
                fl = flatten_switch(kids(inner[0])[1])
                cases = {}
                cur = None
                for e in fl:
                    if e[0] == "case":
                        cur = e[1]; cases.setdefault(cur, [])
                    elif e[0] == "default":
                        cur = "default"; cases.setdefault(cur, [])
                    elif cur is not None:
                        # fallthrough: a statement belongs to every open label until break
                        cases[cur].append(e[1])
                for a in sorted(vs):
                    body = cases.get(a, cases.get("default", []))
                    reach[a] = [c for s in body for c in ir.walk(s) if "callee" in c and c["k"] == "CallExpr"]
            else:
                calls = [c for s in stmts for c in ir.walk(s) if "callee" in c and c["k"] == "CallExpr"]
                for a in sorted(vs):
                    reach[a] = calls
            for a, calls in reach.items():
                impl = [c for c in calls if c["callee"]["qname"].startswith(NS) or c["callee"]["name"] in ("merge_advance", "copy")]
                site = "%s k=%s mwma=%s" % (tag, kc, MWMA.get(a, a))
                if kc != 0 and not impl:
                    ck.violation("DISPATCH-TOTAL", fn.qname, tag + ":k=%s:mwma=%s" % (kc, MWMA.get(a, a)), "no merge implementation is reached for " + site, fn.nloc(ksw))
                    problems += 1
                    continue
                for c in impl:
                    st = stable_arg_of(c)
                    if stable and st is False:
                        ck.violation("STABLE-PROPAGATE", fn.qname, tag + ":" + c["callee"]["name"],
                                     "stable merge reaches the unstable %s<%s> for %s" % (c["callee"]["name"], (c["callee"].get("targs") or ["?"])[0][:60], site), fn.nloc(c))
                        problems += 1
                    if not sentinels and NEEDS_SENTINEL(c):
                        ck.violation("SENTINEL-REACH", fn.qname, tag + ":" + c["callee"]["name"],
                                     "%s requires sentinels but is reachable without them for %s" % (c["callee"]["name"], site), fn.nloc(c))
                        problems += 1
                    if not stable and st is True and False:
                        pass
                if not problems:
                    ck.ok("DISPATCH-TOTAL", site, "-> " + ",".join(sorted(set(c["callee"]["name"] for c in impl))) if impl else "-> nothing to do", nontrivial=bool(impl))
        if not problems:
            ck.ok("STABLE-PROPAGATE", "multiway_merge_base" + tag, "every reachable callee carries Stable=%s or is inherently stable" % fn.targs[0])
            ck.ok("SENTINEL-REACH", "multiway_merge_base" + tag, "mwma value set after the guard: %s" % sorted(MWMA[v] for v in vs_top))


# ------------------------------------------------------------------ loser-tree drivers
class _NeedE(Exception):
    pass


class LTFlow:
    """typestate of a loser-tree merge driver, executed abstractly over the statement tree.

    state = (tree, srcok, E, tpend, env)
      tree  FRESH (players being inserted) | SYNC (the tree holds the head of every sequence) | EMITTED (the winner's
            head was written to the output) | CONSUMED (the winner's sequence was advanced, the tree still holds the
            consumed element)
      srcok the winner variable holds min_source() of the tree as it is now
      E     what the path knows about `seqs[winner].first == seqs[winner].second` (None: nothing)
      tpend an element was written to *target and target was not advanced yet
      env   constants held by locals (bool/int), and which reference locals are bound to the current winner
    Unknown conditions fork.  A transition that the protocol forbids is reported with the statement that makes it."""

    def __init__(self, fn, lt, seqs, target, guarded):
        self.fn, self.lt, self.seqs, self.target, self.guarded = fn, lt, seqs, target, guarded
        self.src = None
        self.problems = []
        self.alias = {}          # did of a reference local -> ("first"/"second", index var did)
        self.nsteps = 0
        self.seen_events = set()

    # ---- expression helpers
    def ltcall(self, x, names):
        if x is None or "callee" not in x:
            return None
        c = match.call_named(x, names)
        return c if c and c.get("member_call") and ref_of(kids(c)[0]) == self.lt else None

    def seq_field(self, e, env=None):
        """(field, index var did) if e is seqs[i].first/.second or a reference local bound to it"""
        e = strip_casts(e)
        while e is not None and e["k"] == "ParenExpr":
            e = strip_casts(kids(e)[0])
        if e is None:
            return None
        d = ref_of(e)
        if d is not None and d in self.alias:
            if env is not None and (d, "bound") not in env:
                raise ir.AnalysisBroken("%s: reference local used after the winner changed (line %s)" % (self.fn.full, e.get("l")))
            return self.alias[d]
        f = match.field_of(e)
        if f and f[1] in ("first", "second"):
            p = match.index_parts(f[0])
            if p and ref_of(p[0]) == self.seqs:
                return (f[1], ref_of(p[1]) if ref_of(p[1]) is not None else "expr:" + dtable.describe(p[1]))
        return None

    def head_of(self, e, env):
        """index var if e is *seqs[i].first"""
        dd = match.deref_of(e)
        if dd is None:
            return None
        sf = self.seq_field(dd, env)
        return sf[1] if sf and sf[0] == "first" else None

    def value(self, e, st):
        """True / False / int / 'null' / ('head', var) / None (unknown); raises _NeedE when the answer depends on E"""
        e = strip_casts(e)
        if e is None:
            return None
        k = e["k"]
        if k in ("ParenExpr", "ExprWithCleanups", "MaterializeTemporaryExpr", "CXXBindTemporaryExpr"):
            return self.value(kids(e)[0], st)
        if "callee" in e and e["callee"]["name"] in ("__builtin_expect",) and kids(e):
            return self.value([a for a in kids(e) if a is not None][-2], st)
        if k in ("NullPtr", "CXXNullPtrLiteralExpr", "GNUNullExpr"):
            return "null"
        if k == "CXXBoolLiteralExpr":
            return bool(e.get("val"))
        ci = const_int(e)
        if ci is not None:
            return bool(ci) if (e.get("ty") or "") == "bool" else ci
        if k == "DeclRefExpr":
            for d, v in st[4]:
                if d == e["ref"]["id"] and v != "bound":
                    return v
            return None
        if k == "UnaryOperator" and e.get("op") == "!":
            v = self.value(kids(e)[0], st)
            if v is None:
                return None
            if v == "null":
                return True
            if isinstance(v, tuple):
                return False
            return not v
        if k == "UnaryOperator" and e.get("op") == "&":
            h = self.head_of(kids(e)[0], st[4])
            return ("head", h) if h is not None else None
        if k == "ConditionalOperator":
            c = self.value(kids(e)[0], st)
            if c is None:
                return None
            return self.value(kids(e)[1] if c else kids(e)[2], st)
        b = match.binop(e, ("==", "!="))
        if b:
            fa, fb = self.seq_field(b[1], st[4]), self.seq_field(b[2], st[4])
            if fa and fb and {fa[0], fb[0]} == {"first", "second"} and fa[1] == fb[1]:
                if fa[1] == self.src and self.src is not None:
                    if st[2] is None:
                        raise _NeedE()
                    return st[2] if b[0] == "==" else not st[2]
                return None
            l, r = self.value(b[1], st), self.value(b[2], st)
            if l is not None and r is not None and not isinstance(l, tuple) and not isinstance(r, tuple):
                return (l == r) if b[0] == "==" else (l != r)
            return None
        b = match.binop(e, ("&&", "||"))
        if b:
            l = self.value(b[1], st)
            if l is not None and bool(l) == (b[0] == "||"):
                return b[0] == "||"
            r = self.value(b[2], st)
            if l is not None and r is not None:
                return bool(r)
            if r is not None and bool(r) == (b[0] == "||"):
                return b[0] == "||"
            return None
        return None

    def bad(self, sig, msg, node):
        if not any(p[0] == sig for p in self.problems):
            self.problems.append((sig, msg, node))

    # ---- events
    def step(self, kind, st, node, x=None, args=None):
        """-> list of successor states"""
        tree, srcok, E, tpend, env = st
        self.seen_events.add(kind)
        if kind == "START":
            if tree != "FRESH":
                self.bad("start-late", "insert_start() after init()", node)
            return [st]
        if kind == "INIT":
            if tree != "FRESH":
                self.bad("init-twice", "init() called on a tree that is already in use", node)
            return [("SYNC", False, None, tpend, env)]
        if tree == "FRESH":
            self.bad("pre-order", "the tree is used before init(): order must be insert_start x k, init(), min_source()", node)
            return []
        if kind == "MIN":
            # min_source() reports the winner of the tree as it is; aliases of the previous winner's sequence die
            env2 = frozenset((d, v) for d, v in env if v != "bound")
            return [(tree, True, None, tpend, env2)]
        if kind == "EMIT":
            if x != self.src or not srcok:
                self.bad("winner-var", "the emitted element is not the head of the sequence reported by min_source()", node)
                return []
            if tree != "SYNC":
                self.bad("loop-order", "an element is emitted while the previous winner has not been replaced in the tree "
                         "(order must be min_source, emit, advance, delete_min_insert)", node)
                return []
            if tpend:
                self.bad("target", "the output position is overwritten: target was not advanced after the previous element", node)
                return []
            return [("EMITTED", srcok, E, True, env)]
        if kind == "TGT":
            if not tpend:
                self.bad("target", "target is advanced without an element having been written (hole in the output)", node)
                return []
            return [(tree, srcok, E, False, env)]
        if kind == "ADV":
            if x != self.src or not srcok:
                self.bad("winner-var", "the advanced sequence is not the one reported by min_source()", node)
                return []
            if tree != "EMITTED":
                self.bad("loop-order", "the winner's sequence is advanced %s (order must be min_source, emit, advance, delete_min_insert)"
                         % ("without its head having been emitted" if tree == "SYNC" else "twice"), node)
                return []
            env2 = frozenset((d, v) for d, v in env if v == "bound" or isinstance(v, int) and not isinstance(v, bool) or (d, "E") not in self.edep)
            return [("CONSUMED", srcok, None, tpend, env2)]
        if kind == "DMI":
            if tree != "CONSUMED":
                self.bad("loop-order", "delete_min_insert() %s (order must be min_source, emit, advance, delete_min_insert)"
                         % ("before the winner was emitted and advanced" if tree == "SYNC" else "before the winner's sequence was advanced"), node)
                return []
            key, sup = args
            if self.guarded and E is None:
                out = []
                for e_ in (True, False):
                    out += self.step(kind, (tree, srcok, e_, tpend, env), node, x, args)
                return out
            stE = (tree, srcok, E, tpend, env)
            kv = self.value(key, stE)
            sv = self.value(sup, stE) if sup is not None else False
            if kv is None or sv is None or isinstance(sv, tuple) or sv == "null":
                raise ir.AnalysisBroken("%s: arguments of delete_min_insert() not understood at line %s" % (self.fn.full, node.get("l")))
            exhausted = bool(E) if self.guarded else False
            if bool(sv) != exhausted or (kv == "null") != exhausted:
                self.bad("feed", "the winner's next key must be fed from the winner's own sequence, exhausted iff first == second "
                         "(sequence %s: key %s, sup %s)" % ("exhausted" if exhausted else "not exhausted",
                                                           "nullptr" if kv == "null" else "given", bool(sv)), node)
                return []
            if not exhausted and kv != ("head", self.src):
                self.bad("feed", "delete_min_insert is not fed from the current winner's sequence", node)
                return []
            if not srcok:
                self.bad("winner-var", "delete_min_insert is fed through a stale winner variable", node)
                return []
            return [("SYNC", False, None, tpend, env)]
        raise ir.AnalysisBroken("event " + kind)

    edep = frozenset()

    def expr(self, e, states):
        """executes an expression statement on a list of states"""
        e0 = strip_casts(e)
        while e0 is not None and e0["k"] in ("ExprWithCleanups", "ParenExpr"):
            e0 = strip_casts(kids(e0)[0])
        if e0 is None:
            return states
        fn = self.fn

        def each(kind, node, x=None, args=None):
            out = []
            for st in states:
                out += self.step(kind, st, node, x, args)
            return dedupe(out)
        c = self.ltcall(e0, ("insert_start",))
        if c:
            return each("START", c)
        c = self.ltcall(e0, ("init",))
        if c:
            return each("INIT", c)
        c = self.ltcall(e0, ("delete_min_insert",))
        if c:
            a = kids(c)[1:]
            return each("DMI", c, None, (a[0], a[1] if len(a) > 1 else None))
        b = match.binop(e0, ("=",))
        if b:
            lhs = strip_casts(b[1])
            d = match.deref_of(lhs)
            if d is not None and ref_of(strip_post(d)) == self.target:
                post = strip_post(d) is not strip_casts(d)
                out = []
                for st in states:
                    h = self.head_of(b[2], st[4])
                    if h is None:
                        raise ir.AnalysisBroken("%s: value written to the output not understood at line %s" % (fn.full, e0.get("l")))
                    for s2 in self.step("EMIT", st, e0, h):
                        out += self.step("TGT", s2, e0) if post else [s2]
                return dedupe(out)
            if ref_of(lhs) == self.src and self.src is not None:
                if not self.ltcall(strip_casts(b[2]), ("min_source",)):
                    raise ir.AnalysisBroken("%s: winner variable assigned from something else at line %s" % (fn.full, e0.get("l")))
                return each("MIN", e0)
            if ref_of(lhs) is not None and ref_of(lhs) not in (self.target, self.lt):
                return [self.assign(st, ref_of(lhs), b[2]) for st in states]
        u = match.unop(e0, ("++",))
        inc1 = match.binop(e0, ("+=",))
        if inc1 and const_int(inc1[2]) == 1:
            u = ("++", inc1[1])
        if u:
            if ref_of(u[1]) == self.target:
                return each("TGT", e0)
            out = []
            hit = False
            for st in states:
                sf = self.seq_field(u[1], st[4])
                if sf and sf[0] == "first":
                    hit = True
                    out += self.step("ADV", st, e0, sf[1])
                else:
                    out.append(st)
            if hit:
                return dedupe(out)
        # anything else must not touch the tree or the output position
        for z in walk(e0):
            if z["k"] == "LambdaExpr":
                continue
            if z["k"] == "DeclRefExpr" and z["ref"]["id"] == self.lt:
                raise ir.AnalysisBroken("%s: use of the loser tree not understood at line %s" % (fn.full, z.get("l")))
            w = match.unop(z, ("++", "--")) or (match.binop(z, ("=", "+=", "-=")) if z["k"] in ("BinaryOperator", "CompoundAssignOperator", "CXXOperatorCallExpr") else None)
            if w and (ref_of(w[1]) in (self.target, self.src) or (z is not e0 and self.seq_field_safe(w[1]))):
                raise ir.AnalysisBroken("%s: update of the merge cursor not understood at line %s" % (fn.full, z.get("l")))
        # locals changed by ++/-- lose their constant
        out = []
        for st in states:
            env = st[4]
            for z in walk(e0):
                w = match.unop(z, ("++", "--")) or (match.binop(z, ("=", "+=", "-=", "*=", "/=")) if z["k"] in ("BinaryOperator", "CompoundAssignOperator") else None)
                if w and ref_of(w[1]) is not None:
                    env = frozenset((d, v) for d, v in env if d != ref_of(w[1]))
            out.append(st[:4] + (env,))
        return dedupe(out)

    def seq_field_safe(self, e):
        try:
            return self.seq_field(e)
        except ir.AnalysisBroken:
            return None

    def assign(self, st, did, rhs):
        env = frozenset((d, v) for d, v in st[4] if d != did)
        try:
            v = self.value(rhs, st)
        except _NeedE:
            v = None
        if isinstance(v, (bool, int)):
            env = env | {(did, v)}
        return st[:4] + (env,)

    def decl(self, v, states):
        fn = self.fn
        init = kids(v)[0] if kids(v) else None
        if v["did"] == self.lt or init is None:
            return states
        if self.ltcall(strip_casts(init), ("min_source",)):
            if self.src is not None and self.src != v["did"]:
                raise ir.AnalysisBroken("%s: two winner variables" % fn.full)
            self.src = v["did"]
            out = []
            for st in states:
                out += self.step("MIN", st, v)
            return dedupe(out)
        if any(self.ltcall(z, ("min_source", "delete_min_insert", "init", "insert_start")) for z in walk(init)):
            raise ir.AnalysisBroken("%s: use of the loser tree not understood at line %s" % (fn.full, v.get("l")))
        ty = v.get("ty") or ""
        if ty.rstrip().endswith("&"):
            sf = self.seq_field_safe(init)
            if sf:
                self.alias[v["did"]] = sf
                return dedupe([st[:4] + (st[4] | {(v["did"], "bound")},) for st in states])
            return states
        out = []
        for st in states:
            pend = [st]
            while pend:
                s1 = pend.pop()
                try:
                    val = self.value(init, s1)
                except _NeedE:
                    pend += [s1[:2] + (True,) + s1[3:], s1[:2] + (False,) + s1[3:]]
                    self.edep = self.edep | {(v["did"], "E")}
                    continue
                env = frozenset((d, x) for d, x in s1[4] if d != v["did"])
                if isinstance(val, (bool, int)):
                    env = env | {(v["did"], val)}
                out.append(s1[:4] + (env,))
        return dedupe(out)

    def cond(self, c, states):
        """-> (true states, false states)"""
        t, f = [], []
        if c is None:
            return list(states), []
        for z in walk(c):
            if self.ltcall(z, ("min_source", "delete_min_insert", "init", "insert_start")):
                raise ir.AnalysisBroken("%s: loser tree used inside a condition at line %s" % (self.fn.full, z.get("l")))
        pend = list(states)
        while pend:
            st = pend.pop()
            try:
                v = self.value(c, st)
            except _NeedE:
                pend += [st[:2] + (True,) + st[3:], st[:2] + (False,) + st[3:]]
                continue
            if v is None:
                t.append(st); f.append(st)
            elif v == "null" or v is False or v == 0:
                f.append(st)
            else:
                t.append(st)
        # side effects inside the condition (--remaining) drop constants
        t, f = self.expr_effects(c, t), self.expr_effects(c, f)
        return dedupe(t), dedupe(f)

    def expr_effects(self, c, states):
        ws = [ref_of(w[1]) for z in walk(c) for w in [match.unop(z, ("++", "--")) or (match.binop(z, ("=", "+=", "-=")) if z["k"] in ("BinaryOperator", "CompoundAssignOperator") else None)] if w]
        if any(d in (self.target, self.src, self.lt) for d in ws):
            raise ir.AnalysisBroken("%s: merge cursor changed inside a condition at line %s" % (self.fn.full, c.get("l")))
        ws = {d for d in ws if d is not None}
        if not ws:
            return states
        return [st[:4] + (frozenset((d, v) for d, v in st[4] if d not in ws),) for st in states]

    def block(self, stmts, states):
        """-> (fall-through, break, continue) state lists; returns are checked on the spot"""
        brk, cont = [], []
        for s in stmts:
            if not states:
                break
            states, b, c = self.stmt(s, states)
            brk += b
            cont += c
        return states, brk, cont

    def stmt(self, s, states):
        self.nsteps += 1
        if self.nsteps > 20000:
            raise ir.AnalysisBroken("%s: protocol analysis does not terminate" % self.fn.full)
        if s is None:
            return states, [], []
        k = s["k"]
        if k == "CompoundStmt":
            return self.block(kids(s), states)
        if k in ("NullStmt",):
            return states, [], []
        if k == "DeclStmt":
            for v in kids(s):
                if v["k"] == "VarDecl":
                    states = self.decl(v, states)
            return states, [], []
        if k == "IfStmt":
            c, t, e = kids(s)[0], kids(s)[1], kids(s)[2] if len(kids(s)) > 2 else None
            ts, fs = self.cond(c, states)
            a1, b1, c1 = self.stmt(t, ts) if ts else ([], [], [])
            a2, b2, c2 = (self.stmt(e, fs) if e is not None else (fs, [], [])) if fs else ([], [], [])
            return dedupe(a1 + a2), b1 + b2, c1 + c2
        if k == "ReturnStmt":
            for st in states:
                if st[3]:
                    self.bad("target", "the function returns while the last written element is not included in the returned end "
                             "(target not advanced)", s)
            return [], [], []
        if k == "BreakStmt":
            return [], list(states), []
        if k == "ContinueStmt":
            return [], [], list(states)
        if k in ("ForStmt", "WhileStmt", "DoStmt"):
            init, c, inc, body = match.loop_parts(s)
            if init is not None:
                states, _, _ = self.stmt(init, states)
            head, exits = set(), []
            work = list(states)
            first = k == "DoStmt"
            while work:
                new = [st for st in dedupe(work) if st not in head]
                work = []
                if not new:
                    break
                head |= set(new)
                if first:
                    ts, fs = new, []
                else:
                    ts, fs = self.cond(c, new)
                exits += fs
                if not ts:
                    continue
                a, b, cn = self.stmt(body, ts)
                exits += b
                nxt = dedupe(a + cn)
                if inc is not None and nxt:
                    nxt = self.expr(inc, nxt)
                if k == "DoStmt" and nxt:
                    ts2, fs2 = self.cond(c, nxt)
                    exits += fs2
                    nxt = ts2
                    # states re-entering the body
                    first = True
                work = nxt
            return dedupe(exits), [], []
        if k in ("SwitchStmt", "GotoStmt", "LabelStmt", "CXXTryStmt"):
            raise ir.AnalysisBroken("%s: %s in a loser-tree driver" % (self.fn.full, k))
        return self.expr(s, states), [], []


def strip_post(d):
    """x for x++ (builtin or overloaded postfix increment), else d"""
    d = strip_casts(d)
    while d is not None and d["k"] == "ParenExpr":
        d = strip_casts(kids(d)[0])
    if d is not None and d["k"] == "UnaryOperator" and d.get("op") == "++" and d.get("postfix"):
        return strip_casts(kids(d)[0])
    if d is not None and d["k"] == "CXXOperatorCallExpr" and d.get("op") == "++" and len(kids(d)) == 3:
        return strip_casts(kids(d)[1])
    return d


def dedupe(states):
    seen, out = set(), []
    for s in states:
        if s not in seen:
            seen.add(s)
            out.append(s)
    return out


def check_lt_protocol(ck, tu):
    for name in ("multiway_merge_loser_tree", "multiway_merge_loser_tree_unguarded"):
        fns = tu.some(qname=NS + name)
        for fn in fns[:2]:
            guarded = not name.endswith("unguarded")
            seqs = fn.params[0]["did"]
            target = fn.params[2]["did"]
            ltv = [x for x in ir.walk(fn.body) if x["k"] == "VarDecl" and x.get("ty", "").startswith("tlx::LoserTree")]
            ck.require(len(ltv) == 1, "%s: loser tree local not found" % fn.loc)
            lt = ltv[0]["did"]
            fl = LTFlow(fn, lt, seqs, target, guarded)
            problems = []
            # (a) start loop: every player t in [0,k) inserted with its own head
            loops = [s for s in kids(fn.body) if s["k"] in ("ForStmt", "WhileStmt")]
            start = [l for l in loops if any(fl.ltcall(x, ("insert_start",)) for x in ir.walk(l))]
            ck.require(len(start) == 1, "%s: start loop not found" % fn.loc)
            sl = start[0]
            init, cond, inc, body = match.loop_parts(sl)
            tvar = [x["did"] for x in ir.walk(init) if x["k"] == "VarDecl"] if init is not None else []
            if not tvar:
                tvar = [ref_of(u[1]) for z in ir.walk(sl) for u in [match.unop(z, ("++",))] if u and ref_of(u[1]) is not None
                        and ref_of(u[1]) not in (seqs, target)]
            ck.require(len(tvar) >= 1, "%s: index of the start loop not found" % fn.loc)
            for c in [x for x in ir.walk(body) if fl.ltcall(x, ("insert_start",))]:
                a = kids(c)[1:]
                if ref_of(a[1]) not in tvar:
                    problems.append(("start-source", "insert_start is not called with the loop index as source", c))
                key = strip_casts(a[0])
                if key["k"] != "NullPtr" and const_int(a[2]) != 1:
                    h = fl.head_of(kids(key)[0], None) if key["k"] == "UnaryOperator" and key["op"] == "&" else None
                    if h is None:
                        raise ir.AnalysisBroken("%s: key of insert_start() not understood at line %s" % (fn.full, c.get("l")))
                    if h not in tvar:
                        problems.append(("start-key", "insert_start does not take the head of sequence t", c))
            # (b) the protocol as a typestate over every path of the driver
            st0 = ("FRESH", False, None, False, frozenset())
            fall, _, _ = fl.block(kids(fn.body), [st0])
            if fall:
                raise ir.AnalysisBroken("%s: driver falls off its end" % fn.full)
            need = {"START", "INIT", "MIN", "EMIT", "TGT", "ADV", "DMI"}
            if not fl.problems and not need <= fl.seen_events:
                raise ir.AnalysisBroken("%s: protocol events %s never seen" % (fn.full, sorted(need - fl.seen_events)))
            problems += fl.problems
            if problems:
                for sig, msg, node in problems[:3]:
                    ck.violation("LT-PROTOCOL", fn.qname, ("guarded:" if guarded else "unguarded:") + sig, msg, fn.nloc(node))
            else:
                ck.ok("LT-PROTOCOL", "%s<%s>" % (name, fn.targs[0].split("<")[0]),
                      "typestate over all paths: insert_start x k -> init -> (min_source, emit+advance that source, "
                      "delete_min_insert fed from that source, sup iff exhausted)*")


# ------------------------------------------------------------------ bubble merge
def check_bubble(ck, tu):
    for fn in tu.some(qname=NS + "multiway_merge_bubble"):
        stable = fn.targs[0] == "true"
        comp = fn.params[4]["did"]
        plv = [x["did"] for x in ir.walk(fn.body) if x["k"] == "VarDecl" and x["name"] == "pl"]
        srcv = [x["did"] for x in ir.walk(fn.body) if x["k"] == "VarDecl" and x["name"] == "source"]
        ck.require(len(plv) == 1 and len(srcv) == 1, "%s: key/source arrays not found" % fn.loc)
        pl, src = plv[0], srcv[0]

        def pos_of(e, arr):
            """('rel', var_did, off) / ('abs', n) index of arr[...]"""
            p = match.index_parts(e)
            if not p or ref_of(p[0]) != arr:
                return None
            i = strip_casts(p[1])
            c = const_int(i)
            if c is not None and i["k"] == "IntegerLiteral":
                return ("abs", None, c)
            if ref_of(i) is not None:
                return ("rel", ref_of(i), 0)
            b = match.binop(i, ("+", "-"))
            if b and ref_of(b[1]) is not None and const_int(b[2]) is not None:
                return ("rel", ref_of(b[1]), const_int(b[2]) if b[0] == "+" else -const_int(b[2]))
            return None

        def make_atomize(extra=None):
            def atomize(n, run):
                if extra:
                    r = extra(n)
                    if r is not None:
                        return r
                fc = match.functor_call(n)
                if fc and ref_of(fc[0]) == comp and len(fc[1]) == 2:
                    a, b = pos_of(fc[1][0], pl), pos_of(fc[1][1], pl)
                    if a and b and a[1] == b[1] and abs(a[2] - b[2]) == 1:
                        return ("comp(hi,lo)", False) if a[2] > b[2] else ("comp(lo,hi)", False)
                    raise dtable.Undecidable("%s: comparator on unexpected operands: %s" % (fn.nloc(n), dtable.describe(n)))
                b = match.binop(n, ("<", ">"))
                if b and strip_casts(n)["k"] == "BinaryOperator":
                    a, c = pos_of(b[1], src), pos_of(b[2], src)
                    if a and c and a[1] == c[1] and abs(a[2] - c[2]) == 1:
                        hi_first = a[2] > c[2]
                        lt = b[0] == "<"
                        # normalise to src[hi] < src[lo]  (C)  /  src[lo] < src[hi]  (D)
                        return ("src(hi)<src(lo)", False) if hi_first == lt else ("src(lo)<src(hi)", False)
                return None
            return atomize

        def consistent(v):
            return not (v.get("comp(hi,lo)") and v.get("comp(lo,hi)")) and not (v.get("src(hi)<src(lo)") and v.get("src(lo)<src(hi)")) \
                and (v.get("src(hi)<src(lo)") or v.get("src(lo)<src(hi)") or "src(hi)<src(lo)" not in v)

        def swap_spec(v):
            A, B = v["comp(hi,lo)"], v["comp(lo,hi)"]
            C, D = v.get("src(hi)<src(lo)", False), v.get("src(lo)<src(hi)", False)
            if stable:
                return (A or (not A and not B and C)), (B or (not A and not B and D))
            return A, B
        spec_atoms = ["comp(hi,lo)", "comp(lo,hi)"] + (["src(hi)<src(lo)", "src(lo)<src(hi)"] if stable else [])
        n_sites = 0
        bad = False
        # (1) swap decisions: if-statements and while-conditions guarding std::swap(pl[..], pl[..])
        for x in ir.walk(fn.body):
            cond = None
            if x["k"] == "IfStmt" and any(match.call_named(y, ("swap",)) for y in ir.walk(kids(x)[1])):
                if const_int(kids(x)[0]) is not None:
                    continue
                cond = kids(x)[0]
                body = kids(x)[1]
            elif x["k"] == "WhileStmt" and any(match.call_named(y, ("swap",)) for y in kids(kids(x)[1]) if y):
                cond = kids(x)[0]
                body = kids(x)[1]
                if any(y["k"] in ("WhileStmt", "ForStmt") for y in ir.walk(body)):
                    continue
            if cond is None:
                continue
            # reachable for this instantiation? (if (Stable) ... else ...)
            if not reachable_const(fn, x):
                continue

            def extra(n):
                b = match.binop(n, ("<",))
                if b and strip_casts(n)["k"] == "BinaryOperator" and pos_of(b[1], src) is None and ref_of(b[1]) is not None and ref_of(b[2]) is not None:
                    return ("in-range", False)
                return None
            leaves = dtable.explore(cond, make_atomize(extra), fn, as_expr=True)
            atoms = list(dict.fromkeys(spec_atoms + dtable.atoms_of(leaves)))
            n_sites += 1
            for v, lf in dtable.table(leaves, consistent, atoms):
                if "in-range" in v and not v["in-range"]:
                    if lf["result"]:
                        ck.violation("BUBBLE-TABLE", fn.qname, "%s:swap-range" % ("stable" if stable else "unstable"), "sink-down continues beyond the live players", fn.nloc(cond))
                        bad = True
                    continue
                req, forb = swap_spec(v)
                if (req and not lf["result"]) or (forb and lf["result"]):
                    ck.violation("BUBBLE-TABLE", fn.qname, "%s:swap:%s" % ("stable" if stable else "unstable", dtable.fmt_val(v)),
                                 "neighbour exchange decision wrong for (%s): exchanges=%s" % (dtable.fmt_val(v), lf["result"]), fn.nloc(cond))
                    bad = True
            # swapped things: both arrays at the same positions
            sw = [y for y in ir.walk(body) if match.call_named(y, ("swap",))]
            arrs = set()
            for y in sw:
                a, b = kids(y)
                for arr in (pl, src):
                    pa, pb = pos_of(a, arr), pos_of(b, arr)
                    if pa and pb and pa[1] == pb[1] and abs(pa[2] - pb[2]) == 1:
                        arrs.add(arr)
            if arrs != {pl, src}:
                ck.violation("BUBBLE-TABLE", fn.qname, "%s:swap-both" % ("stable" if stable else "unstable"), "key and source arrays are not exchanged together", fn.nloc(x))
                bad = True
        # (2) emission loops: while ((nrp == 1 || cmp) && size > 0) inside the outer loop
        emis = []
        for x in ir.walk(fn.body):
            if x["k"] == "WhileStmt" and reachable_const(fn, x):
                body = kids(x)[1]
                if any(match.unop(y, ("++",)) and ref_of(match.unop(y, ("++",))[1]) == fn.params[2]["did"] for y in kids(body) if y) :
                    emis.append(x)
        ctxs = []
        for w in emis:
            # context: enclosing if-conditions inside the function
            ctx = []
            node, par = w, fn.parent(w)
            while par is not None:
                if par["k"] == "IfStmt" and const_int(kids(par)[0]) is None:
                    in_then = any(y is node for y in ir.walk(kids(par)[1]))
                    ctx.append((kids(par)[0], in_then))
                node, par = par, fn.parent(par)

            def extra(n):
                b = match.binop(n, ("==",))
                if b and const_int(b[2]) == 1 and ref_of(b[1]) is not None:
                    return ("single", False)
                b = match.binop(n, (">",))
                if b and ref_of(b[1]) == fn.params[3]["did"] and const_int(b[2]) == 0:
                    return ("size>0", False)
                return None
            at = make_atomize(extra)

            def abs_atom(n, run, at=at):
                r = at(n, run)
                return r
            cond = kids(w)[0]
            leaves = dtable.explore(cond, at, fn, as_expr=True)
            ctx_leaves = [(dtable.explore(c, at, fn, as_expr=True), pol) for c, pol in ctx]
            atoms = ["comp(hi,lo)", "comp(lo,hi)", "single", "size>0"] + (["src(hi)<src(lo)", "src(lo)<src(hi)"] if stable else [])
            for ls, _ in ctx_leaves:
                atoms += dtable.atoms_of(ls)
            atoms = list(dict.fromkeys(atoms + dtable.atoms_of(leaves)))
            n_sites += 1
            for v, lf in dtable.table(leaves, consistent, atoms):
                if not v["size>0"]:
                    if lf["result"]:
                        ck.violation("BUBBLE-TABLE", fn.qname, "emit:size", "emission continues although the requested length is exhausted", fn.nloc(cond))
                        bad = True
                    continue
                holds = True
                for ls, pol in ctx_leaves:
                    for v2, l2 in dtable.table(ls, None, atoms):
                        if v2 == v:
                            holds = holds and (l2["result"] == pol)
                            break
                if not holds:
                    continue
                ctxs.append(tuple(sorted(v.items())))
                if v["single"]:
                    if not lf["result"]:
                        ck.violation("BUBBLE-TABLE", fn.qname, "emit:single", "with a single live sequence emission must continue", fn.nloc(cond))
                        bad = True
                    continue
                # head = position 0 ('lo'), next = position 1 ('hi')
                A, B = v["comp(hi,lo)"], v["comp(lo,hi)"]
                C, D = v.get("src(hi)<src(lo)", False), v.get("src(lo)<src(hi)", False)
                if stable:
                    must = B or (not A and not B and D)
                    mustnot = A or (not A and not B and C)
                else:
                    must, mustnot = B, A
                if (must and not lf["result"]) or (mustnot and lf["result"]):
                    ck.violation("BUBBLE-TABLE", fn.qname, "%s:emit:%s" % ("stable" if stable else "unstable", dtable.fmt_val(v)),
                                 "emission of the front player %s although %s (%s)" % ("stops" if must else "continues",
                                 "it is the stable minimum" if must else "the next player precedes it", dtable.fmt_val(v)), fn.nloc(cond))
                    bad = True
        ck.require(n_sites >= 3, "%s: bubble decisions not found (%d)" % (fn.loc, n_sites))
        if not bad:
            ck.ok("BUBBLE-TABLE", "multiway_merge_bubble<%s>" % fn.targs[0], "%d decision sites (initial sort, sink-down, emission loops) agree with the %s order"
                  % (n_sites, "stable (key, source)" if stable else "key"))


def reachable_const(fn, node):
    """False if the node sits in the dead branch of an if with a compile-time constant condition"""
    n, par = node, fn.parent(node)
    while par is not None:
        if par["k"] == "IfStmt":
            cv = const_int(kids(par)[0])
            if cv is not None:
                in_then = kids(par)[1] is not None and any(y is n for y in ir.walk(kids(par)[1]))
                if in_then != bool(cv):
                    return False
        n, par = par, fn.parent(par)
    return True
